"""Table of source mutants for the sensitivity self-test (see tools/mutants.py).

(property, name, file relative to the repo root, old text (must occur once), new text)
"""

MUTANTS = [
    ("C20", "fourindex-typo", "iodata/utils.py",
     "four_index_object[i3, i0, i1, i2] = value", "four_index_object[i3, i0, i2, i1] = value"),
    ("C20", "checkdm-occmax-minus-eps", "iodata/utils.py",
     "if occupations.max() > occ_max + eps:", "if occupations.max() > occ_max - eps:"),
    ("C20", "strtobool-on-removed", "iodata/utils.py", '    "on": True,\n', ""),
    ("C20", "volume-2d-dot", "iodata/utils.py",
     "return np.linalg.norm(np.cross(cellvecs[0], cellvecs[1]))",
     "return np.linalg.norm(cellvecs[0]) * np.linalg.norm(cellvecs[1])"),
    ("C10", "signs-from-wrong-table", "iodata/convert.py",
     "signs = [signs1[i] * sign2 for i, sign2 in zip(permutation, signs2)]",
     "signs = [signs2[i] * sign2 for i, sign2 in zip(permutation, signs2)]"),
    ("C10", "reverse-signs", "iodata/convert.py",
     "signs = [signs2[i] * sign1 for i, sign1 in zip(permutation, signs1)]",
     "signs = [signs1[i] * sign1 for i, sign1 in zip(permutation, signs1)]"),
    ("C10", "reverse-perm-not-inverted", "iodata/convert.py",
     "permutation = [conv2.index(el1) for el1 in conv1]",
     "permutation = [conv1.index(el2) for el2 in conv2]"),
    ("C10", "wfn-table-duplicate", "iodata/formats/wfn.py",
     "'xxyyy', 'xxxzz', 'xxxyz', 'xxxyy', 'xxxxz', 'xxxxy', 'xxxxx'],\n}",
     "'xxyyy', 'xxxzz', 'xxxyz', 'xxxyy', 'xxxxz', 'xxxxz', 'xxxxx'],\n}"),
    ("C20", "naturals-no-overlap", "iodata/utils.py",
     "evals, evecs = eigh(sds, overlap)", "evals, evecs = eigh(sds)"),
]
