"""Table of source mutants for the sensitivity self-test (see tools/mutants.py).

(property, name, file relative to the repo root, old text (must occur once), new text)
"""

MUTANTS = [
    ("C20", "fourindex-typo", "iodata/utils.py",
     "four_index_object[i3, i0, i1, i2] = value", "four_index_object[i3, i0, i2, i1] = value"),
    ("C20", "checkdm-occmax-minus-eps", "iodata/utils.py",
     "if occupations.max() > occ_max + eps:", "if occupations.max() > occ_max - eps:"),
    ("C20", "strtobool-on-removed", "iodata/utils.py", '    "on": True,\n', ""),
    ("C20", "volume-2d-dot", "iodata/utils.py",
     "return np.linalg.norm(np.cross(cellvecs[0], cellvecs[1]))",
     "return np.linalg.norm(cellvecs[0]) * np.linalg.norm(cellvecs[1])"),
    ("C20", "naturals-no-overlap", "iodata/utils.py",
     "evals, evecs = eigh(sds, overlap)", "evals, evecs = eigh(sds)"),
]
