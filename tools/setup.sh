#!/bin/bash
# Offline, idempotent set-up: hypothesis into /venv (no-op when present),
# atheris into /verif/.deps (only used by the C07 thorough tier).
here="$(cd "$(dirname "${BASH_SOURCE[0]}")/.." && pwd)"
PY=/venv/bin/python
WH=/opt/veriftools/wheels
export PIP_NO_INDEX=1
"$PY" -c "import hypothesis" 2>/dev/null || \
  /venv/bin/pip install --no-index --find-links "$WH" hypothesis
"$PY" -c "import mpmath" 2>/dev/null || \
  /venv/bin/pip install --no-index --find-links "$WH" --target "$here/.deps" mpmath sympy
if ! PYTHONPATH="$here/.deps" "$PY" -c "import atheris" 2>/dev/null; then
  /venv/bin/pip install --no-index --find-links "$WH" --target "$here/.deps" atheris || true
fi
exit 0
