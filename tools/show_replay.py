#!/usr/bin/env python3
import json, sys, glob
for pat in sys.argv[1:]:
    for f in sorted(glob.glob(pat)):
        o = json.load(open(f))
        print("==", f)
        print("  bucket:", o["bucket"], " shard:", o.get("shard"))
        print("  labels:", o.get("labels"))
        print("  message:", o["message"][:500])
        print("  spec:", json.dumps(o["spec"])[:1200])
