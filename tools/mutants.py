#!/venv/bin/python
"""Sensitivity self-test: apply small source mutations to a scratch copy of /repo/iodata and
require the quick check of the property to report a VIOLATION.

  tools/mutants.py [ID ...]        run the mutants of the given properties (default: all)

Mutants are (property, name, file, old, new) textual replacements (``old`` must occur exactly
once).  Results are written to tools/sensitivity.json.  Scratch copies live under $TMPDIR and are
removed after each run.
"""
import json
import os
import shutil
import subprocess
import sys
import tempfile
import time
from concurrent.futures import ThreadPoolExecutor

ROOT = os.path.dirname(os.path.dirname(os.path.abspath(__file__)))
REPO = os.environ.get("IODATA_SRC", "/repo")
sys.path.insert(0, ROOT)
from tools.mutant_table import MUTANTS  # noqa: E402


def run_mutant(mut):
    prop, name, relfile, old, new = mut[:5]
    scratch = tempfile.mkdtemp(prefix=f"ivp_mut_{prop}_")
    t0 = time.time()
    try:
        shutil.copytree(
            os.path.join(REPO, "iodata"),
            os.path.join(scratch, "iodata"),
            ignore=shutil.ignore_patterns("__pycache__", "test"),
        )
        path = os.path.join(scratch, relfile)
        text = open(path).read()
        if text.count(old) != 1:
            return {"property": prop, "name": name, "status": f"PATCH-ERROR count={text.count(old)}"}
        open(path, "w").write(text.replace(old, new))
        env = dict(os.environ)
        env.update(
            IODATA_REPO=scratch,
            VERIF_EVIDENCE_DIR=os.path.join(scratch, "evidence"),
            VERIF_REPLAY_DIR=os.path.join(scratch, "replay"),
            VERIF_NPROC=os.environ.get("MUT_NPROC", "8"),
        )
        try:
            proc = subprocess.run(
                [os.path.join(ROOT, "check"), prop, "--tier", "quick"],
                env=env, capture_output=True, text=True, timeout=1800,
            )
        except subprocess.TimeoutExpired:
            return {"property": prop, "name": name, "file": relfile, "old": old, "new": new,
                    "status": "TIMEOUT", "buckets": [], "wall_s": round(time.time() - t0, 1), "stderr_tail": ""}
        lines = [l for l in proc.stdout.splitlines() if l.startswith("VIOLATION")]
        buckets = [l.strip() for l in proc.stdout.splitlines() if l.startswith("  bucket=")]
        status = "caught" if proc.returncode == 1 and lines else f"MISSED exit={proc.returncode}"
        return {
            "property": prop, "name": name, "file": relfile, "old": old, "new": new,
            "status": status, "buckets": [b[:200] for b in buckets][:4],
            "wall_s": round(time.time() - t0, 1),
            "stderr_tail": proc.stderr[-400:] if proc.returncode == 2 else "",
        }
    finally:
        shutil.rmtree(scratch, ignore_errors=True)


def main():
    want = [a.upper() for a in sys.argv[1:]]
    todo = [m for m in MUTANTS if not want or m[0] in want]
    with ThreadPoolExecutor(max_workers=int(os.environ.get("MUT_PAR", "2"))) as pool:
        results = list(pool.map(run_mutant, todo))
    out = os.path.join(ROOT, "tools", "sensitivity.json")
    old = {}
    if os.path.exists(out):
        for r in json.load(open(out)):
            old[(r["property"], r["name"])] = r
    known = {(m[0], m[1]) for m in MUTANTS}
    old = {k: v for k, v in old.items() if k in known}  # drop results of mutants no longer in the table
    for r in results:
        old[(r["property"], r["name"])] = r
        print(f"{r['property']} {r['name']:40s} {r['status']} {r.get('wall_s','')}s")
    json.dump(sorted(old.values(), key=lambda r: (r["property"], r["name"])),
              open(out, "w"), indent=1)
    return 0 if all(r["status"] == "caught" for r in results) else 1


if __name__ == "__main__":
    sys.exit(main())
