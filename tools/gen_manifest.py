#!/usr/bin/env python3
"""Regenerate MANIFEST.json from the table below (only properties whose check module exists)."""
import json
import os

ROOT = os.path.dirname(os.path.dirname(os.path.abspath(__file__)))

BASELINE = (
    "cd /repo && /venv/bin/python -m pytest -ra -q -p no:cacheprovider --timeout=900 "
    "--continue-on-collection-errors"
)

# id -> (category, technique, level text, level note, design ref)
CHECKS = {
    "C06": (
        "exploration",
        "Hypothesis-generated basis-set pairs against an independent Obara-Saika overlap oracle "
        "(float64 + 40-digit mpmath) and metamorphic relations; randomized polynomial-identity "
        "testing of the 64 1-D kernels; entry-by-entry enumeration of the 8 Cartesian-to-pure tables",
        "compute_overlap is compared, element by element, with an oracle that shares no code or "
        "algorithm with it (recurrence instead of binomial expansion, harmonics re-derived from "
        "the documented recursion), in the documented screening mode, plus symmetry / PSD / swap / "
        "translation / convention-change relations and the rejection clauses. The finite parts "
        "(kernels as polynomial identities at 50 digits, tables) are complete in every run.",
        "oracle O self-tested against Gauss-Hermite quadrature and oracle E; tolerance "
        "1e-11*sqrt(S_mm S_nn)+1e-15; near-threshold cases skipped and counted",
        "DESIGN.md section 5, C06",
    ),
    "C14": (
        "exploration",
        "Hypothesis-generated bases and orbital sets; function-by-function comparison with the "
        "Gaussian evaluator oracle, overlap oracle, documented alpha/beta occupation rules",
        "convert_to_segmented / convert_to_unrestricted / prepare_* are run on generated bases "
        "(segmented, SP, generalized, any conventions) and orbital sets (closed, open-shell, "
        "fractional, occs_aminusb, missing arrays); every basis function of the result is "
        "evaluated on probe points and compared with the original, densities and spin densities "
        "are compared, idempotence / identity / rejection clauses are checked.",
        "oracles E and O; alpha/beta split rules as documented on MolecularOrbitals",
        "DESIGN.md section 5, C14",
    ),
    "C10": (
        "exploration",
        "exhaustive enumeration of all convention-table pairs and single-label corruptions + "
        "Hypothesis random bases/conventions against a label-dictionary reference",
        "Every ordered pair of convention tables in the code base on every shared shell type, "
        "every table entry, and every single-label corruption are enumerated completely "
        "(duplicates sampled for shell types with more than 28 functions); random shell "
        "sequences x three random conventions are searched with Hypothesis. Integer vectors are "
        "compared exactly with an independent label -> (position, sign) reference.",
        "canonical label sets taken from docs/basis.rst; any exception counts as a rejection",
        "DESIGN.md section 5, C10",
    ),
    "C20": (
        "exploration",
        "Hypothesis-generated matrices/cells against linear-algebra oracles; exhaustive "
        "enumeration of index quadruples (n<=6) and of the boolean vocabulary",
        "Generated-input search: random SPD overlaps and spectra (size 1..12) checked against the "
        "documented contract (S-orthonormality, eigenvalues, reconstruction, accept/reject of "
        "check_dm), random cells against sqrt(det Gram) and its invariances; the finite parts "
        "(four-index orbits for n<=6, all letter-case variants of the vocabulary) are enumerated "
        "completely. Exploration, not proof, for the continuous parts.",
        "numpy/scipy linear algebra in the oracle; spectra kept 1e-6 from the check_dm boundary",
        "DESIGN.md section 5, C20",
    ),
}


def main():
    checks = []
    for pid in sorted(CHECKS):
        if not os.path.exists(os.path.join(ROOT, "ivp", "props", pid.lower() + ".py")):
            continue
        cat, tech, text, note, ref = CHECKS[pid]
        checks.append(
            {
                "property_id": pid,
                "quick_cmd": f"./check {pid} --tier quick",
                "thorough_cmd": f"./check {pid} --tier thorough",
                "evidence_file": f"/verif/evidence/{pid}.json",
                "replay_cmd_template": f"./check {pid} --replay {{path}}",
                "engine": "ivp",
                "level_claimed": {"category": cat, "text": text, "design_ref": ref},
                "level_note": note,
                "technique": tech,
            }
        )
    have = {c["property_id"] for c in checks}
    pending = [f"C{i:02d}" for i in range(1, 21) if f"C{i:02d}" not in have]
    manifest = {
        "version": 1,
        "setup_cmd": "./tools/setup.sh",
        "hooks": {
            "guard": "IODATA_VERIF",
            "enable": "no source hooks are needed: all observation is done from the harness "
            "process (monkey-patching, sys.addaudithook, /proc/self/fd); the guard is unused",
            "baseline_off_cmd": BASELINE,
            "source_commits": [],
            "add_only": True,
        },
        "engines": [
            {
                "name": "ivp",
                "path": "/verif/ivp",
                "serves_properties": sorted(have),
                "kind_free_text": "property-based testing (Hypothesis strategies and rule-based "
                "state machines), exhaustive enumeration of small finite domains, structured "
                "mutation fuzzing; independent oracles (Gaussian evaluator, Obara-Saika overlaps, "
                "spec writers, reference models)",
            }
        ],
        "checks": checks,
        "notes": "Checks run /repo's working tree through /venv's editable install "
        "(IODATA_REPO=<dir> overrides, used by tools/mutants.py). VERIF_SEED selects the "
        "Hypothesis seeds. Properties whose check is not built yet (not 'not applicable'): "
        + (", ".join(pending) if pending else "none")
        + ". Known findings: known_findings.jsonl; seeded breakages: seeded/.",
        "not_applicable": [
            {
                "property_id": pid,
                "reason": "not claimed yet: the check for this property has not been built "
                "(the technique applies; see DESIGN.md section 5)",
            }
            for pid in pending
        ],
    }
    with open(os.path.join(ROOT, "MANIFEST.json"), "w") as fh:
        json.dump(manifest, fh, indent=1)
        fh.write("\n")
    print("checks:", sorted(have))


if __name__ == "__main__":
    main()
