#!/venv/bin/python
"""Evaluate seeded breakages (changes written by independent sub-agents).

  tools/seeded.py import <src_dir> <name>    copy <src_dir>/{patch.diff,demo.py,meta.json} to seeded/<name>/
                                            after confirming: demo passes on the clean tree and
                                            fails on the patched tree
  tools/seeded.py run [name ...] [--tier quick|thorough]
                                            apply each patch to a scratch copy of /repo/iodata, run the
                                            check of its property with IODATA_REPO=<scratch>, record
                                            whether a VIOLATION was reported (seeded/results.json)

Scratch copies live under $TMPDIR and are removed after each run; /repo is never modified.
"""
import json
import os
import shutil
import subprocess
import sys
import tempfile
import time

ROOT = os.path.dirname(os.path.dirname(os.path.abspath(__file__)))
REPO = "/repo"
PY = "/venv/bin/python"


def scratch_copy(patch=None):
    tmp = tempfile.mkdtemp(prefix="ivp_seed_")
    subprocess.run(["git", "-C", REPO, "worktree", "add", "-q", "--detach", os.path.join(tmp, "wt"), "HEAD"], check=True)
    wt = os.path.join(tmp, "wt")
    if patch:
        res = subprocess.run(["git", "-C", wt, "apply", patch], capture_output=True, text=True)
        if res.returncode != 0:
            remove_scratch(tmp)
            raise RuntimeError(f"patch does not apply: {res.stderr}")
    return tmp, wt


def remove_scratch(tmp):
    subprocess.run(["git", "-C", REPO, "worktree", "remove", "--force", os.path.join(tmp, "wt")], capture_output=True)
    shutil.rmtree(tmp, ignore_errors=True)


def run_demo(tree, demo):
    env = dict(os.environ, PYTHONPATH=tree, PYTHONDONTWRITEBYTECODE="1")
    res = subprocess.run([PY, demo], env=env, capture_output=True, text=True, timeout=900, cwd=os.path.dirname(demo))
    return res.returncode, (res.stdout + res.stderr)[-400:]


def cmd_import(src, name):
    dst = os.path.join(ROOT, "seeded", name)
    patch, demo, meta = (os.path.join(src, f) for f in ("patch.diff", "demo.py", "meta.json"))
    info = json.load(open(meta))
    tmp, wt = scratch_copy()
    try:
        rc_clean, out_clean = run_demo(wt, demo)
    finally:
        remove_scratch(tmp)
    tmp, wt = scratch_copy(patch)
    try:
        rc_patched, out_patched = run_demo(wt, demo)
    finally:
        remove_scratch(tmp)
    ok = rc_clean == 0 and rc_patched != 0
    print(f"{name}: demo clean rc={rc_clean}, patched rc={rc_patched} -> {'CONFIRMED' if ok else 'REJECTED'}")
    if not ok:
        print(out_clean, out_patched)
        return 1
    os.makedirs(dst, exist_ok=True)
    shutil.copy(patch, os.path.join(dst, "patch.diff"))
    shutil.copy(demo, os.path.join(dst, "demo.py"))
    info["confirmed"] = {
        "demo_on_clean_tree": f"exit {rc_clean}",
        "demo_on_patched_tree": f"exit {rc_patched}: {out_patched.strip().splitlines()[-1] if out_patched.strip() else ''}",
        "how": "tools/seeded.py import: patch applied to a scratch worktree of /repo HEAD, demo run with PYTHONPATH=<worktree>",
        "author_tests_run": info.get("tests_run"),
    }
    json.dump(info, open(os.path.join(dst, "meta.json"), "w"), indent=1)
    return 0


def cmd_run(names, tier):
    base = os.path.join(ROOT, "seeded")
    if not names:
        names = sorted(d for d in os.listdir(base) if os.path.isdir(os.path.join(base, d)))
    respath = os.path.join(base, "results.json")
    results = json.load(open(respath)) if os.path.exists(respath) else {}
    for name in names:
        d = os.path.join(base, name)
        meta = json.load(open(os.path.join(d, "meta.json")))
        # "also_checked_by" (added when triaging): properties whose statement the change breaks as
        # well; their checks are run too and the outcome is recorded per property
        props = [meta["property"]] + list(meta.get("also_checked_by", []))
        for prop in props:
            tmp, wt = scratch_copy(os.path.join(d, "patch.diff"))
            t0 = time.time()
            try:
                env = dict(os.environ, IODATA_REPO=wt, VERIF_EVIDENCE_DIR=os.path.join(tmp, "ev"),
                           VERIF_REPLAY_DIR=os.path.join(tmp, "replay"))
                res = subprocess.run([os.path.join(ROOT, "check"), prop, "--tier", tier], env=env,
                                     capture_output=True, text=True, timeout=7200)
            finally:
                remove_scratch(tmp)
            viol = [l for l in res.stdout.splitlines() if l.startswith("VIOLATION")]
            buckets = [l.strip()[:220] for l in res.stdout.splitlines() if l.startswith("  bucket=")]
            status = "caught" if res.returncode == 1 and viol else f"MISSED (exit {res.returncode})"
            key = tier if prop == meta["property"] else f"{tier}:{prop}"
            results.setdefault(name, {})[key] = {
                "property": prop, "status": status, "buckets": buckets[:3], "wall_s": round(time.time() - t0, 1),
                "cmd": f"IODATA_REPO=<scratch worktree with patch> ./check {prop} --tier {tier}",
            }
            print(f"{name:40s} {prop} {tier:8s} {status}  {buckets[:1]}")
            json.dump(results, open(respath, "w"), indent=1, sort_keys=True)
    return 0


def main():
    if len(sys.argv) >= 4 and sys.argv[1] == "import":
        return cmd_import(sys.argv[2], sys.argv[3])
    if len(sys.argv) >= 2 and sys.argv[1] == "run":
        args = sys.argv[2:]
        tier = "quick"
        if "--tier" in args:
            i = args.index("--tier")
            tier = args[i + 1]
            args = args[:i] + args[i + 2:]
        return cmd_run(args, tier)
    print(__doc__)
    return 2


if __name__ == "__main__":
    sys.exit(main())
