"""Runner: tiers, seeds, shards, evidence, VIOLATION / KNOWN-FINDING protocol.

Usage (through ../check):  python -m ivp.runner <ID> [--tier quick|thorough] [--replay FILE]

A property module ``ivp.props.cNN`` provides

  ID, LEVEL, RULE, ASSUMPTIONS
  shards(tier, seed) -> list of (shard_name, function_name, kwargs)
  <function_name>(ctx, **kwargs)      runs in a worker process, reports through ``ctx``
  replay(entry) -> list of problems   re-checks one stored case without Hypothesis

Exit status: 0 held / 1 violation (VIOLATION line printed) / 2 harness error.
"""

from __future__ import annotations

import argparse
import hashlib
import importlib
import json
import os
import re
import shutil
import sys
import tempfile
import time
import traceback
from collections import Counter
from concurrent.futures import ProcessPoolExecutor, as_completed
import multiprocessing

ROOT = os.path.dirname(os.path.dirname(os.path.abspath(__file__)))
NPROC = int(os.environ.get("VERIF_NPROC", "16"))

if os.environ.get("IODATA_REPO"):
    sys.path.insert(0, os.environ["IODATA_REPO"])


# ----------------------------------------------------------------------------------------------
# small helpers shared by all property modules
# ----------------------------------------------------------------------------------------------


def jsonable(obj):
    """Turn a case spec into plain JSON data (numpy scalars/arrays, tuples, sets, bytes)."""
    import numpy as np

    if isinstance(obj, dict):
        return {str(k): jsonable(v) for k, v in obj.items()}
    if isinstance(obj, (list, tuple)):
        return [jsonable(v) for v in obj]
    if isinstance(obj, (set, frozenset)):
        return sorted((jsonable(v) for v in obj), key=repr)
    if isinstance(obj, np.ndarray):
        return jsonable(obj.tolist())
    if isinstance(obj, np.generic):
        return jsonable(obj.item())
    if isinstance(obj, bytes):
        return {"__bytes__": obj.hex()}
    if isinstance(obj, float):
        if obj != obj:
            return "nan"
        if obj in (float("inf"), float("-inf")):
            return "inf" if obj > 0 else "-inf"
        return obj
    if isinstance(obj, (str, int, bool)) or obj is None:
        return obj
    return repr(obj)


def spec_hash(spec) -> str:
    text = json.dumps(jsonable(spec), sort_keys=True)
    return hashlib.sha1(text.encode()).hexdigest()[:16]


def derive_seed(seed: int, *names) -> int:
    text = repr((int(seed),) + tuple(str(n) for n in names))
    return int(hashlib.sha1(text.encode()).hexdigest()[:8], 16)


class HarnessError(Exception):
    """Something is wrong with the machinery, not with the code under test."""


class Problem(dict):
    """A property violation observed on one case: bucket (root-cause signature) + message."""

    def __init__(self, bucket: str, message: str, **extra):
        super().__init__(bucket=bucket, message=str(message)[:2000], **extra)


class ShardCtx:
    """Handed to every shard function; collects what was explored and what failed."""

    MAX_SAMPLES = 4

    def __init__(self, prop, shard, tier, seed, known, kwargs):
        self.prop = prop
        self.shard = shard
        self.tier = tier
        self.base_seed = seed
        self.seed = derive_seed(seed, prop, shard)
        self.known = known  # list of active (open, witness still failing) findings
        self.kwargs = kwargs
        self.evaluations = 0
        self.nontrivial = set()
        self.labels = Counter()
        self.samples = []
        self.samples_trivial = []
        self.failures = {}  # bucket -> dict(spec, message, labels, size)
        self.excluded_known = Counter()
        self.inconclusive = Counter()
        self.skipped = Counter()
        self.extra = {}
        self._tmp = None
        self.ignore_buckets = set()

    # -- scratch ------------------------------------------------------------------------------
    @property
    def tmpdir(self):
        if self._tmp is None:
            self._tmp = tempfile.mkdtemp(prefix=f"ivp_{self.prop}_")
        return self._tmp

    def cleanup(self):
        if self._tmp is not None:
            shutil.rmtree(self._tmp, ignore_errors=True)
            self._tmp = None

    # -- recording ----------------------------------------------------------------------------
    def record(self, spec, nontrivial: bool, labels=()):
        """Count one evaluated case."""
        self.evaluations += 1
        for label in labels:
            self.labels[label] += 1
        if nontrivial:
            h = spec_hash(spec)
            if h not in self.nontrivial:
                self.nontrivial.add(h)
                if len(self.samples) < self.MAX_SAMPLES:
                    self.samples.append(jsonable(spec))
        elif len(self.samples_trivial) < 1:
            self.samples_trivial.append(jsonable(spec))

    def count(self, **counters):
        for key, val in counters.items():
            self.extra[key] = self.extra.get(key, 0) + val

    # -- findings -----------------------------------------------------------------------------
    def match_known(self, problem, labels=()):
        for finding in self.known:
            if finding_matches(finding, problem["bucket"], labels):
                return finding
        return None

    def filter(self, spec, problems, labels=()):
        """Split problems into unknown ones (returned) and known findings (counted)."""
        unknown = []
        for problem in problems:
            finding = self.match_known(problem, labels)
            if finding is not None:
                self.excluded_known[finding["id"]] += 1
            elif problem["bucket"] in self.ignore_buckets:
                self.skipped["already_reported:" + problem["bucket"]] += 1
            else:
                unknown.append(problem)
        return unknown

    def report(self, spec, problems, labels=(), size=None):
        """For enumerating shards: register failures directly (first/smallest per bucket)."""
        unknown = self.filter(spec, problems, labels)
        for problem in unknown:
            self.add_failure(spec, problem, labels, size)
        return unknown

    def add_failure(self, spec, problem, labels=(), size=None):
        bucket = problem["bucket"]
        if size is None:
            size = len(json.dumps(jsonable(spec)))
        old = self.failures.get(bucket)
        if old is None or size < old["size"]:
            self.failures[bucket] = {
                "spec": jsonable(spec),
                "message": problem["message"],
                "labels": sorted(labels),
                "size": size,
                "shard": self.shard,
                "kwargs": jsonable({k: v for k, v in self.kwargs.items() if k != "prepared"}),
            }

    def result(self):
        samples = self.samples or self.samples_trivial
        return {
            "shard": self.shard,
            "evaluations": self.evaluations,
            "nontrivial": sorted(self.nontrivial),
            "labels": dict(self.labels),
            "samples": samples,
            "failures": self.failures,
            "excluded_known": dict(self.excluded_known),
            "inconclusive": dict(self.inconclusive),
            "skipped": dict(self.skipped),
            "extra": self.extra,
        }


def finding_matches(finding, bucket, labels=()):
    if not re.fullmatch(finding["bucket"], bucket):
        return False
    need = finding.get("requires_labels") or []
    return all(lab in labels for lab in need)


# ----------------------------------------------------------------------------------------------
# Hypothesis driver
# ----------------------------------------------------------------------------------------------

_FAIL_TYPES = {}


def _fail_type(bucket):
    """One exception class per bucket so that shrinking stays inside the root-cause bucket."""
    if bucket not in _FAIL_TYPES:
        name = "Fail_" + re.sub(r"\W", "_", bucket)
        _FAIL_TYPES[bucket] = type(name, (AssertionError,), {"bucket": bucket})
    return _FAIL_TYPES[bucket]


def drive(ctx, strategy, body, max_examples, *, shrink=None, rounds=3, name="case"):
    """Run ``body(spec) -> (problems, nontrivial, labels)`` over ``strategy`` with Hypothesis.

    Failures matching an active known finding are counted and swallowed; the first unknown
    failure is shrunk and stored; the search is then repeated (same seed) ignoring the buckets
    already found, up to ``rounds`` times, to list further distinct root causes.
    """
    import hypothesis
    from hypothesis import HealthCheck, Phase, given, settings

    if shrink is None:
        shrink = True
    _set_shrink_budget(ctx.tier)
    phases = [Phase.explicit, Phase.generate, Phase.target]
    if shrink:
        phases.append(Phase.shrink)

    for _round in range(rounds):
        state = {}

        def test(spec):
            out = body(spec)
            problems, nontrivial, labels = out
            ctx.record(spec, nontrivial, labels)
            unknown = ctx.filter(spec, problems, labels)
            if unknown:
                first = unknown[0]
                state["last"] = (spec, first, list(labels))
                raise _fail_type(first["bucket"])(first["message"])

        test.__name__ = name
        wrapped = given(strategy)(test)
        wrapped = settings(
            max_examples=max_examples,
            database=None,
            deadline=None,
            derandomize=False,
            report_multiple_bugs=False,
            phases=phases,
            suppress_health_check=list(HealthCheck),
            print_blob=False,
        )(wrapped)
        wrapped = hypothesis.seed(derive_seed(ctx.seed, name))(wrapped)
        try:
            wrapped()
        except BaseException as exc:  # noqa: BLE001
            bucket = getattr(exc, "bucket", None)
            flaky = type(exc).__name__ in ("Flaky", "FlakyFailure", "FlakyReplay")
            if flaky and "last" in state:
                # the same input failed once and passed once (e.g. a thread interleaving):
                # the observed failure is still a counter-example
                bucket = state["last"][1]["bucket"]
                ctx.count(flaky_failures=1)
            if not isinstance(exc, (AssertionError,)) and not flaky:
                raise
            if bucket is None or "last" not in state:
                raise HarnessError(f"unexpected assertion in harness: {exc!r}") from exc
            spec, problem, labels = state["last"]
            ctx.add_failure(spec, problem, labels)
            ctx.ignore_buckets.add(problem["bucket"])
            continue
        break


def _set_shrink_budget(tier):
    """Bound the time Hypothesis spends shrinking (its own cap is 5 minutes)."""
    try:
        from hypothesis.internal.conjecture import engine

        budget = int(os.environ.get("VERIF_SHRINK_S", "20" if tier == "quick" else "120"))
        engine.MAX_SHRINKING_SECONDS = budget
    except Exception:
        pass


def drive_machine(ctx, machine_cls, max_examples, step_count, name="machine"):
    """Run a RuleBasedStateMachine; the machine reports through ``machine_cls.ctx``."""
    import hypothesis
    from hypothesis import HealthCheck, settings
    from hypothesis.stateful import run_state_machine_as_test

    machine_cls.ctx = ctx
    _set_shrink_budget(ctx.tier)
    sett = settings(
        max_examples=max_examples,
        stateful_step_count=step_count,
        database=None,
        deadline=None,
        derandomize=False,
        report_multiple_bugs=False,
        suppress_health_check=list(HealthCheck),
        print_blob=False,
    )
    for _round in range(3):
        machine_cls.last_failure = None
        try:
            run_state_machine_as_test(
                hypothesis.seed(derive_seed(ctx.seed, name))(machine_cls), settings=sett
            )
        except AssertionError as exc:
            last = machine_cls.last_failure
            if getattr(exc, "bucket", None) is None or last is None:
                raise HarnessError(f"unexpected assertion in machine: {exc!r}") from exc
            spec, problem, labels = last
            ctx.add_failure(spec, problem, labels)
            ctx.ignore_buckets.add(problem["bucket"])
            continue
        break


# ----------------------------------------------------------------------------------------------
# worker entry
# ----------------------------------------------------------------------------------------------


def _limit_memory():
    try:
        import resource

        gib = int(os.environ.get("VERIF_MEM_GIB", "6"))
        resource.setrlimit(resource.RLIMIT_AS, (gib << 30, gib << 30))
    except Exception:
        pass


def _worker_init():
    """Workers must not outlive a killed parent (a timed-out check would keep 16 cores busy)."""
    try:
        import ctypes
        import signal

        ctypes.CDLL("libc.so.6", use_errno=True).prctl(1, int(signal.SIGKILL))  # PR_SET_PDEATHSIG
    except Exception:  # noqa: BLE001
        pass


def _run_shard(prop, modname, shard, funcname, kwargs, tier, seed, known):
    import warnings

    _limit_memory()
    warnings.simplefilter("ignore")
    mod = importlib.import_module(modname)
    ctx = ShardCtx(prop, shard, tier, seed, known, kwargs)
    t0 = time.time()
    try:
        getattr(mod, funcname)(ctx, **kwargs)
        res = ctx.result()
        res["error"] = None
    except BaseException:  # harness error, reported as exit 2 by the parent
        res = ctx.result()
        res["error"] = traceback.format_exc()
    finally:
        ctx.cleanup()
    res["wall_s"] = round(time.time() - t0, 2)
    return res


# ----------------------------------------------------------------------------------------------
# known findings
# ----------------------------------------------------------------------------------------------


def load_findings(prop):
    path = os.path.join(ROOT, "known_findings.jsonl")
    out = []
    if os.path.exists(path):
        with open(path) as fh:
            for line in fh:
                line = line.strip()
                if not line.startswith("{"):
                    continue  # human-readable "fixed: ..." / comment lines
                entry = json.loads(line)
                if entry.get("property") == prop:
                    out.append(entry)
    return out


def replay_witness(mod, finding):
    """Replay a finding's witness; return the list of problems it produces now."""
    path = os.path.join(ROOT, finding["witness"])
    with open(path) as fh:
        entry = json.load(fh)
    return mod.replay(entry)


# ----------------------------------------------------------------------------------------------
# main
# ----------------------------------------------------------------------------------------------


def main(argv=None):
    parser = argparse.ArgumentParser()
    parser.add_argument("prop")
    parser.add_argument("--tier", default=os.environ.get("VERIF_TIER", "quick"))
    parser.add_argument("--replay", default=None)
    parser.add_argument("--only", default=None, help="regex selecting shards (debugging)")
    args = parser.parse_args(argv)
    prop = args.prop.upper()
    tier = args.tier if args.tier in ("quick", "thorough") else "quick"
    try:
        seed = int(os.environ.get("VERIF_SEED", "1"))
    except ValueError:
        seed = 1
    modname = f"ivp.props.{prop.lower()}"
    t0 = time.time()
    try:
        mod = importlib.import_module(modname)
        import iodata

        iodata_file = iodata.__file__
    except Exception:
        traceback.print_exc()
        print(f"HARNESS-ERROR property={prop} cannot import", file=sys.stderr)
        return 2

    if args.replay:
        with open(args.replay) as fh:
            entry = json.load(fh)
        try:
            problems = mod.replay(entry)
        except Exception:
            traceback.print_exc()
            return 2
        if problems:
            for problem in problems:
                print(f"  {problem['bucket']}: {problem['message']}")
            print(f"VIOLATION property={prop} replay={args.replay}")
            return 1
        print(f"REPLAY-OK property={prop} {args.replay}")
        return 0

    # ---- known findings: replay witnesses -------------------------------------------------
    active = []
    known_lines = []
    regressions = []
    try:
        for finding in load_findings(prop):
            problems = replay_witness(mod, finding)
            hit = [p for p in problems if re.fullmatch(finding["bucket"], p["bucket"])]
            if finding.get("status") == "open":
                if hit:
                    active.append(finding)
                    known_lines.append(
                        f"KNOWN-FINDING: property={prop} {finding['id']}: {finding['what']}"
                    )
            elif problems:  # fixed: an ordinary regression case that must pass
                regressions.append((finding, problems))
    except Exception:
        traceback.print_exc()
        print(f"HARNESS-ERROR property={prop} known-finding witness replay failed", file=sys.stderr)
        return 2
    for line in known_lines:
        print(line)

    # ---- self tests of the oracles -----------------------------------------------------------
    if hasattr(mod, "selftest"):
        try:
            mod.selftest()
        except Exception:
            traceback.print_exc()
            print(f"HARNESS-ERROR property={prop} oracle self-test failed", file=sys.stderr)
            return 2

    # ---- optional preparation in the parent (e.g. fresh-interpreter reference results) ------------
    prepared = None
    if hasattr(mod, "prepare"):
        try:
            prepared = mod.prepare(tier, seed)
        except Exception:
            traceback.print_exc()
            print(f"HARNESS-ERROR property={prop} preparation failed", file=sys.stderr)
            return 2

    # ---- run shards -----------------------------------------------------------------------------
    shard_list = mod.shards(tier, seed)
    if prepared is not None:
        shard_list = [(n, f, dict(k, prepared=prepared)) for (n, f, k) in shard_list]
    if args.only:
        shard_list = [s for s in shard_list if re.search(args.only, s[0])]
    results = []
    errors = []
    ctxmp = multiprocessing.get_context("spawn")
    nproc = min(NPROC, max(1, len(shard_list)))
    try:
        with ProcessPoolExecutor(max_workers=nproc, mp_context=ctxmp, initializer=_worker_init) as pool:
            futs = {
                pool.submit(_run_shard, prop, modname, name, func, kwargs, tier, seed, active): name
                for (name, func, kwargs) in shard_list
            }
            for fut in as_completed(futs):
                try:
                    res = fut.result()
                except Exception as exc:  # worker died
                    errors.append(f"shard {futs[fut]}: {exc!r}")
                    continue
                if res.get("error"):
                    errors.append(f"shard {res['shard']}:\n{res['error']}")
                results.append(res)
    except Exception:
        traceback.print_exc()
        errors.append("process pool failure")

    # ---- merge -------------------------------------------------------------------------------------
    results.sort(key=lambda r: r["shard"])
    evaluations = sum(r["evaluations"] for r in results)
    nontrivial = set()
    labels = Counter()
    excluded = Counter()
    inconclusive = Counter()
    skipped = Counter()
    extra = Counter()
    samples = []
    failures = {}
    per_shard = {}
    for res in results:
        nontrivial.update(res["nontrivial"])
        labels.update(res["labels"])
        excluded.update(res["excluded_known"])
        inconclusive.update(res["inconclusive"])
        skipped.update(res["skipped"])
        for key, val in res["extra"].items():
            if isinstance(val, (int, float)):
                extra[key] += val
        for sample in res["samples"][:2]:
            if len(samples) < 12:
                samples.append({"shard": res["shard"], "case": sample})
        for bucket, fail in res["failures"].items():
            if bucket not in failures or fail["size"] < failures[bucket]["size"]:
                failures[bucket] = fail
        per_shard[res["shard"]] = {
            "evaluations": res["evaluations"],
            "distinct_nontrivial": len(res["nontrivial"]),
            "wall_s": res["wall_s"],
        }

    violation_lines = []
    for finding, problems in regressions:
        violation_lines.append(
            f"VIOLATION property={prop} replay={finding['witness']}"
            f"  # regression of fixed finding {finding['id']}: {problems[0]['message'][:200]}"
        )
    for bucket, fail in sorted(failures.items()):
        entry = {
            "property": prop,
            "bucket": bucket,
            "shard": fail["shard"],
            "kwargs": fail["kwargs"],
            "spec": fail["spec"],
            "labels": fail["labels"],
            "message": fail["message"],
            "seed": seed,
            "tier": tier,
        }
        rdir = os.path.join(os.environ.get("VERIF_REPLAY_DIR") or os.path.join(ROOT, "replay"), prop)
        os.makedirs(rdir, exist_ok=True)
        rpath = os.path.join(rdir, spec_hash([bucket, fail["spec"]]) + ".json")
        with open(rpath, "w") as fh:
            json.dump(entry, fh, indent=1, sort_keys=True)
        rel = os.path.relpath(rpath, ROOT) if rpath.startswith(ROOT) else rpath
        print(f"  bucket={bucket}: {fail['message'][:600]}")
        violation_lines.append(f"VIOLATION property={prop} replay={rel}")

    wall = round(time.time() - t0, 2)
    coverage = {
        "evaluations": int(evaluations),
        "distinct_nontrivial": len(nontrivial),
        "rule": mod.RULE,
        "samples": samples,
        "labels": dict(sorted(labels.items())),
        "excluded_known": dict(excluded),
        "known_findings_active": [f["id"] for f in active],
        "inconclusive": dict(inconclusive),
        "skipped": dict(skipped),
        "counters": dict(extra),
        "shards": per_shard,
        "iodata_file": iodata_file,
        "failure_buckets": sorted(failures),
    }
    if hasattr(mod, "coverage_extra"):
        coverage.update(mod.coverage_extra(tier, results))
    evidence = {
        "property_id": prop,
        "tier": tier,
        "seed": seed,
        "level": mod.LEVEL,
        "coverage": coverage,
        "assumptions": list(mod.ASSUMPTIONS),
        "wall_s": wall,
        "violations": len(violation_lines),
    }
    if errors:
        evidence["coverage"]["harness_errors"] = [e[-1500:] for e in errors]
    evdir = os.environ.get("VERIF_EVIDENCE_DIR") or os.path.join(ROOT, "evidence")
    os.makedirs(evdir, exist_ok=True)
    if not args.only:
        with open(os.path.join(evdir, f"{prop}.json"), "w") as fh:
            json.dump(evidence, fh, indent=1, sort_keys=True)
            fh.write("\n")

    print(
        f"{prop} tier={tier} seed={seed} evaluations={evaluations} "
        f"distinct_nontrivial={len(nontrivial)} excluded_known={sum(excluded.values())} "
        f"wall={wall}s"
    )
    if errors:
        for err in errors[:3]:
            print(err[-1800:], file=sys.stderr)
        if len(errors) > 3:
            print(f"... and {len(errors) - 3} more shard errors", file=sys.stderr)
        print(f"HARNESS-ERROR property={prop}", file=sys.stderr)
        # a harness error is never reported as a violation
        for line in violation_lines:
            print(line)
        return 1 if violation_lines else 2
    if violation_lines:
        for line in violation_lines:
            print(line)
        return 1
    return 0


if __name__ == "__main__":
    sys.exit(main())
