"""Executes a history of API calls from the C16 pool in *this* interpreter and prints, as JSON,
the digest of every call and any change of a module-level table.

  python -m ivp.c16_worker --history 3,17,5 [--threads 4] [--list]
"""

from __future__ import annotations

import argparse
import hashlib
import json
import os
import re
import shutil
import sys
import tempfile
import threading
import warnings

if os.environ.get("IODATA_REPO"):
    sys.path.insert(0, os.environ["IODATA_REPO"])


def corpus_dir():
    import iodata

    for cand in (os.path.join(os.path.dirname(iodata.__file__), "test", "data"), "/repo/iodata/test/data"):
        if os.path.isdir(cand):
            return cand
    return None


LOAD_ONE = [
    "water.xyz", "water_element.xyz", "water_single.pdb", "benzene.mol2", "example.sdf", "POSCAR.cubicbn_cartesian",
    "CHGCAR.oxygen", "LOCPOT.oxygen", "POSCAR.water", "h2o_sto3g.fchk", "li_h_3-21G_hf_g09.fchk", "h2o.molden.input", "h2_sto3g.mkl",
    "h2o_sto3g.wfn", "lih_cation_uhf.wfn", "water_sto3g_hf.wfx", "ch3_hf_sto3g_fchk_multiwfn3.7.mwfn",
    "carbon_gs_ae_contracted.cp2k.out", "FCIDUMP.molpro.h2", "FCIDUMP.psi4.h2", "water_orca.out", "PCGamess_PUNCH.dat",
    "water.gro", "crambin.crd", "water_z.com", "water_hf_ccpvtz_freq_qchem.out", "caffeine.mol2", "formamide.sdf", "2luv.pdb",
    "h2_ub3lyp_ccpvtz.wfx", "nh3_molden_pure.molden", "cubegen_ch4_6points.cube", "water.com", "water_sto3g_hf_g03.log",
    # FCHK files with other sets of optional records (no quadrupole / no dipole moment)
    "hf_sto3g.fchk", "water_hf_sto3g_qchem5.2.fchk", "ch3_rohf_sto3g_g03.fchk",
]
# files whose format cannot be derived from the name: loaded with an explicit format
LOAD_ONE_FMT = [
    ("mgo.xyz", "extxyz"), ("al_fcc.xyz", "extxyz"), ("s66_4114_02WaterMeOH.xyz", "extxyz"),
    ("water_extended_trajectory.xyz", "extxyz"), ("water.xyz", "extxyz"),
    ("LiCl_molecule.json", "json_qcschema"), ("LiCl_STO4G_Gaussian_input.json", "json_qcschema"),
    ("LiCl_STO4G_Gaussian_output.json", "json_qcschema"), ("water_cluster_ghost.json", "json_qcschema"),
]
LOAD_MANY_FMT = [("water_extended_trajectory.xyz", "extxyz"), ("al_fcc.xyz", "extxyz")]
LOAD_MANY = ["water_trajectory.xyz", "water_trajectory.pdb", "peroxide_opt.fchk", "peroxide_irc.fchk",
             "water_extended_trajectory.xyz", "water2.gro"]


def pool():
    """The list of calls (plain data).  Missing corpus files are dropped deterministically."""
    root = corpus_dir()
    calls = []
    have = set(os.listdir(root)) if root else set()
    for name in LOAD_ONE:
        if name in have:
            calls.append({"op": "load_one", "file": name})
    for name in sorted(have):
        if name.endswith((".pdb", ".sdf", ".mol2", ".gro")) and len(calls) < 60:
            calls.append({"op": "load_many", "file": name})
    for name in LOAD_MANY:
        if name in have:
            calls.append({"op": "load_many", "file": name})
    for name, fmt in LOAD_ONE_FMT:
        if name in have:
            calls.append({"op": "load_one", "file": name, "fmt": fmt})
    for name, fmt in LOAD_MANY_FMT:
        if name in have:
            calls.append({"op": "load_many", "file": name, "fmt": fmt})
    from ivp.gen import objects as OBJ

    for fmt in OBJ.ALL_FORMATS:
        calls.append({"op": "dump_one", "fmt": fmt, "variant": "base"})
    for fmt in ("xyz", "pdb", "mol2", "sdf", "poscar", "cube"):
        calls.append({"op": "dump_one", "fmt": fmt, "variant": "ghost_atom"})   # canary: periodic table
    for fmt in ("mol2", "sdf"):
        calls.append({"op": "dump_one", "fmt": fmt, "variant": "all_bond_types"})  # canary: bond tables
    for fmt in ("fchk", "molden", "molekel", "wfn", "wfx"):
        calls.append({"op": "dump_one", "fmt": fmt, "variant": "foreign_conventions"})  # canary: conventions
    # canaries: shell types a format has no ordering for (Cartesian h, pure i), in two source orderings
    for fmt in ("fchk", "molden", "molekel", "wfn", "wfx"):
        for variant in ("high_l_cartesian_horton", "high_l_cartesian_fchk", "high_l_pure"):
            calls.append({"op": "dump_one", "fmt": fmt, "variant": variant})
    for fmt in ("xyz", "pdb", "mol2", "sdf"):
        calls.append({"op": "dump_many", "fmt": fmt})
    for prog in ("gaussian", "orca"):
        calls.append({"op": "write_input", "program": prog})
    calls.append({"op": "dump_one", "fmt": "xyz", "variant": "missing_atcoords"})
    calls.append({"op": "dump_one", "fmt": "nonexistent", "variant": "base"})
    calls.append({"op": "load_one", "file": "does_not_exist.xyz"})
    for src, fmt in (("h2o_sto3g.fchk", "molden"), ("h2o_sto3g.wfn", "wfx"), ("water.xyz", "pdb"),
                     ("h2_sto3g.mkl", "fchk"), ("water_sto3g_hf.wfx", "wfn"), ("benzene.mol2", "sdf")):
        if src in have:
            calls.append({"op": "convert", "file": src, "fmt": fmt})
    calls.append({"op": "overlap", "file": "h2o_sto3g.fchk"})
    return calls


_SHARED_OBJECTS = {"on": False, "cache": {}}


def build_object(fmt, variant):
    """The argument object of a dump call.  In sequential histories the *same* object is handed to
    every call that uses it (a repeated call gets the very same argument), so that a writer that
    modifies its argument shows up as a result depending on the history."""
    if _SHARED_OBJECTS["on"]:
        key = (fmt, variant)
        if key not in _SHARED_OBJECTS["cache"]:
            _SHARED_OBJECTS["cache"][key] = _build_object(fmt, variant)
        return _SHARED_OBJECTS["cache"][key]
    return _build_object(fmt, variant)


def _build_object(fmt, variant):
    import numpy as np

    from ivp.gen import objects as OBJ
    from ivp.props import c08

    data = c08.base_object(fmt if fmt in OBJ.ALL_FORMATS else "xyz")
    if variant == "ghost_atom":
        atnums = np.array(data.atnums)
        atnums[0] = 0
        data.atnums = atnums
    elif variant == "all_bond_types":
        n = data.natom
        data.bonds = np.array([[i % n, (i + 1) % n, t] for i, t in enumerate(range(1, 12)) if i % n != (i + 1) % n])
    elif variant == "foreign_conventions":
        spec = c08.wf_spec(fmt, cons=[[[0, "c"]], [[2, "c"]], [[1, "c"]]])
        spec["basis"]["conv"] = "CCA"
        data = OBJ.build(spec)["data"]
    elif variant.startswith("high_l"):
        cons = [[[0, "c"]], [[6, "p"]]] if variant == "high_l_pure" else [[[0, "c"]], [[5, "c"]]]
        spec = c08.wf_spec(fmt, cons=cons)
        spec["basis"]["conv"] = "fchk" if variant.endswith("fchk") else "HORTON2"
        data = OBJ.build(spec)["data"]
    elif variant == "missing_atcoords":
        data.atcoords = None
    return data


def digest_obj(obj):
    from ivp.oracles import snapshot as S

    return hashlib.sha1(repr(S.snap(obj)).encode()).hexdigest()[:16]


def normalise(text, workdir):
    text = text.replace(workdir, "<TMP>")
    text = re.sub(r"/tmp/[A-Za-z0-9_./-]+", "<TMPPATH>", text)
    return text[:300]


def run_call(call, workdir):
    """Execute one call; returns its digest (a short string)."""
    import iodata
    from ivp.gen import objects as OBJ

    root = corpus_dir()
    os.makedirs(workdir, exist_ok=True)
    with warnings.catch_warnings(record=True):
        warnings.simplefilter("always")
        try:
            op = call["op"]
            if op == "load_one":
                fmtarg = {"fmt": "json_qcschema"} if call["file"].endswith(".json") else {}
                if "fmt" in call:
                    fmtarg = {"fmt": call["fmt"]}
                res = iodata.load_one(os.path.join(root, call["file"]), **fmtarg)
                return "ok:" + digest_obj(res)
            if op == "load_many":
                fmtarg = {"fmt": call["fmt"]} if "fmt" in call else {}
                frames = list(iodata.load_many(os.path.join(root, call["file"]), **fmtarg))
                return f"ok:{len(frames)}:" + digest_obj(frames)
            if op == "overlap":
                from iodata.overlap import compute_overlap

                res = iodata.load_one(os.path.join(root, call["file"]))
                return "ok:" + digest_obj(compute_overlap(res.obasis, res.atcoords))
            if op == "dump_one":
                fmt = call["fmt"]
                data = build_object(fmt, call["variant"])
                path = os.path.join(workdir, OBJ.filename(fmt, "out") if fmt in OBJ.ALL_FORMATS else "out.data")
                iodata.dump_one(data, path, fmt=fmt)
                return "ok:" + hashlib.sha1(open(path, "rb").read()).hexdigest()[:16]
            if op == "dump_many":
                import numpy as np

                fmt = call["fmt"]
                frames = [_build_object(fmt, "base") for _ in range(3)]  # modified below: never the shared ones
                if fmt == "mol2":
                    for fr in frames:
                        fr.atcharges = {"mol2charges": np.zeros(fr.natom)}
                path = os.path.join(workdir, OBJ.filename(fmt, "many"))
                iodata.dump_many(frames, path, fmt=fmt)
                return "ok:" + hashlib.sha1(open(path, "rb").read()).hexdigest()[:16]
            if op == "write_input":
                data = build_object("xyz", "base")
                path = os.path.join(workdir, "job.in")
                iodata.write_input(data, path, call["program"])
                return "ok:" + hashlib.sha1(open(path, "rb").read()).hexdigest()[:16]
            if op == "convert":
                fmt = call["fmt"]
                data = iodata.load_one(os.path.join(root, call["file"]))
                path = os.path.join(workdir, OBJ.filename(fmt, "conv"))
                iodata.dump_one(data, path, fmt=fmt, allow_changes=True)
                return "ok:" + hashlib.sha1(open(path, "rb").read()).hexdigest()[:16]
            raise ValueError(op)
        except Exception as exc:  # noqa: BLE001
            return f"exc:{type(exc).__name__}:" + normalise(str(exc), workdir)


def run_history(indices, nthreads=0):
    from ivp.oracles import snapshot as S

    calls = pool()
    base = tempfile.mkdtemp(prefix="ivp_c16_")
    out = {"digests": [None] * len(indices), "table_changes": []}
    try:
        import iodata.api  # noqa: F401  (load all modules before the first snapshot)

        tables = S.module_tables()
        _SHARED_OBJECTS["on"] = nthreads <= 1
        if nthreads <= 1:
            for pos, idx in enumerate(indices):
                out["digests"][pos] = run_call(calls[idx], os.path.join(base, f"c{pos}"))
                now = S.module_tables()
                diff = S.tables_diff(tables, now)
                if diff is not None:
                    out["table_changes"].append({"position": pos, "call": idx, "diff": diff[:300]})
                    tables = now
        else:
            sys.setswitchinterval(1e-6)
            chunks = [list(range(t, len(indices), nthreads)) for t in range(nthreads)]

            def work(positions):
                for pos in positions:
                    out["digests"][pos] = run_call(calls[indices[pos]], os.path.join(base, f"c{pos}"))

            threads = [threading.Thread(target=work, args=(chunk,)) for chunk in chunks if chunk]
            for th in threads:
                th.start()
            for th in threads:
                th.join()
            diff = S.tables_diff(tables, S.module_tables())
            if diff is not None:
                out["table_changes"].append({"position": -1, "call": -1, "diff": diff[:300]})
    finally:
        shutil.rmtree(base, ignore_errors=True)
    return out


def main():
    parser = argparse.ArgumentParser()
    parser.add_argument("--history", default="")
    parser.add_argument("--threads", type=int, default=0)
    parser.add_argument("--list", action="store_true")
    args = parser.parse_args()
    if args.list:
        print(json.dumps(pool()))
        return
    indices = [int(x) for x in args.history.split(",") if x != ""]
    print(json.dumps(run_history(indices, args.threads)))


if __name__ == "__main__":
    main()
