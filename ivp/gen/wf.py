"""Generators for basis sets, conventions and molecular orbitals.

Hypothesis draws the *structure* (plain-data spec); deterministic builders turn a spec into the
plain basis spec used by the oracles and into iodata objects.  Bulk numbers (coordinates,
exponents, contraction coefficients, orbital rotations) come from numpy generators seeded by
integers that are part of the spec, so a spec replays exactly.
"""

from __future__ import annotations

import numpy as np
from hypothesis import strategies as st

from ..oracles import gaussians as G
from ..oracles import overlap as O

class DegenerateBasis(Exception):
    """The generated basis is (numerically) linearly dependent; the case is skipped."""


NAMED_CONVENTIONS = ["HORTON2", "CCA", "fchk", "molden", "wfn", "mwfn", "cp2klog"]


# ----------------------------------------------------------------------------------------------
# strategies
# ----------------------------------------------------------------------------------------------


@st.composite
def st_basis(
    draw,
    max_l_cart=4,
    max_l_pure=4,
    max_centers=4,
    max_shells=6,
    max_prim=3,
    max_con=3,
    general=True,
    conv_choices=("random", "HORTON2", "CCA", "fchk", "molden", "wfn", "mwfn"),
    exp_range=(-2.0, 3.0),
    max_nbasis=60,
    min_l=0,
    balanced=False,
    prim_orders=False,
    center_orders=False,
):
    ncenter = draw(st.integers(1, max_centers))
    shells = []
    nbasis = 0
    nshell = draw(st.integers(1, max_shells))
    # balanced: a basis-level style, so that purely segmented bases (which every format accepts
    # without conversion) are as frequent as bases with SP or generalized shells
    style = draw(st.sampled_from(["segmented", "segmented", "sp", "general", "general"])) if balanced else "general"
    for _ in range(nshell):
        if style == "general":
            ncon = draw(st.integers(1, max_con)) if general else 1
            shape = (
                draw(st.sampled_from(["any", "any", "any", "any", "sp", "sp", "ps"]))
                if (general and max_con >= 2)
                else "any"
            )
        else:
            ncon = 1
            shape = draw(st.sampled_from(["any", "any", "sp"])) if (style == "sp" and general and max_con >= 2) else "any"
        cons = []
        if shape == "sp" and min_l == 0:
            cons = [[0, "c"], [1, "c"]]
        elif shape == "ps" and min_l == 0:
            cons = [[1, "c"], [0, "c"]]
        else:
            for _c in range(ncon):
                pure_ok = max_l_pure >= 2
                kind = draw(st.sampled_from(["c", "p"])) if (pure_ok and max_l_cart >= 0) else (
                    "p" if pure_ok else "c"
                )
                if kind == "p":
                    ell = draw(st.integers(max(2, min_l), max_l_pure))
                else:
                    if max_l_cart < min_l:
                        kind = "p"
                        ell = draw(st.integers(max(2, min_l), max_l_pure))
                    else:
                        ell = draw(st.integers(min_l, max_l_cart))
                cons.append([ell, kind])
        size = sum((l + 1) * (l + 2) // 2 if k == "c" else 2 * l + 1 for l, k in cons)
        if nbasis + size > max_nbasis and shells:
            break
        nbasis += size
        # contractions of one shell with the same (l, kind) need at least as many primitives
        mult = max(sum(1 for c in cons if c == con) for con in cons)
        shells.append(
            {
                "icenter": draw(st.integers(0, ncenter - 1)),
                "cons": cons,
                "nexp": draw(st.integers(min(mult, max(max_prim, mult)), max(max_prim, mult))),
            }
        )
    if center_orders:
        # order of the centres' blocks of shells: as drawn (usually interleaved), grouped per centre
        # in descending or ascending centre order (C01-seed7: a "grouped means sorted" fast path)
        how = draw(st.sampled_from(["grouped_descending", "as_drawn", "grouped_ascending", "as_drawn"]))
        if how != "as_drawn":
            shells = sorted(shells, key=lambda sh: sh["icenter"], reverse=how == "grouped_descending")
    return {
        "ncenter": ncenter,
        "shells": shells,
        "conv": draw(st.sampled_from(list(conv_choices))),
        "conv_seed": draw(st.integers(0, 2**16)),
        "geom": draw(st.sampled_from(["compact", "compact", "coincident", "spread"])),
        "payload_seed": draw(st.integers(0, 2**32 - 1)),
        "exp_range": list(exp_range),
        # order in which the primitives of a shell are listed (real basis sets list them by
        # descending exponent; nothing in the data model requires that)
        **({"prim_order": draw(st.sampled_from(["descending", "ascending", "shuffled"]))} if prim_orders else {}),
    }


@st.composite
def st_mo(draw, kinds=("restricted", "unrestricted"), allow_aminusb=True, non_aufbau=False):
    kind = draw(st.sampled_from(list(kinds)))
    occ = draw(
        st.sampled_from(
            (["closed", "open_integer", "fractional", "closed", "open_integer"]
             if kind == "restricted"
             else ["aufbau", "fractional", "aufbau"]) + (["non_aufbau"] if non_aufbau else [])
        )
    )
    return {
        "kind": kind,
        "occ": occ,
        "aminusb": bool(
            allow_aminusb and kind == "restricted" and draw(st.sampled_from([False, False, True]))
        ),
        "virtuals": draw(st.sampled_from(["all", "some", "none"])),
        "nocc_frac": draw(st.sampled_from([0.25, 0.5, 0.75])),
        "nopen": draw(st.integers(0, 2)),
        "energies": draw(st.sampled_from([True, True, False])),
        "irreps": draw(st.sampled_from([False, False, True])),
        "mo_seed": draw(st.integers(0, 2**32 - 1)),
    }


# ----------------------------------------------------------------------------------------------
# conventions
# ----------------------------------------------------------------------------------------------


def canonical_conventions(lmax=9):
    conv = {}
    for ell in range(lmax + 1):
        conv[(ell, "c")] = G.cart_labels(ell)
        if ell >= 2:
            conv[(ell, "p")] = G.pure_labels(ell)
    return conv


def named_conventions(name, lmax=9):
    """Convention table of a format module, read from the code under test as *data*."""
    import iodata.convert as conv

    if name == "HORTON2":
        table = conv.HORTON2_CONVENTIONS
    elif name == "CCA":
        table = conv.CCA_CONVENTIONS
    else:
        import importlib

        table = importlib.import_module(f"iodata.formats.{name}").CONVENTIONS
    out = canonical_conventions(lmax)
    for key, labels in table.items():
        if key in out:
            out[key] = list(labels)
    return out


def random_conventions(seed, lmax=9, flip_prob=0.3):
    rng = np.random.Generator(np.random.PCG64(seed))
    out = {}
    for key, labels in canonical_conventions(lmax).items():
        perm = rng.permutation(len(labels))
        out[key] = [("-" if rng.random() < flip_prob else "") + labels[i] for i in perm]
    return out


def make_conventions(name, seed, lmax=9):
    if name == "random":
        return random_conventions(seed, lmax)
    return named_conventions(name, lmax)


# ----------------------------------------------------------------------------------------------
# builders
# ----------------------------------------------------------------------------------------------


def build_centers(spec, rng):
    n = spec["ncenter"]
    geom = spec.get("geom", "compact")
    scale = {"compact": 1.5, "coincident": 1.5, "spread": 6.0, "far": 40.0}[geom]
    centers = rng.normal(size=(n, 3)) * scale
    if geom == "coincident" and n >= 2:
        centers[-1] = centers[0]
    return centers


def build_basis(spec, lmax=9):
    """spec -> plain basis spec for the oracles (dict with centers / shells / conventions)."""
    rng = np.random.Generator(np.random.PCG64(spec["payload_seed"]))
    centers = build_centers(spec, rng)
    lo, hi = spec.get("exp_range", [-2.0, 3.0])
    shells = []
    for sh in spec["shells"]:
        nexp = sh["nexp"]
        ncon = len(sh["cons"])
        exps = np.sort(np.exp(rng.uniform(lo * np.log(10), hi * np.log(10), size=nexp)))[::-1]
        # keep exponents distinct enough to print differently
        exps = exps * (1 + 0.05 * np.arange(nexp))
        coeffs = rng.uniform(0.2, 1.0, size=(nexp, ncon)) * rng.choice([-1, 1], size=(nexp, ncon))
        order = spec.get("prim_order", "descending")
        if order != "descending" and nexp > 1:
            # a separate generator: specs without the key build exactly what they always built
            rng2 = np.random.Generator(np.random.PCG64([int(spec["payload_seed"]), 7, len(shells)]))
            perm = np.arange(nexp)[::-1] if order == "ascending" else rng2.permutation(nexp)
            exps, coeffs = exps[perm], coeffs[perm]
        shells.append(
            {
                "icenter": int(sh["icenter"]),
                "angmoms": [int(c[0]) for c in sh["cons"]],
                "kinds": [str(c[1]) for c in sh["cons"]],
                "exponents": exps.copy(),
                "coeffs": coeffs,
            }
        )
    conventions = make_conventions(spec["conv"], spec["conv_seed"], lmax)
    return {"centers": centers, "shells": shells, "conventions": conventions}


def to_iodata_basis(plain, only_used=False):
    from iodata.basis import MolecularBasis, Shell

    shells = [
        Shell(
            sh["icenter"],
            list(sh["angmoms"]),
            list(sh["kinds"]),
            np.array(sh["exponents"], dtype=float),
            np.array(sh["coeffs"], dtype=float),
        )
        for sh in plain["shells"]
    ]
    conv = {k: list(v) for k, v in plain["conventions"].items()}
    if only_used:
        used = {(l, k) for sh in plain["shells"] for l, k in zip(sh["angmoms"], sh["kinds"])}
        conv = {k: v for k, v in conv.items() if k in used}
    return MolecularBasis(shells, conv, "L2")


def build_mo(mospec, plain, overlap=None):
    """Orthonormal orbitals (w.r.t. O's overlap of ``plain``) following ``mospec``.

    Returns a dict of constructor arguments for MolecularOrbitals (plain numpy data).
    """
    rng = np.random.Generator(np.random.PCG64(mospec["mo_seed"]))
    if overlap is None:
        overlap = O.overlap(plain)
    evals = np.linalg.eigvalsh(overlap)
    if evals.min() < 1e-6 * evals.max():
        raise DegenerateBasis
    nbasis = overlap.shape[0]
    kind = mospec["kind"]

    def rotation():
        q, _ = np.linalg.qr(rng.normal(size=(nbasis, nbasis)))
        return O.inv_sqrt(overlap) @ q

    def norb_for(nocc):
        virt = mospec["virtuals"]
        if virt == "all":
            return nbasis
        if virt == "none":
            return max(nocc, 1)
        return max(nocc, min(nbasis, nocc + 1 + (nbasis - nocc) // 2))

    ndocc = max(0, int(round(mospec["nocc_frac"] * nbasis)) - 1)
    nopen = min(mospec["nopen"], nbasis - ndocc)
    if ndocc + nopen == 0:
        ndocc = 1  # at least one electron
    occs_aminusb = None
    if kind == "restricted":
        nocc = ndocc + nopen
        norb = norb_for(nocc)
        occ = mospec["occ"]
        if occ == "closed":
            nocc = max(1, ndocc)
            norb = max(norb, nocc)
            occs = np.array([2.0] * nocc + [0.0] * (norb - nocc))
        elif occ == "open_integer":
            occs = np.array([2.0] * ndocc + [1.0] * nopen + [0.0] * (norb - nocc))
        elif occ == "non_aufbau":
            # integer occupations with holes below occupied orbitals (an excited determinant)
            norb = min(nbasis, max(norb, nocc + 1))
            occs = np.array([2.0] * ndocc + [1.0] * nopen + [0.0] * (norb - nocc))
            occs = _not_sorted(occs, rng)
        else:
            occs = np.sort(rng.uniform(0.05, 1.95, size=norb))[::-1].copy()
            occs = np.round(occs, 4) + 0.00013
        if mospec["aminusb"]:
            # any alpha/beta split compatible with 0 <= occ_a, occ_b <= 1
            limit = np.minimum(occs, 2 - occs)
            occs_aminusb = np.round(limit * rng.uniform(-1, 1, size=norb), 4)
            pattern = mospec["mo_seed"] % 4
            if pattern == 1:
                occs_aminusb = np.zeros(norb)  # explicit, but no spin polarisation anywhere
            elif pattern == 2 and np.count_nonzero(limit) >= 2:
                # open-shell singlet like: non-zero entries that sum to zero
                idx = np.nonzero(limit)[0][:2]
                val = float(np.round(min(limit[idx[0]], limit[idx[1]]), 4))
                occs_aminusb = np.zeros(norb)
                occs_aminusb[idx[0]], occs_aminusb[idx[1]] = val, -val
        coeffs = rotation()[:, :norb]
        energies = np.sort(rng.normal(size=norb)) if mospec["energies"] else None
        irreps = rng.choice(["A1", "A2", "B1", "B2", "E"], size=norb) if mospec["irreps"] else None
        return {
            "kind": "restricted",
            "norba": norb,
            "norbb": norb,
            "occs": occs,
            "coeffs": coeffs,
            "energies": energies,
            "irreps": irreps,
            "occs_aminusb": occs_aminusb,
        }
    if kind == "unrestricted":
        na = ndocc + nopen
        nb = ndocc
        if na == 0:
            na = 1
        norba, norbb = norb_for(na), norb_for(nb) if nb > 0 else norb_for(1)
        if mospec["virtuals"] == "some":
            # different numbers of alpha and beta orbitals (by 0, 1 or 2)
            norbb -= max(0, min(mospec["mo_seed"] % 3, norbb - max(nb, 1)))
        if mospec["occ"] == "aufbau":
            occsa = np.array([1.0] * na + [0.0] * (norba - na))
            occsb = np.array([1.0] * nb + [0.0] * (norbb - nb))
        elif mospec["occ"] == "non_aufbau":
            norba, norbb = min(nbasis, max(norba, na + 1)), min(nbasis, max(norbb, nb + 1))
            occsa = np.array([1.0] * na + [0.0] * (norba - na))
            occsb = np.array([1.0] * nb + [0.0] * (norbb - nb))
            which = mospec["mo_seed"] % 3
            if which in (0, 2):
                occsa = _not_sorted(occsa, rng)
            if which in (1, 2) or np.all(np.diff(occsa) <= 0):
                occsb = _not_sorted(occsb, rng)
        else:
            occsa = np.round(np.sort(rng.uniform(0.02, 0.98, size=norba))[::-1], 4) + 0.00013
            occsb = np.round(np.sort(rng.uniform(0.02, 0.98, size=norbb))[::-1], 4) + 0.00013
        coeffs = np.concatenate([rotation()[:, :norba], rotation()[:, :norbb]], axis=1)
        norb = norba + norbb
        energies = None
        if mospec["energies"]:
            energies = np.concatenate(
                [np.sort(rng.normal(size=norba)), np.sort(rng.normal(size=norbb))]
            )
        irreps = rng.choice(["A1", "A2", "B1", "B2", "E"], size=norb) if mospec["irreps"] else None
        return {
            "kind": "unrestricted",
            "norba": norba,
            "norbb": norbb,
            "occs": np.concatenate([occsa, occsb]),
            "coeffs": coeffs,
            "energies": energies,
            "irreps": irreps,
            "occs_aminusb": None,
        }
    # generalized: 2*nbasis rows
    norb = max(1, min(2 * nbasis, ndocc + nopen + 2))
    q, _ = np.linalg.qr(rng.normal(size=(2 * nbasis, 2 * nbasis)))
    return {
        "kind": "generalized",
        "norba": None,
        "norbb": None,
        "occs": np.array([1.0] * max(1, ndocc) + [0.0] * (norb - max(1, ndocc)))[:norb],
        "coeffs": q[:, :norb],
        "energies": np.sort(rng.normal(size=norb)) if mospec["energies"] else None,
        "irreps": None,
        "occs_aminusb": None,
    }


def _not_sorted(occs, rng):
    """A permutation of ``occs`` that is not in descending order (unchanged if none exists)."""
    if len(set(occs.tolist())) < 2:
        return occs
    for _ in range(20):
        perm = rng.permutation(len(occs))
        out = occs[perm]
        if np.any(np.diff(out) > 0):
            return out
    return occs[::-1].copy()


def to_iodata_mo(mo):
    from iodata.orbitals import MolecularOrbitals

    return MolecularOrbitals(
        mo["kind"],
        mo["norba"],
        mo["norbb"],
        None if mo["occs"] is None else np.array(mo["occs"]),
        None if mo["coeffs"] is None else np.array(mo["coeffs"]),
        None if mo["energies"] is None else np.array(mo["energies"]),
        None if mo["irreps"] is None else np.array(mo["irreps"]),
        None if mo.get("occs_aminusb") is None else np.array(mo["occs_aminusb"]),
    )


def spin_occupations(mo):
    """Reference alpha / beta occupations from the *documented* rules (orbitals.py class notes)."""
    occs = np.asarray(mo["occs"], dtype=float)
    if mo["kind"] == "unrestricted":
        return occs[: mo["norba"]], occs[mo["norba"] :]
    amb = mo.get("occs_aminusb")
    if amb is not None:
        amb = np.asarray(amb, dtype=float)
        return (occs + amb) / 2, (occs - amb) / 2
    if np.all(occs == np.round(occs)):
        occsa = np.clip(occs, 0, 1)
        return occsa, occs - occsa
    return occs / 2, occs / 2
