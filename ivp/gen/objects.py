"""Generators of IOData objects in the documented domain of each of the 13 dump formats.

``st_object(fmt, big)`` is a Hypothesis strategy of plain-data specs; ``build(spec)`` returns
``(data, dump_kwargs, load_kwargs, labels)``.  Optional attributes and recognised dictionary
keys are independently present or absent; sizes and magnitudes are drawn from boundary classes
that cross the field widths of the format.
"""

from __future__ import annotations

import numpy as np
from hypothesis import strategies as st

from . import wf

ANGSTROM = 1.8897261246257702
AMU = 1822.888486209

GEOM_FORMATS = ["xyz", "pdb", "mol2", "sdf", "poscar", "cube", "fcidump", "json_qcschema"]
WFN_FORMATS = ["fchk", "molden", "molekel", "wfn", "wfx"]
ALL_FORMATS = GEOM_FORMATS + WFN_FORMATS
EXT = {
    "xyz": "xyz", "pdb": "pdb", "mol2": "mol2", "sdf": "sdf", "poscar": None, "cube": "cube",
    "fcidump": "fcidump", "json_qcschema": "json", "fchk": "fchk", "molden": "molden",
    "molekel": "mkl", "wfn": "wfn", "wfx": "wfx",
}


def filename(fmt, stem="obj"):
    if fmt == "poscar":
        return "POSCAR_" + stem
    return f"{stem}.{EXT[fmt]}"


# ----------------------------------------------------------------------------------------------
# common pieces
# ----------------------------------------------------------------------------------------------


def st_natom(maxatom, big):
    classes = [1, 2, 3, 5, 9, 10, 11]
    for n in (99, 100, 101, 999, 1000, 1001, 9999, 10000, 10001, 12000):
        if n <= maxatom and (big or n <= 1200):
            classes.append(n)
    small = st.integers(1, min(12, maxatom))
    return st.one_of(small, small, small, st.sampled_from([c for c in classes if c <= maxatom]))


TITLE_ALPHABET = "abcdefghijklmnopqrstuvwxyzABCDEFGHIJKLMNOPQRSTUVWXYZ0123456789 _-+.,:;()[]=*/#"


def st_title():
    core = st.text(alphabet=TITLE_ALPHABET, min_size=1, max_size=40).map(lambda s: s.strip())
    return st.one_of(st.none(), core.filter(lambda s: len(s) > 0 and not s.startswith("#")))


def coords(rng, natom, cls, lo, hi):
    """Coordinates in angstrom inside [lo, hi] (the range the columns can hold)."""
    if cls == "small":
        arr = rng.normal(size=(natom, 3)) * 3
    elif cls == "negative":
        arr = -np.abs(rng.normal(size=(natom, 3))) * 20
    elif cls == "wide":
        arr = rng.uniform(lo, hi, size=(natom, 3))
    else:  # boundary
        arr = rng.normal(size=(natom, 3)) * 3
        idx = rng.integers(natom)
        arr[idx] = rng.choice([lo, hi, lo / 10, hi / 10], size=3)
    return np.clip(arr, lo, hi)


def random_bonds(rng, natom, nbond, types):
    if natom < 2 or nbond == 0:
        return np.zeros((0, 3), dtype=int)
    # always include bonds among the highest-numbered atoms (widest serial numbers)
    pairs = {(natom - 2, natom - 1)}
    if nbond >= 2 and natom >= 3:
        pairs.add((0, natom - 1))
    tries = 0
    while len(pairs) < nbond and tries < 20 * nbond:
        i, j = (int(x) for x in rng.integers(natom, size=2))
        tries += 1
        if i != j:
            pairs.add((min(i, j), max(i, j)))
    pairs = sorted(pairs)
    rng.shuffle(pairs)
    out = []
    for i, j in pairs:
        if rng.random() < 0.3:
            i, j = j, i
        out.append([i, j, int(rng.choice(types))])
    return np.array(out, dtype=int).reshape(-1, 3)


def st_common(fmt, maxatom, big):
    return {
        "fmt": st.just(fmt),
        "natom": st_natom(maxatom, big),
        "payload_seed": st.integers(0, 2**32 - 1),
        "coord_cls": st.sampled_from(["small", "small", "negative", "wide", "boundary"]),
        "title": st_title(),
        "elements": st.sampled_from(["light", "all", "two_letter"]),
        "layout": st.sampled_from(["C", "C", "C", "F", "strided"]),
    }


def atnums_for(rng, natom, cls):
    if cls == "light":
        return rng.choice([1, 6, 7, 8, 9, 16, 17], size=natom)
    if cls == "two_letter":
        return rng.choice([2, 3, 11, 17, 20, 26, 35, 47, 79, 118], size=natom)
    return rng.integers(1, 119, size=natom)


# ----------------------------------------------------------------------------------------------
# geometry formats
# ----------------------------------------------------------------------------------------------


def st_object(fmt, big=False):
    if fmt == "xyz":
        d = st_common(fmt, 12000, big)
        d["columns"] = st.sampled_from(["default", "default", "charges_forces", "masses", "two_charge_sets"])
        return st.fixed_dictionaries(d)
    if fmt == "pdb":
        d = st_common(fmt, 12000, big)
        d.update(
            attypes=st.booleans(), restypes=st.booleans(), resnums=st.booleans(),
            occupancies=st.booleans(), bfactors=st.booleans(), chainids=st.booleans(),
            compound=st.booleans(), nbond_frac=st.sampled_from([None, 0.0, 0.5, 1.0, 3.0]),
            long_labels=st.sampled_from([False] * 9 + [True]),
        )
        return st.fixed_dictionaries(d)
    if fmt == "mol2":
        d = st_common(fmt, 12000, big)
        d.update(
            charges=st.booleans(), attypes=st.booleans(),
            nbond_frac=st.sampled_from([None, 0.0, 0.5, 1.0, 3.0]),
        )
        return st.fixed_dictionaries(d)
    if fmt == "sdf":
        d = st_common(fmt, 999, big)
        d.update(nbond_frac=st.sampled_from([None, 0.0, 0.5, 1.0, 1.5]))
        return st.fixed_dictionaries(d)
    if fmt == "poscar":
        d = st_common(fmt, 2000, big)
        d.update(cell=st.sampled_from(["cubic", "triclinic", "lefthanded", "large"]))
        return st.fixed_dictionaries(d)
    if fmt == "cube":
        d = st_common(fmt, 200, big)
        d.update(
            shape=st.tuples(st.integers(1, 7), st.integers(1, 7), st.integers(1, 13)),
            corenums=st.sampled_from(["absent", "same", "ecp"]),
            values=st.sampled_from(["density", "signed", "tiny", "huge"]),
        )
        return st.fixed_dictionaries(d)
    if fmt == "fcidump":
        return st.fixed_dictionaries(
            {
                "fmt": st.just(fmt),
                "norb": st.integers(1, 6),
                "payload_seed": st.integers(0, 2**32 - 1),
                "core_energy": st.sampled_from(["absent", "value", "zero"]),
                "nelec": st.sampled_from(["absent", "int", "float"]),
                "spinpol": st.sampled_from(["absent", "int", "float"]),
                "sparsity": st.sampled_from([0.0, 0.0, 0.5]),
                "layout": st.sampled_from(["C", "C", "C", "F", "strided"]),
            }
        )
    if fmt == "json_qcschema":
        d = st_common(fmt, 400, big)
        d.update(
            schema=st.sampled_from(["qcschema_molecule", "qcschema_input", "qcschema_output"]),
            charge=st.sampled_from([0.0, 1.0, -1.0, 0.5]),
            spinpol=st.sampled_from([0, 1, 2]),
            masses=st.booleans(), bonds=st.booleans(), g_rot=st.booleans(),
            ghost=st.booleans(),
            provenance=st.sampled_from(["absent", "dict", "list"]),
            mol_extras=st.sets(
                st.sampled_from(["comment", "atom_labels", "fix_com", "fix_orientation", "id",
                                 "extras", "identifiers", "qcel_validated", "unparsed"]),
                max_size=4,
            ),
            in_extras=st.sets(st.sampled_from(["keywords", "extras", "id", "protocols"]), max_size=3),
            out_extras=st.sets(st.sampled_from(["stdout", "stderr", "error", "return_result"]), max_size=3),
            energy=st.booleans(), driver=st.sampled_from(["energy", "gradient", "hessian", "properties"]),
        )
        return st.fixed_dictionaries(d)
    if fmt in WFN_FORMATS:
        return st_wavefunction(fmt)
    raise ValueError(fmt)


def build(spec):
    """spec -> dict(data, dump_kwargs, load_kwargs, labels, truth)."""
    out = BUILDERS[spec["fmt"]](spec)
    keys = ["data", "dump_kwargs", "load_kwargs", "labels", "truth"]
    res = dict(zip(keys, out))
    res.setdefault("truth", None)
    res["labels"] = list(res["labels"]) + [f"fmt:{spec['fmt']}"]
    layout = spec.get("layout", "C")
    if layout != "C":
        relayout(res["data"], layout)
        res["labels"].append(f"layout:{layout}")
    return res


def _relayout_array(arr, layout):
    """Same values, different memory layout (Fortran order or a strided view)."""
    if not isinstance(arr, np.ndarray) or arr.ndim == 0 or arr.size == 0:
        return arr
    if layout == "F":
        return np.asfortranarray(arr) if arr.ndim >= 2 else arr
    # strided: every second element of a larger buffer along each axis
    big = np.zeros(tuple(2 * n for n in arr.shape), dtype=arr.dtype)
    view = big[tuple(slice(None, None, 2) for _ in arr.shape)]
    view[...] = arr
    return view


def relayout(data, layout):
    """Replace every array reachable from an IOData object by an equal array in another layout."""
    import attrs

    for field in attrs.fields(type(data)):
        name = field.name
        val = object.__getattribute__(data, name)
        if isinstance(val, np.ndarray):
            object.__setattr__(data, name, _relayout_array(val, layout))
        elif isinstance(val, dict):
            for key, item in list(val.items()):
                if isinstance(item, np.ndarray):
                    val[key] = _relayout_array(item, layout)
    if data.cube is not None:
        for name in ("origin", "axes", "data"):
            object.__setattr__(data.cube, name, _relayout_array(getattr(data.cube, name), layout))
    if data.mo is not None:
        for name in ("occs", "coeffs", "energies", "occs_aminusb"):
            val = getattr(data.mo, name)
            if isinstance(val, np.ndarray):
                object.__setattr__(data.mo, name, _relayout_array(val, layout))
    if data.obasis is not None:
        for shell in data.obasis.shells:
            for name in ("exponents", "coeffs"):
                object.__setattr__(shell, name, _relayout_array(getattr(shell, name), layout))


def _base(spec, lo, hi):
    rng = np.random.Generator(np.random.PCG64(spec["payload_seed"]))
    natom = spec["natom"]
    atnums = atnums_for(rng, natom, spec["elements"])
    atcoords = coords(rng, natom, spec["coord_cls"], lo, hi) * ANGSTROM
    labels = [f"natom:{size_class(natom)}", f"coords:{spec['coord_cls']}"]
    kwargs = {"atnums": atnums, "atcoords": atcoords}
    if spec["title"] is not None:
        kwargs["title"] = spec["title"]
        labels.append("opt:title")
    return rng, kwargs, labels


def size_class(n):
    for bound in (1, 9, 99, 999, 9999):
        if n <= bound:
            return f"<={bound}"
    return ">=10000"


def build_xyz(spec):
    from iodata import IOData
    from iodata.formats import xyz as xyzmod

    rng, kwargs, labels = _base(spec, -9999.0, 99999.0)
    natom = spec["natom"]
    dump_kwargs = {}
    if spec["columns"] == "charges_forces":
        cols = xyzmod.DEFAULT_ATOM_COLUMNS + [
            ("atcharges", "mulliken", (), float, float, "{:10.5f}".format),
            ("atgradient", None, (3,), float, (lambda word: -float(word)),
             (lambda value: f"{-value:15.10f}")),
        ]
        kwargs["atcharges"] = {"mulliken": np.round(rng.normal(size=natom), 5)}
        kwargs["atgradient"] = np.round(rng.normal(size=(natom, 3)), 10)
        dump_kwargs["atom_columns"] = cols
        labels.append("opt:atom_columns")
    elif spec["columns"] == "two_charge_sets":
        # two columns taken from the same dictionary attribute (different keys), plus an extra key
        # of another dictionary
        cols = xyzmod.DEFAULT_ATOM_COLUMNS + [
            ("atcharges", "mulliken", (), float, float, "{:10.5f}".format),
            ("atcharges", "hirshfeld", (), float, float, "{:10.5f}".format),
            ("extra", "weights", (), float, float, "{:10.5f}".format),
        ]
        kwargs["atcharges"] = {"mulliken": np.round(rng.normal(size=natom), 5),
                               "hirshfeld": np.round(rng.normal(size=natom), 5)}
        kwargs["extra"] = {"weights": np.round(rng.uniform(0, 1, size=natom), 5)}
        dump_kwargs["atom_columns"] = cols
        labels.append("opt:atom_columns")
        labels.append("opt:atom_columns_same_attribute")
    elif spec["columns"] == "masses":
        cols = xyzmod.DEFAULT_ATOM_COLUMNS + [
            ("atmasses", None, (), float, (lambda word: float(word) * AMU),
             (lambda value: f"{value / AMU:12.6f}")),
        ]
        kwargs["atmasses"] = rng.uniform(1, 250, size=natom) * AMU
        dump_kwargs["atom_columns"] = cols
        labels.append("opt:atom_columns")
    return IOData(**kwargs), dump_kwargs, dict(dump_kwargs), labels


def token(rng, maxlen, alphabet="ABCDEFGHIJKLMNOPQRSTUVWXYZ", tail="ABCDEFGHIJKLMNOPQRSTUVWXYZ0123456789"):
    n = int(rng.integers(1, maxlen + 1))
    return str(rng.choice(list(alphabet))) + "".join(rng.choice(list(tail), size=n - 1))


def build_pdb(spec):
    from iodata import IOData

    rng, kwargs, labels = _base(spec, -999.0, 9999.0)
    natom = spec["natom"]
    atff = {}
    extra = {}
    if spec["attypes"]:
        atff["attypes"] = np.array([token(rng, 4) for _ in range(natom)])
        labels.append("opt:attypes")
        if spec.get("long_labels"):
            # labels that do not fit in the PDB columns (e.g. atom types taken from a MOL2 file):
            # the writer may refuse, but must not write a file that cannot be read back
            atff["attypes"] = np.array([a + "XYZ9" for a in atff["attypes"]])
            labels.append("may_refuse")
    if spec["restypes"]:
        atff["restypes"] = np.array([token(rng, 3) for _ in range(natom)])
        labels.append("opt:restypes")
    if spec["resnums"]:
        atff["resnums"] = rng.choice([1, 2, 9, 10, 99, 100, 999, 1000, 9999, -1, -999], size=natom)
        labels.append("opt:resnums")
    if spec["occupancies"]:
        extra["occupancies"] = np.round(rng.choice([0.0, 0.5, 1.0, 99.99, -9.99, 999.99], size=natom) * rng.uniform(0, 1, size=natom), 2)
        labels.append("opt:occupancies")
    if spec["bfactors"]:
        extra["bfactors"] = np.round(rng.uniform(-99.99, 999.99, size=natom), 2)
        labels.append("opt:bfactors")
    if spec["chainids"]:
        extra["chainids"] = np.array([str(rng.choice(list("ABCXYZ12"))) for _ in range(natom)])
        labels.append("opt:chainids")
    if spec["compound"]:
        extra["compound"] = "COMPOUND " + token(rng, 8)
        labels.append("opt:compound")
    if atff:
        kwargs["atffparams"] = atff
    kwargs["extra"] = extra
    if spec["nbond_frac"] is not None:
        nbond = int(round(spec["nbond_frac"] * natom))
        kwargs["bonds"] = random_bonds(rng, natom, nbond, [1, 2, 3, 4, 8])
        labels.append("opt:bonds" if nbond else "opt:bonds_empty")
    return IOData(**kwargs), {}, {}, labels


def build_mol2(spec):
    from iodata import IOData

    rng, kwargs, labels = _base(spec, -99999.0, 999999.0)
    natom = spec["natom"]
    if spec["charges"]:
        kwargs["atcharges"] = {"mol2charges": np.round(rng.normal(size=natom) * rng.choice([1, 100]), 4)}
        labels.append("opt:charges")
    if spec["attypes"]:
        kwargs["atffparams"] = {"attypes": tuple(token(rng, 6, tail="ABCabc0123.") for _ in range(natom))}
        labels.append("opt:attypes")
    if spec["nbond_frac"] is not None:
        nbond = int(round(spec["nbond_frac"] * natom))
        kwargs["bonds"] = random_bonds(rng, natom, nbond, list(range(1, 12)))
        labels.append("opt:bonds" if nbond else "opt:bonds_empty")
    return IOData(**kwargs), {}, {}, labels


def build_sdf(spec):
    from iodata import IOData

    rng, kwargs, labels = _base(spec, -9999.0, 99999.0)
    natom = spec["natom"]
    if spec["nbond_frac"] is not None:
        nbond = min(999, int(round(spec["nbond_frac"] * natom)))
        kwargs["bonds"] = random_bonds(rng, natom, nbond, list(range(1, 9)))
        labels.append("opt:bonds" if nbond else "opt:bonds_empty")
        labels.append(f"nbond:{size_class(len(kwargs['bonds']))}")
    return IOData(**kwargs), {}, {}, labels


def make_cell(rng, cls):
    if cls == "cubic":
        cell = np.eye(3) * rng.uniform(3, 20)
    elif cls == "large":
        cell = np.diag(rng.uniform(50, 500, size=3)) + rng.normal(size=(3, 3))
    else:
        cell = np.diag(rng.uniform(3, 20, size=3)) + rng.normal(size=(3, 3)) * 1.5
    if np.linalg.det(cell) < 0:
        cell[0] *= -1
    if cls == "lefthanded":
        cell[2] *= -1
    return cell * ANGSTROM


def build_poscar(spec):
    from iodata import IOData

    rng = np.random.Generator(np.random.PCG64(spec["payload_seed"]))
    natom = spec["natom"]
    atnums = atnums_for(rng, natom, spec["elements"])
    cell = make_cell(rng, spec["cell"])
    frac = rng.uniform(-0.5, 1.5, size=(natom, 3)) if spec["coord_cls"] in ("negative", "wide") else rng.uniform(0, 1, size=(natom, 3))
    kwargs = {"atnums": atnums, "atcoords": frac @ cell, "cellvecs": cell}
    labels = [f"natom:{size_class(natom)}", f"cell:{spec['cell']}"]
    if spec["title"] is not None:
        kwargs["title"] = spec["title"]
        labels.append("opt:title")
    if len(set(atnums.tolist())) > 1:
        labels.append("multi_element")
    return IOData(**kwargs), {}, {}, labels


def build_cube(spec):
    from iodata import IOData
    from iodata.utils import Cube

    rng, kwargs, labels = _base(spec, -500.0, 5000.0)
    natom = spec["natom"]
    kwargs["atcoords"] = np.round(kwargs["atcoords"] / ANGSTROM, 6)  # a.u. in the file
    shape = tuple(spec["shape"])
    origin = np.round(rng.normal(size=3) * 5, 6)
    axes = np.round(np.diag(rng.uniform(0.1, 0.8, size=3)) + rng.normal(size=(3, 3)) * 0.05, 6)
    # an origin far from the molecule: components that fill the whole printed field (sign, four
    # integer digits, six decimals) must not fuse with their neighbours (C02-seed9)
    rng_far = np.random.Generator(np.random.PCG64(spec["payload_seed"] ^ 0x5EED9))
    if rng_far.uniform() < 0.3:
        origin[rng_far.integers(3)] = np.round(-rng_far.uniform(1000.0, 9000.0), 6)
        labels.append("cube:origin<=-1000")
    if spec["values"] == "density":
        vals = np.abs(rng.normal(size=shape))
    elif spec["values"] == "signed":
        vals = rng.normal(size=shape)
    elif spec["values"] == "tiny":
        vals = rng.normal(size=shape) * 1e-30
    else:
        vals = rng.normal(size=shape) * 1e30
    kwargs["cube"] = Cube(origin=origin, axes=axes, data=vals)
    if spec["corenums"] == "same":
        kwargs["atcorenums"] = kwargs["atnums"].astype(float)
        labels.append("opt:atcorenums")
    elif spec["corenums"] == "ecp":
        core = kwargs["atnums"].astype(float)
        core[core > 10] -= 10
        kwargs["atcorenums"] = core
        labels.append("opt:atcorenums_ecp")
    labels.append(f"grid_z:{shape[2] % 6}")
    return IOData(**kwargs), {}, {}, labels


def eightfold(rng, n, sparsity):
    arr = np.zeros((n, n, n, n))
    for i in range(n):
        for j in range(n):
            for k in range(n):
                for l in range(n):
                    if arr[i, j, k, l] == 0.0:
                        val = 0.0 if rng.random() < sparsity else float(rng.normal())
                        for pos in (
                            (i, j, k, l), (j, i, l, k), (k, j, i, l), (i, l, k, j),
                            (k, l, i, j), (l, k, j, i), (j, k, l, i), (l, i, j, k),
                        ):
                            arr[pos] = val
    return arr


def build_fcidump(spec):
    from iodata import IOData

    rng = np.random.Generator(np.random.PCG64(spec["payload_seed"]))
    n = spec["norb"]
    one = rng.normal(size=(n, n))
    one = one + one.T
    if spec["sparsity"]:
        mask = rng.random(size=(n, n)) < spec["sparsity"]
        one[mask | mask.T] = 0.0
    two = eightfold(rng, n, spec["sparsity"])
    kwargs = {"one_ints": {"core_mo": one}, "two_ints": {"two_mo": two}}
    labels = [f"norb:{n}"]
    if spec["core_energy"] != "absent":
        kwargs["core_energy"] = 0.0 if spec["core_energy"] == "zero" else float(rng.normal() * 10)
        labels.append("opt:core_energy")
    if spec["nelec"] != "absent":
        kwargs["nelec"] = 2 * n - 1 if spec["nelec"] == "int" else float(2 * n - 1)
        labels.append(f"opt:nelec_{spec['nelec']}")
    if spec["spinpol"] != "absent":
        kwargs["spinpol"] = 1 if spec["spinpol"] == "int" else 1.0
        labels.append(f"opt:spinpol_{spec['spinpol']}")
    return IOData(**kwargs), {}, {}, labels


def build_qcschema(spec):
    from iodata import IOData

    rng, kwargs, labels = _base(spec, -50.0, 50.0)
    natom = spec["natom"]
    schema = spec["schema"]
    kwargs["charge"] = spec["charge"]
    kwargs["spinpol"] = spec["spinpol"]
    mol = {}
    extra = {"schema_name": schema, "molecule": mol}
    if spec["ghost"]:
        core = kwargs["atnums"].astype(float)
        core[int(rng.integers(natom))] = 0.0
        kwargs["atcorenums"] = core
        labels.append("opt:ghost")
    if spec["masses"]:
        kwargs["atmasses"] = rng.uniform(1, 250, size=natom)
        labels.append("opt:masses")
    if spec["bonds"]:
        kwargs["bonds"] = random_bonds(rng, natom, natom, [1, 2, 3])
        labels.append("opt:bonds")
    if spec["g_rot"]:
        kwargs["g_rot"] = "c2v"
        labels.append("opt:g_rot")
    prov = {"creator": "someprogram", "version": "1.2", "routine": "x.y"}
    if spec["provenance"] == "dict":
        mol["provenance"] = dict(prov)
    elif spec["provenance"] == "list":
        mol["provenance"] = [dict(prov), {"creator": "other", "version": "0.1", "routine": "z"}]
    if spec["provenance"] != "absent":
        labels.append(f"opt:provenance_{spec['provenance']}")
    for key in sorted(spec["mol_extras"]):
        labels.append(f"opt:mol_{key}")
        if key == "comment":
            mol["comment"] = "a comment"
        elif key == "atom_labels":
            mol["atom_labels"] = [f"L{i}" for i in range(natom)]
        elif key in ("fix_com", "fix_orientation", "qcel_validated"):
            mol[key] = bool(rng.integers(2))
        elif key == "id":
            mol["id"] = "mol-17"
        elif key == "extras":
            mol["extras"] = {"nested": {"list": [1, 2, {"x": [3.5]}]}}
        elif key == "identifiers":
            mol["identifiers"] = {"molecule_hash": "abc", "names": ["n1", "n2"]}
        elif key == "unparsed":
            mol["unparsed"] = {"custom_key": [1, 2, 3]}
    if schema != "qcschema_molecule":
        inp = {"driver": spec["driver"], "model": {}}
        extra["input"] = inp
        kwargs["lot"] = "b3lyp"
        kwargs["obasis_name"] = "6-31g"
        if spec["provenance"] == "dict":
            inp["provenance"] = dict(prov)
        elif spec["provenance"] == "list":
            inp["provenance"] = [dict(prov), {"creator": "other", "version": "0.1", "routine": "z"}]
        for key in sorted(spec["in_extras"]):
            labels.append(f"opt:in_{key}")
            if key == "keywords":
                inp["keywords"] = {"scf": {"maxiter": 50}, "list": [1, 2]}
            elif key == "extras":
                inp["extras"] = {"tag": ["a", {"b": 1}]}
            elif key == "id":
                inp["id"] = "inp-3"
            elif key == "protocols":
                inp["protocols"] = {"keep_wavefunction": "all", "keep_stdout": True}
    if schema == "qcschema_output":
        out = {"properties": {"scf_iterations": 12, "nested": {"a": [1.5, 2.5]}}, "success": True}
        extra["output"] = out
        if spec["energy"]:
            kwargs["energy"] = float(-rng.uniform(1, 100))
            labels.append("opt:energy")
        if "return_result" in spec["out_extras"] or not (spec["energy"] and spec["driver"] == "energy"):
            out["return_result"] = [0.5, -0.25] if spec["driver"] != "energy" else -1.5
        for key in sorted(spec["out_extras"]):
            labels.append(f"opt:out_{key}")
            if key == "stdout":
                out["stdout"] = "program output text"
            elif key == "stderr":
                out["stderr"] = "program error text"
            elif key == "error":
                out["error"] = {"error_type": "none", "error_message": "nothing"}
    kwargs["extra"] = extra
    labels.append(f"schema:{schema}")
    return IOData(**kwargs), {}, {}, labels


# ----------------------------------------------------------------------------------------------
# wavefunction formats
# ----------------------------------------------------------------------------------------------

WF_LMAX = {"fchk": (5, 5), "molden": (4, 5), "molekel": (4, 4), "wfn": (5, 0), "wfx": (5, 0)}
WF_NATIVE = {"fchk": "fchk", "molden": "molden", "molekel": "molden", "wfn": "wfn", "wfx": "wfn"}


@st.composite
def st_wavefunction(draw, fmt):
    lc, lp = WF_LMAX[fmt]
    basis = draw(
        wf.st_basis(
            max_l_cart=lc, max_l_pure=lp, max_centers=5, max_shells=5, max_prim=3,
            max_con=2 if fmt == "fchk" else 1, general=(fmt == "fchk"),
            conv_choices=(WF_NATIVE[fmt], WF_NATIVE[fmt], "random", "HORTON2"),
            max_nbasis=35,
        )
    )
    if fmt == "fchk":
        # only SP generalized contractions are native to FCHK
        for sh in basis["shells"]:
            if len(sh["cons"]) > 1:
                sh["cons"] = [[0, "c"], [1, "c"]]
    if fmt in ("molden", "molekel"):
        kinds = {l: draw(st.sampled_from(["c", "p"])) for l in range(2, 6)}
        for sh in basis["shells"]:
            for con in sh["cons"]:
                if con[0] >= 2:
                    kind = kinds[con[0]]
                    if kind == "c" and con[0] > lc:
                        kind = "p"
                    if kind == "p" and con[0] > lp:
                        kind = "c"
                    con[1] = kind
        # h functions are flagged together with g functions ([9G]): keep them consistent
        hkinds = {con[1] for sh in basis["shells"] for con in sh["cons"] if con[0] == 5}
        if hkinds:
            for sh in basis["shells"]:
                for con in sh["cons"]:
                    if con[0] == 4:
                        con[1] = sorted(hkinds)[-1]
    if draw(st.booleans()):
        basis["shells"] = sorted(basis["shells"], key=lambda sh: sh["icenter"])
    mo = draw(wf.st_mo(kinds=("restricted", "restricted", "unrestricted"), allow_aminusb=False))
    mo["energies"] = True
    if fmt == "fchk":
        mo["occ"] = "open_integer" if mo["kind"] == "restricted" else "aufbau"
    if fmt == "molekel" and mo["kind"] == "restricted":
        mo["occ"] = draw(st.sampled_from(["closed", "closed", "fractional"]))
    opt = {
        "title": draw(st_title()),
        "energy": draw(st.booleans()),
        "corenums": draw(st.sampled_from(["absent", "absent", "same", "ecp"])) if fmt not in ("molekel", "wfn") else "absent",
        "irreps": draw(st.booleans()) if fmt in ("molden", "molekel") else False,
    }
    if fmt == "fchk":
        opt.update(
            atcharges=draw(st.sets(st.sampled_from(["mulliken", "esp", "npa", "mbs", "hirshfeld", "cm5"]), max_size=3)),
            atgradient=draw(st.booleans()), athessian=draw(st.booleans()),
            atmasses=draw(st.booleans()), atfrozen=draw(st.booleans()),
            lot=draw(st.sampled_from([None, "rhf", "b3lyp", "mp2", "ccsd", "cisd", "mp3"])),
            obasis_name=draw(st.sampled_from([None, "sto-3g", "aug-cc-pvtz"])),
            run_type=draw(st.sampled_from([None, "energy", "opt", "freq", "scan", "energy_force"])),
            rdms=draw(st.sets(st.sampled_from(["scf", "scf_spin", "post_scf_ao", "post_scf_spin_ao"]), max_size=3)),
            moments=draw(st.sets(st.sampled_from(["dipole", "quadrupole"]), max_size=2)),
            polar=draw(st.booleans()),
        )
    if fmt == "molekel":
        opt["atcharges"] = draw(st.booleans())
    if fmt == "wfn":
        opt["virial"] = draw(st.booleans())
        opt["mo_spin"] = draw(st.booleans())
    if fmt == "wfx":
        opt.update(
            lot=draw(st.sampled_from([None, "b3lyp"])), atgradient=draw(st.booleans()),
            keywords=draw(st.booleans()), num_perturbations=draw(st.booleans()),
            virial=draw(st.booleans()), nuc_viral=draw(st.booleans()),
            full_virial_ratio=draw(st.booleans()), num_core_electrons=draw(st.booleans()),
        )
    return {
        "fmt": fmt, "basis": basis, "mo": mo, "opt": opt,
        "atnum_seed": draw(st.integers(0, 2**16)),
        "layout": draw(st.sampled_from(["C", "C", "C", "F", "strided"])),
    }


def build_wavefunction(spec):
    from iodata import IOData

    fmt = spec["fmt"]
    plain = wf.build_basis(spec["basis"])
    mo = wf.build_mo(spec["mo"], plain)
    opt = spec["opt"]
    rng = np.random.Generator(np.random.PCG64(spec["atnum_seed"]))
    natom = len(plain["centers"])
    atnums = rng.integers(1, 37, size=natom)
    if opt["irreps"] and mo["irreps"] is None:
        mo["irreps"] = np.array([f"{i % 4 + 1}a" for i in range(len(mo["occs"]))])
    kwargs = {
        "atnums": atnums,
        "atcoords": plain["centers"].copy(),
        "obasis": wf.to_iodata_basis(plain),
        "mo": wf.to_iodata_mo(mo),
    }
    labels = [f"mo:{mo['kind']}"]
    if opt["title"] is not None:
        kwargs["title"] = opt["title"]
        labels.append("opt:title")
    if opt["energy"]:
        kwargs["energy"] = float(-np.round(rng.uniform(1, 5000), 5))
        labels.append("opt:energy")
    if opt["corenums"] == "same":
        kwargs["atcorenums"] = atnums.astype(float)
        labels.append("opt:atcorenums")
    elif opt["corenums"] == "ecp":
        core = atnums.astype(float)
        core[core > 10] -= 10
        kwargs["atcorenums"] = core
        labels.append("opt:atcorenums_ecp")
    extra = {}
    nbasis = mo["coeffs"].shape[0]
    if fmt == "fchk":
        if opt["atcharges"]:
            kwargs["atcharges"] = {k: rng.normal(size=natom) for k in sorted(opt["atcharges"])}
            labels += [f"opt:atcharges_{k}" for k in sorted(opt["atcharges"])]
        if opt["atgradient"]:
            kwargs["atgradient"] = rng.normal(size=(natom, 3))
            labels.append("opt:atgradient")
        if opt["athessian"]:
            h = rng.normal(size=(3 * natom, 3 * natom))
            kwargs["athessian"] = h + h.T
            labels.append("opt:athessian")
        if opt["atmasses"]:
            kwargs["atmasses"] = rng.uniform(1, 250, size=natom) * AMU
            labels.append("opt:atmasses")
        if opt["atfrozen"]:
            kwargs["atfrozen"] = rng.random(size=natom) < 0.5
            labels.append("opt:atfrozen")
        if any(key.startswith("post_scf") for key in opt["rdms"]) and opt["lot"] not in (
            "mp2", "mp3", "ccsd", "cisd"
        ):
            # post-SCF density matrices are labelled with the method named by ``lot``
            opt = dict(opt, lot="mp2")
        for key in ("lot", "obasis_name", "run_type"):
            if opt[key] is not None:
                kwargs[key] = opt[key]
                labels.append(f"opt:{key}={opt[key]}")
        if opt["rdms"]:
            rdms = {}
            for key in sorted(opt["rdms"]):
                d = rng.normal(size=(nbasis, nbasis))
                rdms[key] = d + d.T
                labels.append(f"opt:rdm_{key}")
            kwargs["one_rdms"] = rdms
        moments = {}
        if "dipole" in opt["moments"]:
            moments[(1, "c")] = rng.normal(size=3)
            labels.append("opt:dipole")
        if "quadrupole" in opt["moments"]:
            moments[(2, "c")] = rng.normal(size=6)
            labels.append("opt:quadrupole")
        if moments:
            kwargs["moments"] = moments
        if opt["polar"]:
            p = rng.normal(size=(3, 3))
            extra["polarizability_tensor"] = p + p.T
            labels.append("opt:polarizability")
    if fmt == "molekel" and opt.get("atcharges"):
        kwargs["atcharges"] = {"mulliken": np.round(rng.normal(size=natom), 6)}
        labels.append("opt:atcharges_mulliken")
    if fmt == "wfn":
        if opt["virial"]:
            extra["virial_ratio"] = float(np.round(rng.uniform(1.9, 2.1), 8))
            labels.append("opt:virial_ratio")
        if opt["mo_spin"]:
            if mo["kind"] == "restricted":
                extra["mo_spin"] = np.full(mo["norba"], 3)
            else:
                extra["mo_spin"] = np.array([1] * mo["norba"] + [2] * mo["norbb"])
            labels.append("opt:mo_spin")
    if fmt == "wfx":
        if opt["lot"]:
            kwargs["lot"] = opt["lot"]
            labels.append("opt:lot")
        if opt["atgradient"]:
            kwargs["atgradient"] = rng.normal(size=(natom, 3))
            labels.append("opt:atgradient")
        if opt["keywords"]:
            extra["keywords"] = "GTO"
        if opt["num_perturbations"]:
            extra["num_perturbations"] = 0
        if opt["virial"]:
            extra["virial_ratio"] = float(rng.uniform(1.9, 2.1))
            labels.append("opt:virial_ratio")
        if opt["nuc_viral"]:
            extra["nuc_viral"] = float(rng.normal())
            labels.append("opt:nuc_viral")
        if opt["full_virial_ratio"]:
            extra["full_virial_ratio"] = float(rng.uniform(1.9, 2.1))
            labels.append("opt:full_virial_ratio")
        if opt["num_core_electrons"]:
            extra["num_core_electrons"] = 2
            labels.append("opt:num_core_electrons")
    if extra:
        kwargs["extra"] = extra
    data = IOData(**kwargs)
    truth = {
        "atnums": atnums,
        "atcorenums": np.array(kwargs.get("atcorenums", atnums.astype(float)), dtype=float),
        "centers": plain["centers"],
        "basis": plain,
        "mo": mo,
        "one_rdms": {},
    }
    icenters = [sh["icenter"] for sh in plain["shells"]]
    if icenters != sorted(icenters):
        labels.append("unsorted_shells")
    if mo["kind"] == "restricted" and int(round(mo["occs"].sum())) % 2 == 1:
        labels.append("restricted_odd")
    if abs(mo["occs"].sum() - round(mo["occs"].sum())) > 1e-9:
        labels.append("fractional_nelec")
    if opt["corenums"] == "ecp" and (truth["atcorenums"] != atnums).any():
        labels.append("core_charges_differ")
    return data, {}, {}, labels, truth


BUILDERS = {
    "xyz": build_xyz, "pdb": build_pdb, "mol2": build_mol2, "sdf": build_sdf,
    "poscar": build_poscar, "cube": build_cube, "fcidump": build_fcidump,
    "json_qcschema": build_qcschema,
    "fchk": build_wavefunction, "molden": build_wavefunction, "molekel": build_wavefunction,
    "wfn": build_wavefunction, "wfx": build_wavefunction,
}
