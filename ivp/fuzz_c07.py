"""Coverage-guided fuzz target for C07 (Atheris / libFuzzer), run as a script by props/c07.py.

    python -m ivp.fuzz_c07 --filename water.xyz --module xyz --api load_one \
                           --runs 20000 --seed 1 --out DIR --corpus DIR

The fuzzer mutates the *content* of a file with a fixed name; every input goes through exactly
the same oracle as the structured mutants (``c07.check_load``): the call returns, yields
shape-consistent objects or raises LoadError naming the file (line number = last line read), no
other exception type, no leaked descriptor, no hang.  libFuzzer stops at the first crash, so a
problem is *recorded* (first input per bucket, written at once to ``DIR/problem_<k>.json``) and
the campaign continues.  ``atexit`` does not run under libFuzzer: counters are flushed to
``DIR/stats.json`` every 250 executions.
"""

import argparse
import hashlib
import json
import os
import sys
import tempfile
import warnings

if os.environ.get("IODATA_REPO"):
    sys.path.insert(0, os.environ["IODATA_REPO"])


def main():
    parser = argparse.ArgumentParser()
    parser.add_argument("--filename", required=True)
    parser.add_argument("--module", required=True)
    parser.add_argument("--api", default="load_one")
    parser.add_argument("--runs", type=int, default=10000)
    parser.add_argument("--seed", type=int, default=1)
    parser.add_argument("--out", required=True)
    parser.add_argument("--corpus", required=True)
    parser.add_argument("--max-len", type=int, default=8192)
    args = parser.parse_args()

    import atheris

    with atheris.instrument_imports(include=["iodata"]):
        import iodata  # noqa: F401
        import iodata.api  # noqa: F401  (imports every format module)

    from ivp.props import c07

    warnings.simplefilter("ignore")
    os.makedirs(args.out, exist_ok=True)
    tmpdir = tempfile.mkdtemp(prefix="ivp_c07_fuzz_")
    seeds = set()
    for name in sorted(os.listdir(args.corpus)):
        with open(os.path.join(args.corpus, name), "rb") as fh:
            seeds.add(hashlib.sha1(fh.read()).hexdigest()[:16])
    stats = {"execs": 0, "nontrivial": [], "labels": {}, "samples": [], "buckets": []}
    nontrivial = set()
    seen_buckets = set()

    def flush():
        stats["nontrivial"] = sorted(nontrivial)
        tmp = os.path.join(args.out, "stats.json.tmp")
        with open(tmp, "w") as fh:
            json.dump(stats, fh)
        os.replace(tmp, os.path.join(args.out, "stats.json"))

    def test_one_input(data):
        text = data.decode("utf-8", errors="surrogateescape")
        digest = hashlib.sha1(data).hexdigest()[:16]
        # format given explicitly for every second input (decided by the content, so that a saved
        # input reproduces)
        explicit = bool(data) and data[-1] % 2 == 1
        problems, _nt, labels = c07.run_mutant(tmpdir, args.filename, text, None, args.api, explicit, args.module)
        stats["execs"] += 1
        for label in labels:
            stats["labels"][label] = stats["labels"].get(label, 0) + 1
        lines_read = c07._PROGRESS["count"]
        if digest not in seeds and lines_read >= 3:
            if digest not in nontrivial and len(stats["samples"]) < 3:
                stats["samples"].append({"kind": "fuzz", "filename": args.filename, "api": args.api,
                                         "explicit": explicit, "content": text[:300]})
            nontrivial.add(digest)
        for problem in problems:
            if problem["bucket"] not in seen_buckets:
                seen_buckets.add(problem["bucket"])
                stats["buckets"].append(problem["bucket"])
                with open(os.path.join(args.out, f"problem_{len(seen_buckets)}.json"), "w") as fh:
                    json.dump({"bucket": problem["bucket"], "message": problem["message"],
                               "spec": {"kind": "fuzz", "filename": args.filename, "module": args.module,
                                        "api": args.api, "explicit": explicit, "content_hex": data.hex()}}, fh)
                flush()
        if stats["execs"] % 250 == 0:
            flush()

    argv = [sys.argv[0], f"-runs={args.runs}", f"-seed={args.seed or 1}", f"-max_len={args.max_len}",
            "-timeout=300", "-rss_limit_mb=6000", "-print_final_stats=0", "-verbosity=0", args.corpus]
    atheris.Setup(argv, test_one_input)
    flush()
    atheris.Fuzz()


if __name__ == "__main__":
    main()
