import sys

from ivp.runner import main

sys.exit(main())
