"""C06 - overlap matrices are the exact inner products of the documented functions."""

from __future__ import annotations

import math

import mpmath
import numpy as np
from hypothesis import strategies as st

from ..gen import wf
from ..oracles import gaussians as G
from ..oracles import overlap as O
from ..runner import Problem, drive

ID = "C06"
LEVEL = "exploration"
RULE = (
    "Hypothesis draws pairs of basis sets (1..5 centres incl. coincident and far-apart ones so "
    "that screening triggers, l=0..7 Cartesian, 2..7 pure, 1..6 primitives (listed by descending, ascending or shuffled exponent), exponents 1e-2..1e5, "
    "generalized contractions, random conventions with sign flips). Oracle O = Obara-Saika "
    "recurrence (float64 and 40-digit mpmath), in the documented screening mode; metamorphic "
    "relations (symmetry, PSD up to the screening bound, swap=transpose, translation, convention "
    "change = signed permutation). The 64 1-D kernels (n1,n2<=7) are tested as polynomial "
    "identities on random 50-digit arguments and the 8 Cartesian-to-pure tables entry by entry "
    "(both finite, complete). Non-trivial = two different centres and l>=2 on one side, or a "
    "screened primitive pair, or a generalized contraction; distinct by spec hash."
)
ASSUMPTIONS = [
    "oracle O (self-tested against Gauss-Hermite quadrature and against oracle E) is the truth",
    "accuracy is asserted relative to sqrt(S_mm S_nn) of the functions contracted with absolute "
    "coefficients (no cancellation between primitives): 1e-11*scale + 1e-15",
    "cases with a primitive pair within 1e-6 (log units) of the 1e-15 screening threshold are "
    "skipped and counted as inconclusive",
    "kernel identities: randomized polynomial identity testing (Schwartz-Zippel), not a proof",
]


def selftest():
    G.selftest(7)
    O.selftest()


def basis_strategy(max_nbasis):
    return wf.st_basis(
        max_l_cart=7,
        max_l_pure=7,
        max_centers=5,
        max_shells=6,
        max_prim=6,
        max_con=3,
        conv_choices=("random", "random", "HORTON2", "CCA", "fchk", "molden"),
        exp_range=(-2.0, 5.0),
        max_nbasis=max_nbasis,
        prim_orders=True,
    )


def pair_case(max_nbasis):
    return st.fixed_dictionaries(
        {
            "kind": st.just("pair"),
            "b0": basis_strategy(max_nbasis),
            "b1": st.one_of(st.none(), basis_strategy(max_nbasis)),
            "geom0": st.sampled_from(["asis", "asis", "spread", "far"]),
            "shift": st.tuples(
                st.sampled_from([0.0, 1.0, -17.5, 100.0]),
                st.sampled_from([0.0, -3.25, 57.0]),
                st.sampled_from([0.0, 0.125, -100.0]),
            ),
            "conv2_seed": st.integers(0, 2**16),
            "use_mp": st.sampled_from([False, False, False, True]),
        }
    )


def build_pair(spec):
    b0 = dict(spec["b0"])
    if spec["geom0"] != "asis":
        b0["geom"] = spec["geom0"]
    p0 = wf.build_basis(b0)
    p1 = None
    if spec["b1"] is not None:
        b1 = dict(spec["b1"])
        if spec["geom0"] != "asis":
            b1["geom"] = spec["geom0"]
        p1 = wf.build_basis(b1)
    return p0, p1


def signed_perm(plain, conv_new):
    """Reference signed permutation taking function order of plain['conventions'] to conv_new."""
    perm, signs = [], []
    offset = 0
    for sh in plain["shells"]:
        for ell, kind in zip(sh["angmoms"], sh["kinds"]):
            old = plain["conventions"][(ell, kind)]
            new = conv_new[(ell, kind)]
            where = {}
            for i, lab in enumerate(old):
                s, name = G.parse_label(lab)
                where[name] = (i, s)
            for lab in new:
                s2, name = G.parse_label(lab)
                i, s1 = where[name]
                perm.append(offset + i)
                signs.append(s1 * s2)
            offset += len(old)
    return np.array(perm), np.array(signs)


def abs_contractions(plain):
    out = dict(plain)
    out["shells"] = [dict(sh, coeffs=np.abs(np.asarray(sh["coeffs"], dtype=float))) for sh in plain["shells"]]
    return out


def check_pair(spec, counters=None):
    from iodata.overlap import compute_overlap

    p0, p1 = build_pair(spec)
    ob0 = wf.to_iodata_basis(p0)
    ob1 = wf.to_iodata_basis(p1) if p1 is not None else None
    info = {}
    ref = O.overlap(p0, p1, screen=True, info=info)
    if info["threshold_margin"] < 1e-6:
        return None  # too close to the screening threshold: inconclusive by construction
    exact = O.overlap(p0, p1, screen=False)
    # scale of S_mn: sqrt(S_mm S_nn) of the functions contracted with |coefficients|, i.e. without
    # cancellation between primitives (the forward error of a cancelling sum is eps * sum |terms|)
    d0 = np.sqrt(np.abs(np.diag(O.overlap(abs_contractions(p0)))))
    d1 = d0 if p1 is None else np.sqrt(np.abs(np.diag(O.overlap(abs_contractions(p1)))))
    scale = np.outer(d0, d1)
    tol = 1e-11 * scale + 1e-15
    problems = []
    try:
        if p1 is None:
            got = compute_overlap(ob0, p0["centers"])
        else:
            got = compute_overlap(ob0, p0["centers"], ob1, p1["centers"])
    except Exception as exc:
        return [Problem("C06/value/exception", f"compute_overlap raised {exc!r}")], info
    got = np.asarray(got)
    if got.shape != ref.shape:
        return [Problem("C06/value/shape", f"{got.shape} != {ref.shape}")], info
    err = np.abs(got - ref)
    if (err > tol).any():
        i, j = np.unravel_index(np.argmax(err / tol), err.shape)
        problems.append(
            Problem(
                "C06/value/mismatch",
                f"S[{i},{j}] = {got[i, j]!r}, reference {ref[i, j]!r} "
                f"(|diff|/scale = {err[i, j] / scale[i, j]:.2e}, screened pairs "
                f"{info['screened_pairs']})",
            )
        )
    if spec["use_mp"] and ref.size <= 500:
        refmp = O.overlap_mp(p0, p1, screen=True)
        errmp = np.abs(got - refmp)
        if (errmp > tol).any():
            problems.append(Problem("C06/value/mismatch_mp", "differs from the 40-digit reference"))
        if counters is not None:
            counters["mp_references"] = counters.get("mp_references", 0) + 1
    # --- metamorphic relations -------------------------------------------------------------
    shift = np.array(spec["shift"], dtype=float)
    if p1 is None:
        if np.abs(got - got.T).max() > 0:
            if np.abs(got - got.T).max() > 1e-13 * scale.max():
                problems.append(Problem("C06/meta/asymmetric", "single-basis matrix not symmetric"))
        evmin = np.linalg.eigvalsh((got + got.T) / 2).min()
        bound = np.linalg.norm(exact - ref) + 1e-12 * np.trace(exact) + 1e-14
        if evmin < -bound:
            problems.append(
                Problem("C06/meta/not_psd", f"smallest eigenvalue {evmin:.3e} < -{bound:.3e}")
            )
        both = compute_overlap(ob0, p0["centers"], ob0, p0["centers"])
        if np.abs(both - got).max() > 1e-13 * scale.max():
            problems.append(Problem("C06/meta/one_vs_two", "S(b) != S(b, b)"))
        moved = compute_overlap(ob0, p0["centers"] + shift)
        # the very same basis object at two different geometries
        rng = np.random.Generator(np.random.PCG64(spec["conv2_seed"]))
        other = p0["centers"] + rng.normal(size=p0["centers"].shape) * 0.3
        p0moved = dict(p0, centers=other)
        ref_two = O.overlap(p0, p0moved, screen=True)
        got_two = compute_overlap(ob0, p0["centers"], ob0, other)
        if (np.abs(got_two - ref_two) > tol).any():
            problems.append(
                Problem("C06/value/same_basis_two_geometries",
                        "S(b, R0, b, R1) with the same basis object differs from the reference")
            )
    else:
        swapped = compute_overlap(ob1, p1["centers"], ob0, p0["centers"])
        if np.abs(swapped.T - got).max() > 1e-13 * scale.max():
            problems.append(Problem("C06/meta/swap", "S(b1,b0) is not the transpose of S(b0,b1)"))
        moved = compute_overlap(ob0, p0["centers"] + shift, ob1, p1["centers"] + shift)
    if (np.abs(moved - got) > 1e-9 * scale + 1e-15).any():
        problems.append(Problem("C06/meta/translation", f"changes under translation by {shift}"))
    # change of conventions of the first basis
    lmax = 7
    conv2 = wf.random_conventions(spec["conv2_seed"], lmax)
    p0b = dict(p0, conventions=conv2)
    ob0b = wf.to_iodata_basis(p0b)
    if p1 is None:
        got2 = compute_overlap(ob0b, p0["centers"])
    else:
        got2 = compute_overlap(ob0b, p0["centers"], ob1, p1["centers"])
    perm, signs = signed_perm(p0, conv2)
    want2 = got[perm] * signs[:, None]
    if p1 is None:
        want2 = want2[:, perm] * signs[None, :]
    if np.abs(got2 - want2).max() > 1e-13 * scale.max():
        problems.append(
            Problem("C06/meta/conventions", "convention change is not the signed permutation")
        )
    return problems, info


def body_pair(spec, counters):
    out = check_pair(spec, counters)
    if out is None:
        counters["near_threshold"] = counters.get("near_threshold", 0) + 1
        return [], False, ["pair:near_threshold_skipped"]
    problems, info = out
    shells = list(spec["b0"]["shells"]) + (list(spec["b1"]["shells"]) if spec["b1"] else [])
    lmax = max(c[0] for sh in shells for c in sh["cons"])
    general = any(len(sh["cons"]) > 1 for sh in shells)
    ncent = len({sh["icenter"] for sh in shells})
    screened = info.get("screened_pairs", 0) > 0
    nontrivial = (ncent >= 2 and lmax >= 2) or screened or general
    labels = [
        f"pair:lmax={lmax}",
        "pair:two_bases" if spec["b1"] else "pair:one_basis",
        "pair:screened" if screened else "pair:unscreened",
        "pair:generalized" if general else "pair:segmented",
        f"pair:geom={spec['geom0']}",
    ]
    return problems, nontrivial, labels


def shard_pairs(ctx, max_examples, max_nbasis):
    counters = {}
    drive(ctx, pair_case(max_nbasis), lambda s: body_pair(s, counters), max_examples, name="pairs")
    for key, val in counters.items():
        if key == "near_threshold":
            ctx.inconclusive["near_screening_threshold"] += val
        else:
            ctx.count(**{key: val})


# ----------------------------------------------------------------------------------------------
# rejections
# ----------------------------------------------------------------------------------------------


def shard_rejections(ctx):
    from iodata.basis import MolecularBasis
    from iodata.overlap import compute_overlap

    rng = np.random.Generator(np.random.PCG64(ctx.seed))
    for i in range(12):
        bspec = {
            "ncenter": 2,
            "shells": [{"icenter": i % 2, "cons": [[i % 3, "c"]], "nexp": 1 + i % 2}],
            "conv": "HORTON2",
            "conv_seed": 0,
            "geom": "compact",
            "payload_seed": int(rng.integers(2**31)),
        }
        plain = wf.build_basis(bspec)
        ob = wf.to_iodata_basis(plain)
        l1 = MolecularBasis(ob.shells, ob.conventions, "L1")
        calls = {
            "l1_first": lambda: compute_overlap(l1, plain["centers"]),
            "l1_second": lambda: compute_overlap(ob, plain["centers"], l1, plain["centers"]),
            "missing_second_geometry": lambda: compute_overlap(ob, plain["centers"], ob),
            "geometry_without_basis": lambda: compute_overlap(ob, plain["centers"], None, plain["centers"]),
        }
        for name, call in calls.items():
            spec = {"kind": "rejection", "name": name, "basis": bspec}
            problems = []
            try:
                call()
                problems.append(Problem(f"C06/reject/{name}", "unsupported input accepted"))
            except (ValueError, TypeError):
                pass
            except Exception as exc:
                problems.append(Problem(f"C06/reject/{name}/other", f"raised {exc!r}"))
            ctx.record(spec, False, ["rejection"])
            ctx.report(spec, problems)


# ----------------------------------------------------------------------------------------------
# 1-D kernels as polynomial identities, Cartesian-to-pure tables
# ----------------------------------------------------------------------------------------------


def shard_kernels(ctx, npoint):
    import iodata.overlap as iov

    cls = getattr(iov, "GaussianOverlap", None)
    if cls is None or not hasattr(cls, "compute_overlap_gaussian_1d"):
        ctx.skipped["kernel_entry_point_missing"] += 1
        return
    go = cls(7)
    rng = np.random.Generator(np.random.PCG64(ctx.seed))
    with mpmath.workdps(50):
        for n1 in range(8):
            for n2 in range(8):
                worst = mpmath.mpf(0)
                bad = None
                for _ in range(npoint):
                    x1 = mpmath.mpf(float(rng.normal() * 3)) + mpmath.mpf(int(rng.integers(1, 10**9))) / mpmath.mpf(10) ** 25
                    x2 = mpmath.mpf(float(rng.normal() * 3)) + mpmath.mpf(int(rng.integers(1, 10**9))) / mpmath.mpf(10) ** 27
                    two_at = mpmath.mpf(float(np.exp(rng.uniform(-4, 12)))) + mpmath.mpf(int(rng.integers(1, 10**9))) / mpmath.mpf(10) ** 22
                    want = O.closed_form_1d(n1, n2, x1, x2, two_at)
                    try:
                        got = go.compute_overlap_gaussian_1d(x1, x2, n1, n2, two_at)
                        got = mpmath.mpf(got)
                    except Exception as exc:
                        bad = f"raised {exc!r}"
                        break
                    size = abs(x1) ** n1 * abs(x2) ** n2 + 1 / two_at ** ((n1 + n2) // 2) + abs(want)
                    rel = abs(got - want) / size
                    if rel > worst:
                        worst = rel
                        if rel > mpmath.mpf(10) ** (-12):
                            bad = (
                                f"kernel({n1},{n2}) at x1={mpmath.nstr(x1, 12)}, x2={mpmath.nstr(x2, 12)}, "
                                f"2a={mpmath.nstr(two_at, 12)}: {mpmath.nstr(got, 20)} != {mpmath.nstr(want, 20)}"
                            )
                spec = {"kind": "kernel", "n1": n1, "n2": n2, "points": npoint}
                problems = [Problem(f"C06/kernel/{n1},{n2}", bad)] if bad else []
                ctx.record(spec, n1 + n2 >= 1, ["kernel"])
                ctx.report(spec, problems)
                ctx.count(kernel_points=npoint)
                ctx.extra["kernel_worst_rel"] = max(
                    ctx.extra.get("kernel_worst_rel", 0.0), float(worst)
                )


def shard_tables(ctx):
    import importlib

    try:
        tfs = importlib.import_module("iodata.overlap_cartpure").tfs
    except Exception:
        ctx.skipped["cartpure_tables_missing"] += 1
        return
    for ell, table in enumerate(tfs):
        table = np.asarray(table, dtype=float)
        spec = {"kind": "cartpure_table", "l": ell}
        problems = []
        if ell == 0:
            want = np.array([[1.0]])
        else:
            with mpmath.workdps(G.MP_DPS):
                rows, monos = O.pure_in_normalised_cartesians(ell, max(ell, 1), mp=True)
                order = [("c", 0)] + [(cs, m) for m in range(1, ell + 1) for cs in "cs"]
                want = np.zeros((2 * ell + 1, len(monos)))
                for i, key in enumerate(order):
                    for mono, coef in rows[key].items():
                        want[i, monos.index(mono)] = float(coef)
        if table.shape != want.shape:
            problems.append(Problem(f"C06/table/l{ell}", f"shape {table.shape} != {want.shape}"))
        else:
            err = np.abs(table - want)
            if err.max() > 4e-16 * max(1.0, np.abs(want).max()):
                i, j = np.unravel_index(np.argmax(err), err.shape)
                problems.append(
                    Problem(
                        f"C06/table/l{ell}",
                        f"tfs[{ell}][{i},{j}] = {table[i, j]!r}, derived {want[i, j]!r}",
                    )
                )
        ctx.record(spec, ell >= 2, ["cartpure_table"])
        ctx.report(spec, problems)
        ctx.count(table_entries=int(table.size))


def shards(tier, seed):
    big = tier == "thorough"
    out = [
        ("rejections", "shard_rejections", {}),
        ("tables", "shard_tables", {}),
        ("kernels", "shard_kernels", {"npoint": 60 if big else 20}),
    ]
    for i in range(13):
        out.append(
            (
                f"pairs{i}",
                "shard_pairs",
                {"max_examples": 300 if big else 24, "max_nbasis": 60 if big else 40},
            )
        )
    return out


def coverage_extra(tier, results):
    return {"exhaustive_subdomains": ["64 1-D kernels (n1,n2<=7)", "8 Cartesian-to-pure tables"]}


def replay(entry):
    spec = entry["spec"]
    kind = spec["kind"]
    if kind == "pair":
        spec = dict(spec, shift=tuple(spec["shift"]))
        out = check_pair(spec)
        return [] if out is None else out[0]
    from ..runner import ShardCtx

    ctx = ShardCtx(ID, "replay", entry.get("tier", "quick"), entry.get("seed", 1), [], {})
    if kind == "kernel":
        shard_kernels(ctx, spec.get("points", 20))
    elif kind == "cartpure_table":
        shard_tables(ctx)
    elif kind == "rejection":
        shard_rejections(ctx)
    return [Problem(b, f["message"]) for b, f in ctx.failures.items()]
