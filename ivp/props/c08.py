"""C08 - dump failures follow the error contract; pre-flight errors spare existing files."""

from __future__ import annotations

import itertools
import os
import sys
import warnings

import numpy as np
from hypothesis import strategies as st

from ..gen import objects as OBJ
from ..runner import Problem, drive

ID = "C08"
LEVEL = "fault_enumeration"
RULE = (
    "Enumerated: 13 dump_one + 4 dump_many formats x every non-empty subset of the declared "
    "required attributes set to None x target {absent, pre-existing with random bytes}; every "
    "prepare_dump rejection reason (generalized orbitals, occs_aminusb, generalized contractions, "
    "pure functions for WFN/WFX, non-aufbau occupations for FCHK, missing / unsupported "
    "schema_name) x allow_changes; dump_many x index of the faulty frame x {list, generator}; "
    "empty sequences; unknown / unsupported formats and input programs; failing templates. Fault "
    "injection: the file object handed to the writer raises OSError at its k-th write for every k "
    "up to the number of writes of the un-faulted run (all k for small objects). Generated: the "
    "same with Hypothesis-drawn objects (thorough). Oracle: exception class per the statement, "
    "target bytes / existence before vs after, open() audit events, open descriptors. "
    "Non-trivial = a case that reached the targeted branch (an exception of the contract was "
    "raised); distinct by spec hash."
)
ASSUMPTIONS = [
    "write faults are injected at write() calls of the output file object (not at flush/close)",
    "sys.addaudithook 'open' events and /proc/self/fd are the observers for file access",
]

BASE_SPECS = {
    "xyz": {"fmt": "xyz", "natom": 3, "payload_seed": 1, "coord_cls": "small", "title": "t", "elements": "light", "columns": "default"},
    "pdb": {"fmt": "pdb", "natom": 4, "payload_seed": 2, "coord_cls": "small", "title": "t", "elements": "light",
            "attypes": True, "restypes": True, "resnums": True, "occupancies": True, "bfactors": True,
            "chainids": True, "compound": False, "nbond_frac": 1.0},
    "mol2": {"fmt": "mol2", "natom": 4, "payload_seed": 3, "coord_cls": "small", "title": "t", "elements": "light",
             "charges": True, "attypes": True, "nbond_frac": 1.0},
    "sdf": {"fmt": "sdf", "natom": 4, "payload_seed": 4, "coord_cls": "small", "title": "t", "elements": "light", "nbond_frac": 1.0},
    "poscar": {"fmt": "poscar", "natom": 3, "payload_seed": 5, "coord_cls": "small", "title": "t", "elements": "light", "cell": "triclinic"},
    "cube": {"fmt": "cube", "natom": 2, "payload_seed": 6, "coord_cls": "small", "title": "t", "elements": "light",
             "shape": (2, 3, 4), "corenums": "same", "values": "signed"},
    "fcidump": {"fmt": "fcidump", "norb": 3, "payload_seed": 7, "core_energy": "value", "nelec": "int", "spinpol": "int", "sparsity": 0.0},
    "json_qcschema": {"fmt": "json_qcschema", "natom": 3, "payload_seed": 8, "coord_cls": "small", "title": "t", "elements": "light",
                      "schema": "qcschema_molecule", "charge": 0.0, "spinpol": 0, "masses": False, "bonds": False,
                      "g_rot": False, "ghost": False, "provenance": "absent", "mol_extras": set(), "in_extras": set(),
                      "out_extras": set(), "energy": False, "driver": "energy"},
}


def wf_spec(fmt, cons=None, mo_kind="restricted", occ="closed", aminusb=False):
    cons = cons or [[[0, "c"]], [[1, "c"]]]
    return {
        "fmt": fmt,
        "basis": {
            "ncenter": 2, "shells": [{"icenter": i % 2, "cons": c, "nexp": 2} for i, c in enumerate(cons)],
            "conv": OBJ.WF_NATIVE[fmt], "conv_seed": 0, "geom": "compact", "payload_seed": 11, "exp_range": [-1.0, 1.0],
        },
        "mo": {"kind": mo_kind, "occ": occ, "aminusb": aminusb, "virtuals": "all", "nocc_frac": 0.5, "nopen": 0,
               "energies": True, "irreps": False, "mo_seed": 5},
        "opt": {"title": "t", "energy": True, "corenums": "absent", "irreps": False,
                "atcharges": set() if fmt == "fchk" else False, "atgradient": False, "athessian": False,
                "atmasses": False, "atfrozen": False, "lot": None, "obasis_name": None, "run_type": None,
                "rdms": set(), "moments": set(), "polar": False, "virial": False, "mo_spin": False,
                "keywords": False, "num_perturbations": False, "nuc_viral": False, "full_virial_ratio": False,
                "num_core_electrons": False},
        "atnum_seed": 3,
    }


def base_object(fmt):
    spec = BASE_SPECS.get(fmt) or wf_spec(fmt)
    return OBJ.build(spec)["data"]


# ----------------------------------------------------------------------------------------------
# observers
# ----------------------------------------------------------------------------------------------

_AUDIT = {"on": False, "events": []}
_HOOKED = [False]


def _hook(event, args):
    if _AUDIT["on"] and event == "open":
        try:
            _AUDIT["events"].append(str(args[0]))
        except Exception:
            pass


def audit_start():
    if not _HOOKED[0]:
        sys.addaudithook(_hook)
        _HOOKED[0] = True
    _AUDIT["events"] = []
    _AUDIT["on"] = True


def audit_stop():
    _AUDIT["on"] = False
    return list(_AUDIT["events"])


def open_fds(path):
    out = []
    try:
        for fd in os.listdir("/proc/self/fd"):
            try:
                if os.readlink(f"/proc/self/fd/{fd}") == path:
                    out.append(fd)
            except OSError:
                pass
    except OSError:
        pass
    return out


def contract_classes():
    from iodata.utils import DumpError, FileFormatError, PrepareDumpError, WriteInputError

    return {"DumpError": DumpError, "FileFormatError": FileFormatError,
            "PrepareDumpError": PrepareDumpError, "WriteInputError": WriteInputError}


def run_call(call, path, existing, expect, bucket, must_not_touch):
    """Run ``call(path)``; check exception class, target bytes, audit events and descriptors."""
    payload = None
    if existing:
        payload = bytes(np.random.Generator(np.random.PCG64(len(path))).integers(0, 256, size=97, dtype=np.uint8))
        with open(path, "wb") as fh:
            fh.write(payload)
    elif os.path.exists(path):
        os.remove(path)
    classes = contract_classes()
    audit_start()
    with warnings.catch_warnings(record=True):
        warnings.simplefilter("always")
        try:
            call(path)
            outcome = "ok"
            exc = None
        except BaseException as err:  # noqa: BLE001 - the contract is about what escapes
            outcome = type(err).__name__
            exc = err
    events = audit_stop()
    problems = []
    if isinstance(expect, str):
        expect = (expect,)
    if outcome not in expect:
        problems.append(Problem(f"{bucket}/wrong_outcome", f"expected {expect}, got {outcome}: {exc!r}"))
    elif exc is not None and not isinstance(exc, tuple(classes[e] for e in expect if e in classes) or (Exception,)):
        problems.append(Problem(f"{bucket}/wrong_class", f"{exc!r} is not the library's {expect}"))
    if must_not_touch:
        if existing:
            with open(path, "rb") as fh:
                now = fh.read()
            if now != payload:
                problems.append(Problem(f"{bucket}/existing_file_modified", f"pre-existing target changed ({len(now)} bytes now)"))
        elif os.path.exists(path):
            problems.append(Problem(f"{bucket}/file_created", "target was created although the call failed pre-flight"))
        if any(os.path.abspath(e) == os.path.abspath(path) for e in events):
            problems.append(Problem(f"{bucket}/target_opened", "target was opened before the pre-flight error"))
    if open_fds(path):
        problems.append(Problem(f"{bucket}/descriptor_leak", "a descriptor for the target is still open"))
    if os.path.exists(path):
        os.remove(path)
    return problems, outcome


# ----------------------------------------------------------------------------------------------
# A. required-attribute subsets
# ----------------------------------------------------------------------------------------------


def clear_attrs(data, names):
    """Set attributes to None where the data model allows it; return those that are None."""
    for name in names:
        try:
            setattr(data, name, None)
        except Exception:
            pass
    return [n for n in names if getattr(data, n, None) is None]


# Attributes without which each writer cannot work (the declared lists when this check was
# written).  An attribute that is no longer *declared* is still probed: the call must then either
# succeed or fail pre-flight, never clobber the target with a late DumpError.
GOLDEN_REQUIRED = {
    "xyz": ["atcoords", "atnums"], "pdb": ["atcoords", "atnums", "extra"], "mol2": ["atcoords", "atnums"],
    "sdf": ["atcoords", "atnums"], "poscar": ["atcoords", "atnums", "cellvecs"],
    "cube": ["atcoords", "atnums", "cube"], "fcidump": ["one_ints", "two_ints"],
    "json_qcschema": ["atnums", "atcoords", "charge", "spinpol"], "fchk": ["atnums", "atcorenums"],
    "molden": ["atcoords", "atnums", "mo", "obasis"], "molekel": ["atcoords", "atnums", "mo", "obasis"],
    "wfn": ["atcoords", "atnums", "mo", "obasis"],
    "wfx": ["atcoords", "atnums", "atcorenums", "mo", "obasis", "charge"],
}


def shard_golden(ctx):
    from iodata import dump_one
    from iodata.api import FORMAT_MODULES

    for fmt, names in GOLDEN_REQUIRED.items():
        mod = FORMAT_MODULES.get(fmt)
        if mod is None or not hasattr(mod, "dump_one"):
            ctx.skipped[f"format_gone:{fmt}"] += 1
            continue
        declared = set(mod.dump_one.required)
        for name in names:
            for existing in (False, True):
                data = base_object(fmt)
                if not clear_attrs(data, [name]):
                    continue
                spec = {"kind": "golden", "fmt": fmt, "attr": name, "existing": existing}
                path = os.path.join(ctx.tmpdir, OBJ.filename(fmt, "gold"))
                expect = ("PrepareDumpError",) if name in declared else ("PrepareDumpError", "ok")
                problems, outcome = run_call(lambda p, d=data: dump_one(d, p, fmt=fmt), path, existing, expect,
                                             f"C08/needed_attribute/{fmt}/{name}", outcome_pre_flight(expect))
                ctx.record(spec, outcome == "PrepareDumpError", ["golden"])
                ctx.report(spec, problems)


def outcome_pre_flight(expect):
    return "ok" not in expect


def shard_required(ctx):
    from iodata import dump_many, dump_one
    from iodata.api import FORMAT_MODULES

    for fmt in OBJ.ALL_FORMATS:
        mod = FORMAT_MODULES[fmt]
        fmtarg = {"fmt": fmt}
        for opname in ("dump_one", "dump_many"):
            func = getattr(mod, opname, None)
            if func is None:
                continue
            required = list(func.required)
            for r in range(1, len(required) + 1):
                for subset in itertools.combinations(required, r):
                    for existing in (False, True):
                        for allow in (False, True):
                            data = base_object(fmt)
                            if fmt == "mol2" and opname == "dump_many" and "mol2charges" not in data.atcharges:
                                data.atcharges = {"mol2charges": np.zeros(data.natom)}
                            missing = clear_attrs(data, subset)
                            spec = {"kind": "required", "fmt": fmt, "op": opname, "subset": list(subset),
                                    "existing": existing, "allow_changes": allow}
                            if not missing:
                                ctx.skipped["subset_cannot_be_cleared"] += 1
                                continue
                            path = os.path.join(ctx.tmpdir, OBJ.filename(fmt, "req"))
                            if opname == "dump_one":
                                call = lambda p, d=data, a=allow: dump_one(d, p, allow_changes=a, **fmtarg)
                            else:
                                call = lambda p, d=data, a=allow: dump_many([d, d], p, allow_changes=a, **fmtarg)
                            problems, outcome = run_call(call, path, existing, "PrepareDumpError",
                                                         f"C08/required/{fmt}/{opname}", True)
                            ctx.record(spec, outcome == "PrepareDumpError", [f"required:{fmt}:{opname}"])
                            ctx.report(spec, problems)


# ----------------------------------------------------------------------------------------------
# B. prepare_dump rejection reasons
# ----------------------------------------------------------------------------------------------


def rejection_cases():
    from iodata.orbitals import MolecularOrbitals

    cases = []
    for fmt in OBJ.WFN_FORMATS:
        def generalized(fmt=fmt):
            data = base_object(fmt)
            nb = data.obasis.nbasis
            data.mo = MolecularOrbitals("generalized", None, None, occs=np.array([1.0, 0.0]),
                                        coeffs=np.eye(2 * nb)[:, :2], energies=np.array([-1.0, 0.5]))
            return data
        cases.append((fmt, "generalized_orbitals", generalized, (False, True), "PrepareDumpError"))

        def aminusb(fmt=fmt):
            spec = wf_spec(fmt, mo_kind="restricted", occ="open_integer", aminusb=True)
            spec["mo"]["nopen"] = 1
            return OBJ.build(spec)["data"]
        # FCHK rejects non-aufbau alpha/beta occupations regardless of allow_changes
        cases.append((fmt, "occs_aminusb", aminusb, (False,), "PrepareDumpError"))

        def general_contraction(fmt=fmt):
            spec = wf_spec(fmt, cons=[[[0, "c"], [0, "c"], [1, "c"]], [[1, "c"]]])
            return OBJ.build(spec)["data"]
        cases.append((fmt, "generalized_contraction", general_contraction, (False,), "PrepareDumpError"))

        def ps_shell(fmt=fmt):
            # a P-then-S shell is a generalized contraction that is not the SP shell FCHK keeps
            spec = wf_spec(fmt, cons=[[[1, "c"], [0, "c"]], [[0, "c"]]])
            return OBJ.build(spec)["data"]
        cases.append((fmt, "ps_shell", ps_shell, (False,), "PrepareDumpError"))

        def spd_shell(fmt=fmt):
            spec = wf_spec(fmt, cons=[[[0, "c"], [1, "c"], [2, "c"]], [[0, "c"]]])
            return OBJ.build(spec)["data"]
        cases.append((fmt, "spd_shell", spd_shell, (False,), "PrepareDumpError"))
    for fmt in ("wfn", "wfx"):
        def pure(fmt=fmt):
            spec = wf_spec(fmt, cons=[[[0, "c"]], [[2, "p"]]])
            spec["basis"]["conv"] = "HORTON2"
            return OBJ.build(spec)["data"]
        cases.append((fmt, "pure_functions", pure, (False, True), "PrepareDumpError"))

    def nonaufbau():
        spec = wf_spec("fchk", mo_kind="unrestricted", occ="fractional")
        return OBJ.build(spec)["data"]
    cases.append(("fchk", "non_aufbau", nonaufbau, (False, True), "PrepareDumpError"))

    # FCHK stores only the numbers of alpha and beta electrons: every occupation pattern that is
    # not "the first n_alpha / n_beta orbitals fully occupied" must be refused, in each spin
    # channel separately (alpha aufbau with a hole in beta, fractional beta only, ...)
    def fchk_occupations(kind, occs, aminusb=None):
        def make():
            data = base_object("fchk")
            coeffs = np.asarray(data.mo.coeffs)
            nb = coeffs.shape[0]
            eye = np.linalg.qr(np.arange(1.0, nb * nb + 1).reshape(nb, nb) % 7 + np.eye(nb))[0]
            if kind == "restricted":
                norb = len(occs)
                data.mo = MolecularOrbitals("restricted", norb, norb, occs=np.array(occs, dtype=float),
                                            coeffs=np.resize(eye, (nb, norb)) if norb > nb else eye[:, :norb],
                                            energies=np.arange(norb, dtype=float),
                                            occs_aminusb=None if aminusb is None else np.array(aminusb, dtype=float))
            else:
                norba, norbb = len(occs[0]), len(occs[1])
                data.mo = MolecularOrbitals("unrestricted", norba, norbb,
                                            occs=np.array(list(occs[0]) + list(occs[1]), dtype=float),
                                            coeffs=np.concatenate([eye[:, :norba], eye[:, :norbb]], axis=1),
                                            energies=np.arange(norba + norbb, dtype=float))
            return data
        return make

    patterns = [
        ("restricted_hole", "restricted", [2, 0, 2, 0], None),
        ("restricted_single_below_double", "restricted", [2, 1, 2, 0], None),
        ("restricted_beta_hole_by_aminusb", "restricted", [2, 1, 1, 0], [0, 1, -1, 0]),
        ("restricted_fractional_beta_only", "restricted", [2, 1.5, 0, 0], [0, 0.5, 0, 0]),
        ("restricted_fractional", "restricted", [1.5, 0.5, 0, 0], None),
        ("unrestricted_alpha_hole", "unrestricted", ([1, 0, 1, 0], [1, 0, 0, 0]), None),
        ("unrestricted_beta_hole", "unrestricted", ([1, 1, 0, 0], [0, 1, 0, 0]), None),
        ("unrestricted_fractional_beta", "unrestricted", ([1, 1, 0, 0], [0.5, 0.5, 0, 0]), None),
    ]
    for name, kind, occs, amb in patterns:
        cases.append(("fchk", f"non_aufbau_{name}", fchk_occupations(kind, occs, amb), (False, True), "PrepareDumpError"))

    def no_schema():
        data = base_object("json_qcschema")
        data.extra = {k: v for k, v in data.extra.items() if k != "schema_name"}
        return data
    cases.append(("json_qcschema", "missing_schema_name", no_schema, (False, True), "PrepareDumpError"))

    def basis_schema():
        data = base_object("json_qcschema")
        data.extra = dict(data.extra, schema_name="qcschema_basis")
        return data
    cases.append(("json_qcschema", "unsupported_schema_name", basis_schema, (False, True), "PrepareDumpError"))

    # incompatibilities that make the preparation itself stumble still surface as PrepareDumpError
    def no_occupations():
        data = base_object("fchk")
        data.mo.occs = None
        return data
    cases.append(("fchk", "orbitals_without_occupations", no_occupations, (False, True), "PrepareDumpError"))

    def extra_none():
        data = base_object("json_qcschema")
        data.extra = None
        return data
    cases.append(("json_qcschema", "extra_is_none", extra_none, (False, True), "PrepareDumpError"))
    return cases


def shard_rejections(ctx):
    from iodata import dump_one

    for fmt, reason, builder, _allows, _expect in rejection_cases():
        if reason in ("ps_shell", "spd_shell", "generalized_contraction", "occs_aminusb") and fmt != "fchk" or reason in ("ps_shell", "spd_shell", "generalized_contraction"):
            # with allow_changes the object is converted: the dump succeeds (or fails pre-flight)
            for existing in (False, True):
                data = builder()
                spec = {"kind": "rejection", "fmt": fmt, "reason": reason + "+allow", "allow_changes": True, "existing": existing}
                path = os.path.join(ctx.tmpdir, OBJ.filename(fmt, "conv"))
                call = lambda p, d=data: dump_one(d, p, allow_changes=True, fmt=fmt)
                problems, outcome = run_call(call, path, existing, ("ok", "PrepareDumpError"),
                                             f"C08/conversion/{fmt}/{reason}", False)
                ctx.record(spec, outcome == "ok", [f"conversion:{reason}"])
                ctx.report(spec, problems)
    for fmt, reason, builder, allows, expect in rejection_cases():
        for allow in allows:
            for existing in (False, True):
                data = builder()
                spec = {"kind": "rejection", "fmt": fmt, "reason": reason, "allow_changes": allow, "existing": existing}
                path = os.path.join(ctx.tmpdir, OBJ.filename(fmt, "rej"))
                call = lambda p, d=data, a=allow: dump_one(d, p, allow_changes=a, fmt=fmt)
                problems, outcome = run_call(call, path, existing, expect, f"C08/rejection/{fmt}/{reason}", True)
                ctx.record(spec, outcome == expect, [f"rejection:{reason}"])
                ctx.report(spec, problems)


# ----------------------------------------------------------------------------------------------
# C. dump_many: faulty frame index, iterable kinds, empty sequences
# ----------------------------------------------------------------------------------------------


def shard_many(ctx):
    from iodata import dump_many

    for fmt in ("xyz", "pdb", "mol2", "sdf"):
        for nframe in (1, 2, 4):
            for jbad in range(nframe):
                for kind in ("list", "generator"):
                    for existing in (False, True):
                        frames = [base_object(fmt) for _ in range(nframe)]
                        if fmt == "mol2":
                            for fr in frames:
                                fr.atcharges = {"mol2charges": np.zeros(fr.natom)}
                        frames[jbad].atcoords = None
                        pulled = []

                        def gen(frames=frames, pulled=pulled):
                            for i, fr in enumerate(frames):
                                pulled.append(i)
                                yield fr

                        arg = frames if kind == "list" else gen()
                        spec = {"kind": "many", "fmt": fmt, "nframe": nframe, "bad": jbad, "iterable": kind, "existing": existing}
                        path = os.path.join(ctx.tmpdir, OBJ.filename(fmt, "many"))
                        call = lambda p, a=arg: dump_many(a, p, fmt=fmt)
                        problems, outcome = run_call(call, path, existing, "PrepareDumpError",
                                                     f"C08/dump_many/{fmt}", jbad == 0)
                        if kind == "generator" and pulled and max(pulled) > jbad:
                            problems.append(Problem(f"C08/dump_many/{fmt}/pulled_past_error",
                                                    f"frames {pulled} pulled although frame {jbad} is faulty"))
                        ctx.record(spec, outcome == "PrepareDumpError", ["many:faulty_frame"])
                        ctx.report(spec, problems)
        for kind in ("list", "generator", "tuple"):
            for existing in (False, True):
                arg = {"list": [], "generator": (x for x in []), "tuple": ()}[kind]
                spec = {"kind": "many_empty", "fmt": fmt, "iterable": kind, "existing": existing}
                path = os.path.join(ctx.tmpdir, OBJ.filename(fmt, "empty"))
                call = lambda p, a=arg: dump_many(a, p, fmt=fmt)
                problems, outcome = run_call(call, path, existing, "DumpError", f"C08/dump_many_empty/{fmt}", True)
                ctx.record(spec, outcome == "DumpError", ["many:empty"])
                ctx.report(spec, problems)


# ----------------------------------------------------------------------------------------------
# D. unknown / unsupported formats, input programs, templates
# ----------------------------------------------------------------------------------------------


def shard_formats(ctx):
    from iodata import dump_many, dump_one, write_input
    from iodata.api import FORMAT_MODULES

    data = base_object("xyz")
    calls = []
    for name in ("mol.unknownext", "noextension", "mol.xyz.bak"):
        calls.append((f"dump_one:{name}", name, lambda p: dump_one(data, p), "FileFormatError"))
        calls.append((f"dump_many:{name}", name, lambda p: dump_many([data], p), "FileFormatError"))
    calls.append(("dump_one:fmt=nonexistent", "mol.xyz", lambda p: dump_one(data, p, fmt="nonexistent"), "FileFormatError"))
    calls.append(("dump_many:fmt=nonexistent", "mol.xyz", lambda p: dump_many([data], p, fmt="nonexistent"), "FileFormatError"))
    for fmt, mod in sorted(FORMAT_MODULES.items()):
        if not hasattr(mod, "dump_one"):
            calls.append((f"dump_one:fmt={fmt}", "mol.xyz", lambda p, f=fmt: dump_one(data, p, fmt=f), "FileFormatError"))
        if not hasattr(mod, "dump_many"):
            calls.append((f"dump_many:fmt={fmt}", "mol.xyz", lambda p, f=fmt: dump_many([data], p, fmt=f), "FileFormatError"))
    for prog in ("nonexistent", "GAUSSIAN", "", "psi4"):
        calls.append((f"write_input:{prog}", "job.in", lambda p, g=prog: write_input(data, p, g), "FileFormatError"))
    for name, fname, call, expect in calls:
        for existing in (False, True):
            spec = {"kind": "format", "call": name, "existing": existing}
            path = os.path.join(ctx.tmpdir, fname)
            problems, outcome = run_call(call, path, existing, expect, f"C08/format/{name.split(':')[0]}", True)
            ctx.record(spec, outcome == expect, ["format:unknown"])
            ctx.report(spec, problems)
    # failures while rendering an input file -> WriteInputError
    render = [
        ("unknown_field", dict(template="{title}\n{nonexistent_field}\n{geometry}\n")),
        ("bad_format_spec", dict(template="{charge:q}\n{geometry}\n")),
        ("atom_line_raises", dict(atom_line=lambda d, i: 1 / 0)),
        ("atom_line_not_str", dict(atom_line=lambda d, i: 5)),
    ]
    for prog in ("gaussian", "orca"):
        for name, kwargs in render:
            spec = {"kind": "render", "program": prog, "case": name}
            path = os.path.join(ctx.tmpdir, "job.in")
            call = lambda p, g=prog, k=kwargs: write_input(data, p, g, **k)
            problems, outcome = run_call(call, path, False, "WriteInputError", f"C08/write_input/{name}", False)
            ctx.record(spec, outcome == "WriteInputError", ["render:failure"])
            ctx.report(spec, problems)
        bad = base_object("xyz")
        bad.run_type = "no_such_run_type"
        spec = {"kind": "render", "program": prog, "case": "unsupported_run_type"}
        path = os.path.join(ctx.tmpdir, "job.in")
        problems, outcome = run_call(lambda p, g=prog: write_input(bad, p, g), path, False,
                                     ("WriteInputError", "ok"), "C08/write_input/run_type", False)
        ctx.record(spec, outcome == "WriteInputError", ["render:run_type"])
        ctx.report(spec, problems)
    # failures inside a writer surface as DumpError (atomic number without a symbol)
    for fmt in ("xyz", "pdb", "mol2", "sdf", "poscar"):
        bad = base_object(fmt)
        bad.atnums = np.array([0] + [1] * (bad.natom - 1))
        bad.atcorenums = None
        spec = {"kind": "writer_failure", "fmt": fmt}
        path = os.path.join(ctx.tmpdir, OBJ.filename(fmt, "bad"))
        problems, outcome = run_call(lambda p, d=bad, f=fmt: dump_one(d, p, fmt=f), path, False,
                                     ("DumpError", "PrepareDumpError"), f"C08/writer_failure/{fmt}", False)
        ctx.record(spec, outcome in ("DumpError", "PrepareDumpError"), ["writer_failure"])
        ctx.report(spec, problems)


# ----------------------------------------------------------------------------------------------
# E. write faults
# ----------------------------------------------------------------------------------------------


class FaultyFile:
    """File object whose k-th write raises OSError; everything else is delegated."""

    def __init__(self, real, state):
        self._real = real
        self._state = state

    def write(self, text):
        self._state["writes"] += 1
        if self._state["writes"] == self._state["fail_at"]:
            raise OSError(28, "No space left on device (injected)")
        return self._real.write(text)

    def __getattr__(self, name):
        return getattr(self._real, name)

    def __enter__(self):
        self._real.__enter__()
        return self

    def __exit__(self, *args):
        self._state["closed"] += 1
        return self._real.__exit__(*args)

    def __iter__(self):
        return iter(self._real)


def with_faulty_open(target, fail_at, call):
    """Run call() with the API's open() replaced; returns (outcome, exc, state)."""
    import builtins

    import iodata.api as api

    state = {"writes": 0, "fail_at": fail_at, "closed": 0, "seen": 0}
    real_open = builtins.open

    def fake_open(path, mode="r", *args, **kwargs):
        fh = real_open(path, mode, *args, **kwargs)
        if os.path.abspath(str(path)) == os.path.abspath(target) and "w" in mode:
            state["seen"] += 1
            return FaultyFile(fh, state)
        return fh

    had = "open" in vars(api)
    old = vars(api).get("open")
    api.open = fake_open
    patched_builtin = False
    try:
        with warnings.catch_warnings(record=True):
            warnings.simplefilter("always")
            try:
                call()
                outcome, exc = "ok", None
            except BaseException as err:  # noqa: BLE001
                outcome, exc = type(err).__name__, err
        if state["seen"] == 0:
            # the API did not go through its module-level name: fall back to builtins.open
            builtins.open = fake_open
            patched_builtin = True
            state.update(writes=0, closed=0)
            with warnings.catch_warnings(record=True):
                warnings.simplefilter("always")
                try:
                    call()
                    outcome, exc = "ok", None
                except BaseException as err:  # noqa: BLE001
                    outcome, exc = type(err).__name__, err
    finally:
        if patched_builtin:
            builtins.open = real_open
        if had:
            api.open = old
        else:
            del api.open
    return outcome, exc, state


def fault_targets():
    from iodata import dump_many, dump_one, write_input

    out = []
    for fmt in OBJ.ALL_FORMATS:
        data = base_object(fmt)
        out.append((f"dump_one:{fmt}", OBJ.filename(fmt, "fault"),
                    lambda p, d=data, f=fmt: dump_one(d, p, fmt=f), "DumpError"))
    for fmt in ("xyz", "pdb", "mol2", "sdf"):
        frames = [base_object(fmt) for _ in range(3)]
        if fmt == "mol2":
            for fr in frames:
                fr.atcharges = {"mol2charges": np.zeros(fr.natom)}
        out.append((f"dump_many:{fmt}", OBJ.filename(fmt, "faultmany"),
                    lambda p, d=frames, f=fmt: dump_many(d, p, fmt=f), "DumpError"))
    data = base_object("xyz")
    for prog in ("gaussian", "orca"):
        out.append((f"write_input:{prog}", "fault.in", lambda p, g=prog: write_input(data, p, g), "WriteInputError"))
    return out


def shard_faults(ctx, part, nparts, max_points):
    targets = fault_targets()
    for idx, (name, fname, call, expect) in enumerate(targets):
        if idx % nparts != part:
            continue
        path = os.path.join(ctx.tmpdir, fname)
        outcome, exc, state = with_faulty_open(path, 0, lambda: call(path))
        nwrites = state["writes"]
        spec0 = {"kind": "fault", "call": name, "k": 0}
        base_problems = []
        if outcome != "ok":
            base_problems.append(Problem(f"C08/fault/{name}/unfaulted_run_fails", f"{exc!r}"))
        if state["seen"] == 0:
            ctx.skipped["open_not_interceptable"] += 1
            continue
        ctx.record(spec0, False, ["fault:baseline"])
        ctx.report(spec0, base_problems)
        if nwrites <= max_points:
            points = list(range(1, nwrites + 1))
        else:
            rng = np.random.Generator(np.random.PCG64(ctx.seed + idx))
            points = sorted({1, 2, nwrites - 1, nwrites} | {int(k) for k in rng.integers(1, nwrites + 1, size=max_points)})
        for k in points:
            spec = {"kind": "fault", "call": name, "k": k, "nwrites": nwrites}
            if os.path.exists(path):
                os.remove(path)
            outcome, exc, state = with_faulty_open(path, k, lambda: call(path))
            problems = []
            if outcome != expect:
                problems.append(Problem(f"C08/fault/{name.split(':')[0]}/wrong_outcome",
                                        f"{name}: write #{k} of {nwrites} failed with OSError, escaped as {outcome}: {exc!r}"))
            if state["closed"] < 1 or open_fds(path):
                problems.append(Problem(f"C08/fault/{name.split(':')[0]}/not_closed", f"{name}: output file not closed after the fault"))
            ctx.record(spec, outcome == expect, ["fault:injected"])
            ctx.report(spec, problems)
        if os.path.exists(path):
            os.remove(path)
        ctx.count(write_calls_enumerated=len(points), write_calls_total=nwrites)


# ----------------------------------------------------------------------------------------------
# F. generated objects (required subsets on random objects)
# ----------------------------------------------------------------------------------------------


def generated_strategy(fmt):
    return st.fixed_dictionaries(
        {
            "kind": st.just("generated"),
            "obj": OBJ.st_object(fmt, False),
            "drop": st.integers(0, 63),
            "existing": st.booleans(),
            "allow_changes": st.booleans(),
        }
    )


def check_generated(spec, tmpdir):
    from iodata import dump_one
    from iodata.api import FORMAT_MODULES

    fmt = spec["obj"]["fmt"]
    try:
        data = OBJ.build(spec["obj"])["data"]
    except Exception:
        return [], False, ["degenerate_basis_skipped"]
    required = list(FORMAT_MODULES[fmt].dump_one.required)
    subset = [name for i, name in enumerate(required) if spec["drop"] >> i & 1]
    if not subset:
        subset = required[:1]
    missing = clear_attrs(data, subset)
    if not missing:
        return [], False, ["nothing_missing"]
    path = os.path.join(tmpdir, OBJ.filename(fmt, "gen"))
    call = lambda p: dump_one(data, p, fmt=fmt, allow_changes=spec["allow_changes"])
    problems, outcome = run_call(call, path, spec["existing"], "PrepareDumpError", f"C08/required/{fmt}/dump_one", True)
    return problems, outcome == "PrepareDumpError", [f"generated:{fmt}"]


def shard_generated(ctx, fmt, max_examples):
    tmpdir = ctx.tmpdir
    drive(ctx, generated_strategy(fmt), lambda s: check_generated(s, tmpdir), max_examples, name=f"gen_{fmt}")


def shards(tier, seed):
    big = tier == "thorough"
    out = [
        ("required", "shard_required", {}),
        ("golden", "shard_golden", {}),
        ("rejections", "shard_rejections", {}),
        ("many", "shard_many", {}),
        ("formats", "shard_formats", {}),
    ]
    nparts = 6
    for part in range(nparts):
        out.append((f"faults{part}", "shard_faults", {"part": part, "nparts": nparts, "max_points": 4000 if big else 150}))
    for fmt in OBJ.ALL_FORMATS:
        out.append((f"gen_{fmt}", "shard_generated", {"fmt": fmt, "max_examples": 3000 if big else 15}))
    return out


def coverage_extra(tier, results):
    return {"exhaustive_subdomains": ["required-attribute subsets", "prepare_dump rejection reasons",
                                      "dump_many faulty-frame indices", "unknown/unsupported formats"]}


def replay(entry):
    """Enumerated cases are re-run by re-running their shard; generated ones directly."""
    import shutil
    import tempfile

    from ..runner import ShardCtx
    from .c09 import _fix_sets

    spec = entry["spec"]
    tmpdir = tempfile.mkdtemp(prefix="ivp_c08_replay_")
    try:
        if spec.get("kind") == "generated":
            _fix_sets(spec)
            return check_generated(spec, tmpdir)[0]
        ctx = ShardCtx(ID, "replay", "quick", entry.get("seed", 1), [], {})
        ctx._tmp = tmpdir
        func = {"required": shard_required, "golden": shard_golden, "rejection": shard_rejections, "many": shard_many,
                "many_empty": shard_many, "format": shard_formats, "render": shard_formats,
                "writer_failure": shard_formats}.get(spec.get("kind"))
        if func is not None:
            func(ctx)
        elif spec.get("kind") == "fault":
            shard_faults(ctx, 0, 1, 150)
        want = entry.get("bucket")
        return [Problem(b, f["message"]) for b, f in ctx.failures.items() if want is None or b == want]
    finally:
        shutil.rmtree(tmpdir, ignore_errors=True)
