"""C02 - save-then-reload returns the same data for every read/write format."""

from __future__ import annotations

import os
import warnings

from ..gen import objects as OBJ
from ..gen import wf
from ..oracles import gaussians as G
from ..oracles import overlap as O
from ..oracles import roundtrip as R
from ..runner import Problem, drive

ID = "C02"
LEVEL = "exploration"
RULE = (
    "For each of the 13 read/write formats Hypothesis draws objects in the format's documented "
    "domain: sizes from boundary classes (1, 9/10/11, 99/100/101, 999/1000/1001, 9999/10000, "
    "12000; capped at 1200 atoms in the quick tier), all elements, coordinates from classes "
    "{small, negative, wide = filling the columns, boundary}, every optional attribute and every "
    "recognised dictionary key independently present/absent, bonds of every type, grids of any "
    "shape, user-defined XYZ atom columns. Oracle: dump_one succeeds, load_one succeeds, every "
    "attribute the format stores is equal (discrete: exactly; real: within the half-unit of the "
    "last digit the writer prints); POSCAR's documented grouping by element is applied; "
    "wavefunctions are compared as functions of space (oracle E). Non-trivial = at least one "
    "optional attribute present or a size/magnitude in a boundary class; distinct by spec hash."
)
ASSUMPTIONS = [
    "the attributes a format stores are those its writer and reader both declare plus a few the "
    "writer visibly prints (table in ivp/oracles/roundtrip.py)",
    "tolerances follow from the writers' format strings (DESIGN.md appendix A)",
    "multi-line titles and titles with leading/trailing blanks are outside the stated domain",
]


def selftest():
    G.selftest(5)
    O.selftest()


def check_case(spec, tmpdir):
    from iodata import dump_one, load_one

    fmt = spec["fmt"]
    try:
        built = OBJ.build(spec)
    except wf.DegenerateBasis:
        return [], ["degenerate_basis_skipped"], False
    data, labels = built["data"], built["labels"]
    path = os.path.join(tmpdir, OBJ.filename(fmt))
    fmtarg = {"fmt": "json_qcschema"} if fmt == "json_qcschema" else {}
    problems = []
    try:
        with warnings.catch_warnings(record=True):
            warnings.simplefilter("always")
            try:
                dump_one(data, path, **fmtarg, **built["dump_kwargs"])
            except Exception as exc:
                cause = exc.__cause__
                if "may_refuse" in labels and type(exc).__name__ in ("DumpError", "PrepareDumpError"):
                    return [], labels + ["refused_out_of_domain"], False
                return [
                    Problem(
                        f"C02/{fmt}/refused",
                        f"object in the documented domain refused: {exc!r}"
                        + (f" caused by {cause!r}" if cause is not None else ""),
                    )
                ], labels, False
            try:
                loaded = load_one(path, **fmtarg, **built["load_kwargs"])
            except Exception as exc:
                cause = exc.__cause__
                return [
                    Problem(
                        f"C02/{fmt}/unreadable",
                        f"written file cannot be read back: {exc!r}"
                        + (f" caused by {cause!r}" if cause is not None else ""),
                    )
                ], labels, True
    finally:
        if os.path.exists(path):
            os.remove(path)
    try:
        diffs = R.compare(fmt, data, loaded, built["truth"], seed=spec.get("payload_seed", 1) % 1000)
    except Exception as exc:
        return [Problem(f"C02/{fmt}/compare_failed", f"loaded object cannot be compared: {exc!r}")], labels, True
    for name, msg in diffs:
        problems.append(Problem(f"C02/{fmt}/{name}", msg))
    return problems, labels, True


def body_factory(tmpdir):
    def body(spec):
        problems, labels, written = check_case(spec, tmpdir)
        nontrivial = written and any(
            lab.startswith("opt:") or lab in ("natom:<=999", "natom:<=9999", "natom:>=10000")
            or lab in ("coords:wide", "coords:boundary", "coords:negative")
            for lab in labels
        )
        return problems, nontrivial, labels

    return body


def shard_format(ctx, fmt, max_examples):
    big = ctx.tier == "thorough"
    drive(ctx, OBJ.st_object(fmt, big), body_factory(ctx.tmpdir), max_examples, name=f"rt_{fmt}")


LARGE_SIZES = {"xyz": [9999, 10000, 12000], "pdb": [9999, 10000, 10001, 12000], "mol2": [9999, 10000, 12000]}


def shard_large(ctx, fmt):
    """One deterministic case per large size class, so that the quick tier also crosses the
    five-digit boundaries of serial numbers (the random shards are capped at 1200 atoms)."""
    import numpy as np

    from . import c08

    for natom in LARGE_SIZES[fmt]:
        for variant in range(2):
            spec = dict(c08.BASE_SPECS[fmt], natom=natom, payload_seed=ctx.seed % 1000 + variant,
                        coord_cls=["wide", "boundary"][variant], title="large system")
            if "nbond_frac" in spec:
                spec["nbond_frac"] = [0.001, 1.0][variant]
            problems, labels, written = check_case(spec, ctx.tmpdir)
            ctx.record(spec, written, labels + ["large_deterministic"])
            ctx.report(spec, problems, labels)
    del np


def shards(tier, seed):
    big = tier == "thorough"
    out = [(f"large_{fmt}", "shard_large", {"fmt": fmt}) for fmt in LARGE_SIZES]
    for fmt in OBJ.ALL_FORMATS:
        n = 4000 if big else 200
        if fmt in ("fcidump",):
            n = 1500 if big else 80
        out.append((f"{fmt}", "shard_format", {"fmt": fmt, "max_examples": n}))
    # formats with many optional keys get a second shard
    for fmt in ("pdb", "fchk", "json_qcschema"):
        out.append((f"{fmt}_b", "shard_format", {"fmt": fmt, "max_examples": 4000 if big else 200}))
    return out


def replay(entry):
    import shutil
    import tempfile

    spec = entry["spec"]
    for key in ("mol_extras", "in_extras", "out_extras"):
        if key in spec:
            spec[key] = set(spec[key])
    if "shape" in spec:
        spec["shape"] = tuple(spec["shape"])
    if "opt" in spec:
        for key in ("atcharges", "rdms", "moments"):
            if isinstance(spec["opt"].get(key), list):
                spec["opt"][key] = set(spec["opt"][key])
    tmpdir = tempfile.mkdtemp(prefix="ivp_c02_replay_")
    try:
        return check_case(spec, tmpdir)[0]
    finally:
        shutil.rmtree(tmpdir, ignore_errors=True)
