"""C18 - the command-line converter does exactly what the API does."""

from __future__ import annotations

import glob
import os
import subprocess
import sys
import warnings

from hypothesis import strategies as st

from ..gen import objects as OBJ
from ..runner import Problem, drive

ID = "C18"
LEVEL = "exploration"
RULE = (
    "Hypothesis draws (input file, target format) pairs from the test corpus (files <= 60 kB) and "
    "from multi-frame files written for the purpose, x {-i / -o given or inferred from the name} "
    "x {-c} x {-m} x output {absent, pre-existing with other content}; the converter runs as a "
    "subprocess (python -m iodata) and through iodata.__main__.convert() (also repeatedly in one "
    "process on an input path whose content is rewritten and finally removed); the reference is the "
    "corresponding API call sequence (load_one+dump_one or load_many+dump_many with the same "
    "formats and allow_changes). Oracle: exit 0 => the API succeeds and the two outputs are "
    "byte-identical; exit != 0 => non-empty stderr naming an error, and if the API fails "
    "pre-flight (PrepareDumpError / FileFormatError) a pre-existing output keeps its bytes. "
    "Non-trivial = the conversion succeeds, or fails pre-flight with a pre-existing output; "
    "distinct by spec hash."
)
ASSUMPTIONS = [
    "a CLI failure where the API succeeds is accepted only when it is a trapped "
    "floating-point error (the one documented difference); otherwise it is reported",
    "the reference API calls run in the checking process, the CLI in a fresh interpreter",
]

PY = sys.executable


def corpus_dir():
    import iodata

    for cand in (os.path.join(os.path.dirname(iodata.__file__), "test", "data"), "/repo/iodata/test/data"):
        if os.path.isdir(cand):
            return cand
    return None


def corpus_inputs():
    root = corpus_dir()
    if root is None:
        return []
    out = []
    for path in sorted(glob.glob(os.path.join(root, "*"))):
        if os.path.isfile(path) and os.path.getsize(path) <= 60000:
            out.append(os.path.basename(path))
    return out


def case_strategy(files):
    return st.fixed_dictionaries(
        {
            "file": st.sampled_from(files),
            "target": st.sampled_from(OBJ.ALL_FORMATS),
            "explicit_in": st.booleans(),
            "explicit_out": st.sampled_from([False, True, True]),
            "odd_outname": st.sampled_from([False, False, True]),
            "allow": st.booleans(),
            "many": st.sampled_from([False, False, True]),
            "existing": st.booleans(),
            "via": st.sampled_from(["subprocess", "subprocess", "convert"]),
        }
    )


TRAJECTORY_HINTS = ("trajectory", ".sdf", ".mol2", ".pdb", ".gro", "peroxide_opt", "peroxide_irc", "peroxide_relaxed")


def many_strategy(files):
    traj = [f for f in files if any(h in f for h in TRAJECTORY_HINTS)] or files
    return st.fixed_dictionaries(
        {
            "file": st.sampled_from(traj),
            "target": st.sampled_from(["xyz", "pdb", "mol2", "sdf", "xyz", "pdb", "mol2", "sdf", "poscar", "molden"]),
            "explicit_in": st.booleans(),
            "explicit_out": st.sampled_from([False, True, True]),
            "odd_outname": st.sampled_from([False, True]),
            "allow": st.booleans(),
            "many": st.sampled_from([True, True, True, False]),
            "existing": st.booleans(),
            "via": st.sampled_from(["subprocess", "convert"]),
        }
    )


def conversion_strategy(files):
    """Wavefunction sources that need -c for most targets (SP / generalized contractions)."""
    wfn = [f for f in files if f.endswith((".fchk", ".molden", ".mkl", ".molden.input", ".cp2k.out", ".mwfn"))] or files
    return st.fixed_dictionaries(
        {
            "file": st.sampled_from(wfn),
            "target": st.sampled_from(["molden", "molekel", "wfn", "wfx", "fchk"]),
            "explicit_in": st.booleans(),
            "explicit_out": st.booleans(),
            "odd_outname": st.just(False),
            "allow": st.booleans(),
            "many": st.just(False),
            "existing": st.booleans(),
            "via": st.sampled_from(["subprocess", "convert"]),
        }
    )


def in_format(name):
    from iodata.api import FORMAT_MODULES

    import fnmatch

    for fmt, mod in FORMAT_MODULES.items():
        if any(fnmatch.fnmatchcase(name, pat) for pat in mod.PATTERNS):
            return fmt
    return "json_qcschema" if name.endswith(".json") else None


def check_case(spec, tmpdir):
    from iodata import dump_many, dump_one, load_many, load_one
    from iodata.utils import FileFormatError, PrepareDumpError

    root = corpus_dir()
    infile = os.path.join(root, spec["file"])
    target = spec["target"]
    infmt = in_format(spec["file"]) if (spec["explicit_in"] or spec["file"].endswith(".json")) else None
    outname = OBJ.filename(target, "cli")
    outfmt = None
    if spec["explicit_out"] or target == "json_qcschema":
        outfmt = target
        if spec["odd_outname"]:
            outname = "result.data"
    out_cli = os.path.join(tmpdir, "cli", outname)
    out_api = os.path.join(tmpdir, "api", outname)
    os.makedirs(os.path.dirname(out_cli), exist_ok=True)
    os.makedirs(os.path.dirname(out_api), exist_ok=True)
    payload = b"previous content of the output file\n" * 3
    for path in (out_cli, out_api):
        if os.path.exists(path):
            os.remove(path)
        if spec["existing"]:
            with open(path, "wb") as fh:
                fh.write(payload)
    # ---- reference: the API calls -------------------------------------------------------------------
    with warnings.catch_warnings(record=True):
        warnings.simplefilter("always")
        try:
            if spec["many"]:
                dump_many(load_many(infile, fmt=infmt), out_api, allow_changes=spec["allow"], fmt=outfmt)
            else:
                dump_one(load_one(infile, fmt=infmt), out_api, allow_changes=spec["allow"], fmt=outfmt)
            api = "ok"
        except (PrepareDumpError, FileFormatError) as exc:
            api = "preflight:" + type(exc).__name__
        except Exception as exc:  # noqa: BLE001
            api = "error:" + type(exc).__name__
    api_bytes = open(out_api, "rb").read() if os.path.exists(out_api) else None
    # ---- the converter ---------------------------------------------------------------------------------
    args = []
    if infmt:
        args += ["-i", infmt]
    if outfmt:
        args += ["-o", outfmt]
    if spec["allow"]:
        args.append("-c")
    if spec["many"]:
        args.append("-m")
    if spec["via"] == "subprocess":
        env = dict(os.environ)
        if os.environ.get("IODATA_REPO"):
            env["PYTHONPATH"] = os.environ["IODATA_REPO"] + os.pathsep + env.get("PYTHONPATH", "")
        env["PYTHONWARNINGS"] = "ignore"
        res = subprocess.run([PY, "-m", "iodata", *args, infile, out_cli], capture_output=True, text=True, env=env, timeout=600)
        rc, stderr = res.returncode, res.stderr
    else:
        import iodata.__main__ as cli

        with warnings.catch_warnings(record=True):
            warnings.simplefilter("always")
            try:
                cli.convert(infile, out_cli, spec["many"], infmt, outfmt, spec["allow"])
                rc, stderr = 0, ""
            except Exception as exc:  # noqa: BLE001
                rc, stderr = 1, f"{type(exc).__name__}: {exc}"
    cli_bytes = open(out_cli, "rb").read() if os.path.exists(out_cli) else None
    problems = []
    labels = [f"target:{target}", f"via:{spec['via']}", f"api:{api.split(':')[0]}"]
    if rc == 0:
        if api != "ok":
            problems.append(Problem("C18/success_but_api_fails", f"converter exit 0, API outcome {api}"))
        elif cli_bytes != api_bytes:
            problems.append(
                Problem("C18/different_content",
                        f"converter wrote {None if cli_bytes is None else len(cli_bytes)} bytes, "
                        f"API {None if api_bytes is None else len(api_bytes)} bytes, content differs")
            )
    else:
        if not stderr.strip():
            problems.append(Problem("C18/silent_failure", f"exit status {rc} with empty stderr"))
        elif "Error" not in stderr and "error" not in stderr and "Traceback" not in stderr:
            problems.append(Problem("C18/unnamed_failure", f"stderr does not name an error: {stderr[-200:]!r}"))
        if api.startswith("preflight") and spec["existing"] and cli_bytes != payload:
            problems.append(Problem("C18/preflight_clobbers_output", f"{api}: pre-existing output was modified"))
        if api.startswith("preflight") and not spec["existing"] and cli_bytes is not None:
            problems.append(Problem("C18/preflight_creates_output", f"{api}: output was created"))
        if api == "ok":
            labels.append("cli_fails_api_succeeds")
            if "FloatingPointError" not in stderr:
                # the only documented reason for the converter to fail where the API call sequence
                # succeeds is its trapping of floating-point errors
                problems.append(
                    Problem("C18/fails_where_api_succeeds",
                            f"converter exit {rc} ({stderr.strip().splitlines()[-1][:200] if stderr.strip() else ''}) "
                            "although the same API calls succeed")
                )
    for path in (out_cli, out_api):
        if os.path.exists(path):
            os.remove(path)
    nontrivial = (rc == 0 and api == "ok") or (api.startswith("preflight") and spec["existing"])
    return problems, nontrivial, labels


def shard_pairs(ctx, max_examples, focus="any"):
    files = corpus_inputs()
    tmpdir = ctx.tmpdir
    strat = {"any": case_strategy, "many": many_strategy, "conversion": conversion_strategy}[focus](files)
    drive(ctx, strat, lambda s: check_case(s, tmpdir), max_examples, shrink=False, name=f"pairs_{focus}")


def check_rewritten(spec, tmpdir):
    """The converter function called repeatedly in one process on an input path whose content
    changes in between (and finally disappears): every call must do what the API calls do for the
    content present at that moment."""
    from iodata import dump_many, dump_one, load_many, load_one

    import iodata.__main__ as cli

    root = corpus_dir()
    fmt_in, fmt_out, many = spec["fmt_in"], spec["fmt_out"], spec["many"]
    contents = [open(os.path.join(root, name), "rb").read() for name in spec["files"]]
    infile = os.path.join(tmpdir, "input." + fmt_in)
    out_cli = os.path.join(tmpdir, OBJ.filename(fmt_out, "rw_cli"))
    out_api = os.path.join(tmpdir, OBJ.filename(fmt_out, "rw_api"))
    problems = []
    for step, content in enumerate(contents + [None]):
        if content is None:
            os.remove(infile)
        else:
            with open(infile, "wb") as fh:
                fh.write(content)
        results = []
        for which, out in (("api", out_api), ("cli", out_cli)):
            if os.path.exists(out):
                os.remove(out)
            with warnings.catch_warnings(record=True):
                warnings.simplefilter("always")
                try:
                    if which == "cli":
                        cli.convert(infile, out, many, None, None, True)
                    elif many:
                        dump_many(load_many(infile), out, allow_changes=True)
                    else:
                        dump_one(load_one(infile), out, allow_changes=True)
                    status = "ok"
                except Exception as exc:  # noqa: BLE001
                    status = "error"
                    del exc
            data = open(out, "rb").read() if os.path.exists(out) else None
            results.append((status, data))
        if results[0] != results[1]:
            problems.append(
                Problem("C18/stale_or_different_after_rewrite",
                        f"call #{step + 1} on the same path ({'input removed' if content is None else spec['files'][step]}): "
                        f"API {results[0][0]}, converter {results[1][0]}, outputs {'equal' if results[0][1] == results[1][1] else 'differ'}")
            )
            break
    for path in (infile, out_cli, out_api):
        if os.path.exists(path):
            os.remove(path)
    return problems, True, ["rewritten_input", f"many:{many}"]


REWRITE_SETS = {
    "xyz": ["water.xyz", "water_element.xyz", "water_trajectory.xyz"],
    "pdb": ["water_single.pdb", "ch5plus.pdb", "water_trajectory.pdb"],
    "sdf": ["example.sdf", "formamide.sdf"],
    "mol2": ["benzene.mol2", "water.mol2", "caffeine.mol2"],
}


def shard_rewritten(ctx):
    root = corpus_dir()
    have = set(os.listdir(root))
    for fmt_in, files in sorted(REWRITE_SETS.items()):
        files = [f for f in files if f in have]
        if len(files) < 2:
            ctx.skipped[f"rewrite_set_incomplete:{fmt_in}"] += 1
            continue
        for fmt_out in ("xyz", "pdb", "sdf", "mol2"):
            for many in (False, True):
                for order in (files, files[::-1]):
                    spec = {"kind": "rewritten", "fmt_in": fmt_in, "fmt_out": fmt_out, "many": many, "files": list(order)}
                    problems, nontrivial, labels = check_rewritten(spec, ctx.tmpdir)
                    ctx.record(spec, nontrivial, labels)
                    ctx.report(spec, problems)


def shards(tier, seed):
    big = tier == "thorough"
    out = [(f"pairs{i}", "shard_pairs", {"max_examples": 260 if big else 20}) for i in range(9)]
    out += [(f"many{i}", "shard_pairs", {"max_examples": 260 if big else 20, "focus": "many"}) for i in range(3)]
    out += [(f"conv{i}", "shard_pairs", {"max_examples": 260 if big else 20, "focus": "conversion"}) for i in range(3)]
    out.append(("rewritten", "shard_rewritten", {}))
    return out


def replay(entry):
    import shutil
    import tempfile

    tmpdir = tempfile.mkdtemp(prefix="ivp_c18_replay_")
    try:
        if entry["spec"].get("kind") == "rewritten":
            return check_rewritten(entry["spec"], tmpdir)[0]
        return check_case(entry["spec"], tmpdir)[0]
    finally:
        shutil.rmtree(tmpdir, ignore_errors=True)
