"""C20 - numerical helpers return what their documentation says.

Generators: Hypothesis draws structure (sizes, spectrum classes, eps / occ_max, vector classes)
and one payload seed that fills the bulk arrays; four-index positions and the boolean vocabulary
are enumerated completely.  Oracles are independent re-statements of the documentation.
"""

from __future__ import annotations

import itertools

import numpy as np
from hypothesis import strategies as st

from ..runner import Problem, drive

ID = "C20"
LEVEL = "exploration"
RULE = (
    "naturals: Hypothesis draws size 1..12, a spectrum class (degenerate / zero / negative / "
    ">occ_max entries), eps, occ_max, payload seed; S = random SPD, C = S^-1/2 Q, dm = C n C^T; "
    "non-trivial = size >= 2 (S is never the identity). volume: 1-3 random cell vectors incl. "
    "left-handed, permuted, sign-flipped sets; non-trivial = >= 2 vectors. four-index: every "
    "index quadruple for n <= 6 (exhaustive), non-trivial = not all four indices equal. "
    "strtobool: every letter-case variant of the 12 documented words (exhaustive) + random "
    "other strings; non-trivial = not the all-lower-case spelling. Distinctness by spec hash."
)
ASSUMPTIONS = [
    "numpy/scipy linear algebra used by the oracle (eigvalsh, det of the Gram matrix) is correct",
    "spectra are kept 1e-6 away from the accept/reject boundary of check_dm",
    "the boolean vocabulary is the one listed in the property statement's documentation: "
    "y yes t true on 1 / n no f false off 0",
]


def shards(tier, seed):
    big = tier == "thorough"
    out = []
    nshard = 4
    per = 50000 if big else 250
    for i in range(nshard):
        out.append((f"naturals{i}", "shard_naturals", {"max_examples": per}))
    per = 100000 if big else 500
    for i in range(2):
        out.append((f"volume{i}", "shard_volume", {"max_examples": per}))
    for n in range(1, 7):
        out.append((f"fourindex_n{n}", "shard_fourindex", {"n": n}))
    out.append(("strtobool_vocab", "shard_strtobool_vocab", {}))
    out.append(("strtobool_other", "shard_strtobool_other", {"max_examples": 200000 if big else 1500}))
    return out


# ----------------------------------------------------------------------------------------------
# natural orbitals and check_dm
# ----------------------------------------------------------------------------------------------

naturals_spec = st.fixed_dictionaries(
    {
        "kind": st.just("naturals"),
        "n": st.integers(1, 12),
        "payload_seed": st.integers(0, 2**32 - 1),
        "spectrum": st.sampled_from(
            ["aufbau", "fractional", "degenerate", "zeros", "negative", "above_max", "mixed"]
        ),
        "eps": st.sampled_from([1e-4, 1e-3, 1e-2, 1e-5, 0.0]),
        "occ_max": st.sampled_from([1.0, 2.0, 0.5]),
        "cond": st.sampled_from([1.0, 10.0, 100.0]),
    }
)


# excess over the bound in units of eps: both sides of the threshold and close to it, so that a
# threshold that is relative to occ_max (occ_max * (1 + eps), eps / occ_max, ...) or has a different
# factor is told apart from the documented absolute one for every occ_max (C20-seed7)
_EXCESS = [0.6, 0.9, 1.1, 1.5, 1.9, 0.3, 3.0, 30.0]


def build_naturals(spec):
    rng = np.random.Generator(np.random.PCG64(spec["payload_seed"]))
    n = spec["n"]
    occ_max = spec["occ_max"]
    eps = spec["eps"]
    # SPD overlap with eigenvalues in [1/cond, 1] * scale
    q0, _ = np.linalg.qr(rng.normal(size=(n, n)))
    evs = np.exp(-rng.uniform(0, np.log(spec["cond"]) if spec["cond"] > 1 else 0, size=n))
    overlap = (q0 * evs) @ q0.T
    overlap = 0.5 * (overlap + overlap.T)
    kind = spec["spectrum"]
    if kind == "aufbau":
        nocc = rng.integers(0, n + 1)
        occs = np.array([occ_max] * nocc + [0.0] * (n - nocc))
    elif kind == "fractional":
        occs = rng.uniform(0, occ_max, size=n)
    elif kind == "degenerate":
        vals = rng.uniform(0, occ_max, size=max(1, n // 3))
        occs = rng.choice(vals, size=n)
    elif kind == "zeros":
        occs = np.where(rng.uniform(size=n) < 0.5, 0.0, rng.uniform(0, occ_max, size=n))
    elif kind == "negative":
        occs = rng.uniform(0, occ_max, size=n)
        occs[rng.integers(n)] = -rng.choice(_EXCESS) * (eps if eps > 0 else 1e-5)
    elif kind == "above_max":
        occs = rng.uniform(0, occ_max, size=n)
        occs[rng.integers(n)] = occ_max + rng.choice(_EXCESS) * (eps if eps > 0 else 1e-5)
    else:
        occs = rng.uniform(-0.2, occ_max + 0.2, size=n)
    # keep away from the boundary of check_dm
    for i, val in enumerate(occs):
        if abs(val + eps) < 1e-6:
            occs[i] = -eps + 3e-6
        if abs(val - occ_max - eps) < 1e-6:
            occs[i] = occ_max + eps - 3e-6
    # C = S^-1/2 Q
    w, v = np.linalg.eigh(overlap)
    s_inv_half = (v / np.sqrt(w)) @ v.T
    q1, _ = np.linalg.qr(rng.normal(size=(n, n)))
    coeffs = s_inv_half @ q1
    dm = (coeffs * occs) @ coeffs.T
    dm = 0.5 * (dm + dm.T)
    return overlap, occs, dm


def check_naturals(spec):
    from iodata.utils import check_dm, derive_naturals

    problems = []
    overlap, occs, dm = build_naturals(spec)
    n = spec["n"]
    scale = max(1.0, np.abs(occs).max())
    tol = 1e-8 * scale * spec["cond"]
    overlap0, dm0 = overlap.copy(), dm.copy()
    try:
        got_c, got_n = derive_naturals(dm, overlap)
    except Exception as exc:
        return [Problem("C20/naturals/exception", f"derive_naturals raised {exc!r}")]
    got_c = np.asarray(got_c)
    got_n = np.asarray(got_n)
    if got_c.shape != (n, n) or got_n.shape != (n,):
        problems.append(Problem("C20/naturals/shape", f"shapes {got_c.shape} {got_n.shape}"))
        return problems
    err = np.abs(got_c.T @ overlap @ got_c - np.eye(n)).max()
    if not err < 1e-8 * spec["cond"]:
        problems.append(Problem("C20/naturals/orthonormal", f"|C^T S C - 1| = {err:.3e}"))
    err = np.abs(np.sort(got_n) - np.sort(occs)).max()
    if not err < tol:
        problems.append(Problem("C20/naturals/occupations", f"eigenvalue error {err:.3e}"))
    err = np.abs((got_c * got_n) @ got_c.T - dm).max()
    if not err < tol:
        problems.append(Problem("C20/naturals/reconstruct", f"|C n C^T - dm| = {err:.3e}"))
    # each returned pair is a generalized eigenpair: S dm S c = n S c
    err = np.abs(overlap @ dm @ overlap @ got_c - (overlap @ got_c) * got_n).max()
    if not err < tol:
        problems.append(Problem("C20/naturals/eigenpair", f"residual {err:.3e}"))
    if not (np.array_equal(overlap, overlap0) and np.array_equal(dm, dm0)):
        problems.append(Problem("C20/naturals/mutates_args", "arguments were modified"))
    # check_dm accepts exactly occupations in [-eps, occ_max + eps]
    eps, occ_max = spec["eps"], spec["occ_max"]
    should_accept = occs.min() >= -eps and occs.max() <= occ_max + eps
    try:
        check_dm(dm, overlap, eps=eps, occ_max=occ_max)
        accepted = True
    except ValueError:
        accepted = False
    except Exception as exc:
        problems.append(Problem("C20/check_dm/exception", f"check_dm raised {exc!r}"))
        accepted = should_accept
    if accepted != should_accept:
        problems.append(
            Problem(
                "C20/check_dm/" + ("accepts_bad" if accepted else "rejects_good"),
                f"occupations in [{occs.min():.6g}, {occs.max():.6g}], eps={eps}, "
                f"occ_max={occ_max}: accepted={accepted}",
            )
        )
    # default arguments: eps=1e-4, occ_max=1
    should_accept = occs.min() >= -1e-4 - 1e-9 and occs.max() <= 1 + 1e-4 + 1e-9
    near = min(abs(occs.min() + 1e-4), abs(occs.max() - 1 - 1e-4)) < 1e-6
    if not near:
        try:
            check_dm(dm, overlap)
            accepted = True
        except ValueError:
            accepted = False
        if accepted != (occs.min() >= -1e-4 and occs.max() <= 1 + 1e-4):
            problems.append(
                Problem("C20/check_dm/defaults", f"defaults: accepted={accepted} occs={occs}")
            )
    return problems


def body_naturals(spec):
    problems = check_naturals(spec)
    labels = [f"naturals:{spec['spectrum']}", f"naturals:n={spec['n']}"]
    return problems, spec["n"] >= 2, labels


def shard_naturals(ctx, max_examples):
    drive(ctx, naturals_spec, body_naturals, max_examples, name="naturals")


# ----------------------------------------------------------------------------------------------
# volume
# ----------------------------------------------------------------------------------------------

volume_spec = st.fixed_dictionaries(
    {
        "kind": st.just("volume"),
        "nvec": st.integers(1, 3),
        "payload_seed": st.integers(0, 2**32 - 1),
        "cls": st.sampled_from(["generic", "orthogonal", "lefthanded", "skewed", "large", "tiny"]),
        "perm": st.permutations([0, 1, 2]),
        "signs": st.tuples(*[st.sampled_from([1, -1])] * 3),
        "flat": st.booleans(),
    }
)


def build_cell(spec):
    rng = np.random.Generator(np.random.PCG64(spec["payload_seed"]))
    nvec = spec["nvec"]
    cls = spec["cls"]
    if cls == "orthogonal":
        vecs = np.diag(rng.uniform(0.5, 30, size=3))
    elif cls == "skewed":
        vecs = np.diag(rng.uniform(0.5, 30, size=3)) + np.tril(rng.normal(size=(3, 3)), -1) * 5
    else:
        vecs = rng.normal(size=(3, 3)) * 5
    if cls == "large":
        vecs = vecs * 1e3
    if cls == "tiny":
        vecs = vecs * 1e-3
    if np.linalg.det(vecs) < 0:
        vecs[0] *= -1  # right-handed by construction
    if cls == "lefthanded":
        vecs[2] *= -1
    return vecs[:nvec].copy()


def ref_volume(vecs):
    """sqrt(det(Gram)) in 60-digit arithmetic (the Gram determinant squares the condition number,
    so in float64 it is less accurate than the quantity it is meant to judge for flat cells)."""
    import mpmath

    with mpmath.workdps(60):
        mat = mpmath.matrix([[mpmath.mpf(float(x)) for x in row] for row in np.atleast_2d(vecs)])
        gram = mat * mat.T
        det = mpmath.det(gram)
        return float(mpmath.sqrt(det)) if det > 0 else 0.0


def check_volume(spec):
    from iodata.utils import volume

    vecs = build_cell(spec)
    nvec = spec["nvec"]
    problems = []
    ref = ref_volume(vecs)
    variants = [("asis", vecs)]
    perm = [p for p in spec["perm"] if p < nvec]
    variants.append(("perm", vecs[perm]))
    signs = np.array(spec["signs"][:nvec], dtype=float)
    variants.append(("signs", vecs * signs[:, None]))
    if nvec == 1 and spec["flat"]:
        variants.append(("flat", vecs[0]))
    for name, arg in variants:
        arg0 = arg.copy()
        try:
            got = volume(arg)
        except Exception as exc:
            problems.append(Problem("C20/volume/exception", f"{name}: volume raised {exc!r}"))
            continue
        if not np.array_equal(arg, arg0):
            problems.append(Problem("C20/volume/mutates_args", f"{name}: argument modified"))
        if not (np.isfinite(got) and got >= 0):
            problems.append(
                Problem(f"C20/volume/negative/nvec{nvec}", f"{name}: volume = {got!r} for {arg.tolist()}")
            )
        elif not abs(got - ref) <= 1e-12 * float(np.prod(np.linalg.norm(np.atleast_2d(arg), axis=1))) + 1e-12 * ref + 1e-300:
            # float64 determinant: backward error ~ eps * product of the vector lengths
            problems.append(
                Problem(
                    f"C20/volume/value/nvec{nvec}",
                    f"{name}: volume = {got!r}, sqrt(det Gram) = {ref!r} for {arg.tolist()}",
                )
            )
    return problems


def body_volume(spec):
    problems = check_volume(spec)
    return problems, spec["nvec"] >= 2, [f"volume:nvec={spec['nvec']}", f"volume:{spec['cls']}"]


def shard_volume(ctx, max_examples):
    drive(ctx, volume_spec, body_volume, max_examples, name="volume")
    # wrong shapes are rejected (documented: x in {1,2,3})
    from iodata.utils import volume

    for nvec in (0, 4, 5):
        spec = {"kind": "volume_shape", "nvec": nvec}
        problems = []
        try:
            got = volume(np.ones((nvec, 3)))
            problems.append(Problem("C20/volume/accepts_bad_shape", f"({nvec},3) -> {got!r}"))
        except ValueError:
            pass
        except Exception as exc:
            # numpy's own complaint about an empty / oversized array is also a refusal
            ctx.count(volume_bad_shape_other_exception=1)
            del exc
        ctx.record(spec, False, ["volume:badshape"])
        if nvec >= 4:
            ctx.report(spec, problems)


# ----------------------------------------------------------------------------------------------
# set_four_index_element
# ----------------------------------------------------------------------------------------------


def orbit(i0, i1, i2, i3):
    """8 symmetry-equivalent positions of <i0 i1|i2 i3>, derived in chemists' notation.

    <ab|cd> (physicists) = (ac|bd) (chemists); real orbitals: (pq|rs) is invariant under
    p<->q, r<->s and (pq)<->(rs).
    """
    p, q, r, s = i0, i2, i1, i3
    images = set()
    for (a, b) in ((p, q), (q, p)):
        for (c, d) in ((r, s), (s, r)):
            for (e, f, g, h) in ((a, b, c, d), (c, d, a, b)):
                images.add((e, g, f, h))  # back to physicists' <eg|fh>
    return images


def shard_fourindex(ctx, n):
    from iodata.utils import set_four_index_element

    sentinel = -7.25
    for quad, vkind in itertools.product(itertools.product(range(n), repeat=4), ("generic", "zero", "negative")):
        spec = {"kind": "four_index", "n": n, "idx": list(quad), "value": vkind}
        arr = np.full((n, n, n, n), sentinel)
        value = 1.0 + quad[0] + 0.1 * quad[1] + 0.01 * quad[2] + 0.001 * quad[3]
        if vkind == "zero":
            value = 0.0  # overwriting existing content with an exact zero is an assignment too
        elif vkind == "negative":
            value = -value
        problems = []
        try:
            set_four_index_element(arr, *quad, value)
        except Exception as exc:
            problems.append(Problem("C20/fourindex/exception", f"raised {exc!r}"))
        else:
            expected = np.full((n, n, n, n), sentinel)
            for pos in orbit(*quad):
                expected[pos] = value
            if not np.array_equal(arr, expected):
                wrong = [tuple(int(x) for x in w) for w in np.argwhere(arr != expected)][:8]
                problems.append(
                    Problem(
                        "C20/fourindex/positions",
                        f"n={n} idx={quad}: positions differing from the 8-fold orbit: {wrong}",
                    )
                )
        ctx.record(spec, len(set(quad)) > 1, [f"fourindex:orbit={len(orbit(*quad))}"])
        ctx.report(spec, problems)
    # assignments accumulate into a tensor with the full 8-fold symmetry
    rng = np.random.Generator(np.random.PCG64(ctx.seed))
    arr = np.zeros((n, n, n, n))
    for _ in range(4 * n):
        quad = tuple(int(x) for x in rng.integers(0, n, size=4))
        set_four_index_element(arr, *quad, float(rng.normal()))
    sym = [
        arr.transpose(1, 0, 3, 2),
        arr.transpose(2, 1, 0, 3),
        arr.transpose(0, 3, 2, 1),
        arr.transpose(2, 3, 0, 1),
    ]
    spec = {"kind": "four_index_symmetry", "n": n}
    problems = []
    if not all(np.array_equal(arr, other) for other in sym):
        problems.append(Problem("C20/fourindex/symmetry", f"n={n}: accumulated tensor not symmetric"))
    ctx.record(spec, n > 1, ["fourindex:symmetry"])
    ctx.report(spec, problems)


# ----------------------------------------------------------------------------------------------
# strtobool
# ----------------------------------------------------------------------------------------------

TRUE_WORDS = ["y", "yes", "t", "true", "on", "1"]
FALSE_WORDS = ["n", "no", "f", "false", "off", "0"]


def check_strtobool(text):
    from iodata.utils import strtobool

    low = text.lower() if text.isascii() else None
    expected = None
    if low in TRUE_WORDS:
        expected = True
    elif low in FALSE_WORDS:
        expected = False
    problems = []
    try:
        got = strtobool(text)
    except ValueError:
        got = "ValueError"
    except Exception as exc:
        return [Problem("C20/strtobool/exception", f"{text!r}: raised {exc!r}")]
    if expected is None:
        if got != "ValueError":
            problems.append(Problem("C20/strtobool/accepts_other", f"{text!r} -> {got!r}"))
    elif got is not expected:
        problems.append(
            Problem("C20/strtobool/vocabulary", f"{text!r} -> {got!r}, expected {expected!r}")
        )
    return problems


def shard_strtobool_vocab(ctx):
    for word in TRUE_WORDS + FALSE_WORDS:
        for mask in itertools.product([False, True], repeat=len(word)):
            text = "".join(ch.upper() if up else ch for ch, up in zip(word, mask))
            spec = {"kind": "strtobool", "text": text}
            ctx.record(spec, text != word or not word.isalpha(), ["strtobool:vocab"])
            ctx.report(spec, check_strtobool(text))


def shard_strtobool_other(ctx, max_examples):
    words = TRUE_WORDS + FALSE_WORDS
    near = st.builds(
        lambda w, pre, suf: pre + w + suf,
        st.sampled_from(words),
        st.sampled_from(["", " ", "\t", "-", "_", "x"]),
        st.sampled_from(["", " ", "\n", "s", ".", "0"]),
    )
    strat = st.one_of(st.text(max_size=6), near, st.text(alphabet="yesnotrufalo01 ", max_size=5))

    def body(text):
        spec = {"kind": "strtobool", "text": text}
        del spec
        problems = check_strtobool(text)
        return problems, True, ["strtobool:" + ("vocab" if text.lower() in words else "other")]

    drive(
        ctx,
        strat.map(lambda t: t),
        lambda text: body(text),
        max_examples,
        name="strtobool",
    )


# ----------------------------------------------------------------------------------------------
# replay
# ----------------------------------------------------------------------------------------------


def replay(entry):
    spec = entry["spec"]
    if isinstance(spec, str):
        return check_strtobool(spec)
    kind = spec.get("kind")
    if kind == "naturals":
        return check_naturals(spec)
    if kind == "volume":
        spec = dict(spec, signs=tuple(spec["signs"]))
        return check_volume(spec)
    if kind == "strtobool":
        return check_strtobool(spec["text"])
    if kind == "four_index":
        from ..runner import ShardCtx

        ctx = ShardCtx(ID, "replay", "quick", 1, [], {})
        shard_fourindex(ctx, spec["n"])
        return [Problem(b, f["message"]) for b, f in ctx.failures.items()]
    raise ValueError(f"unknown spec kind {kind}")
