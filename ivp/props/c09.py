"""C09 - dumping never alters the caller's data; conversions are explicit and equivalent."""

from __future__ import annotations

import os
import warnings

import numpy as np
from hypothesis import strategies as st

from ..gen import objects as OBJ
from ..gen import wf
from ..oracles import gaussians as G
from ..oracles import overlap as O
from ..oracles import snapshot as S
from ..oracles import wfcompare as W
from ..runner import Problem, drive
from . import c01

ID = "C09"
LEVEL = "exploration"
RULE = (
    "Hypothesis draws objects accepted by each of the 13 dump formats (generators of C02, incl. "
    "QCSchema extra with nested lists/dicts and provenance as dict or list) and wavefunction "
    "objects needing conversion (generalized contractions, occs_aminusb; generator of C01) x "
    "allow_changes x 1-3 repeated dumps x {public properties read before the call or not}; "
    "dump_many on lists for the 4 trajectory formats; write_input for both programs. Oracle: deep "
    "snapshot (SNAP) of the argument before == after (only permitted difference: default core "
    "charges filled in); without allow_changes the very object is returned or PrepareDumpError "
    "raised; with allow_changes a returned copy implies a PrepareDumpWarning and denotes the same "
    "basis functions, density, spin density, electron count and spin polarisation (oracle E). "
    "Non-trivial = a dump that succeeded on an object with a non-empty nested container or one "
    "needing conversion; distinct by spec hash."
)
ASSUMPTIONS = [
    "SNAP walks attrs fields (private ones via object.__getattribute__), dicts, lists and arrays "
    "(dtype, shape, bytes)",
    "what is written to the file is checked in C01/C02, not here",
]


def selftest():
    G.selftest(5)
    O.selftest()


def snap_object(data, preread):
    if preread:
        for name in ("atcorenums", "charge", "nelec", "spinpol", "natom"):
            try:
                getattr(data, name)
            except Exception:
                pass
    return S.snap(data)


def snap_equal(before, after, data):
    """Compare snapshots, permitting only the filling in of the default core charges."""
    if before == after:
        return None
    diff = S.first_diff(before, after)
    if diff is not None and "_atcorenums" in diff:
        # permitted: None -> atnums as float
        cur = object.__getattribute__(data, "_atcorenums")
        if cur is not None and data.atnums is not None and np.array_equal(cur, data.atnums.astype(float)):
            patched_before = _patch_corenums(before, after)
            if patched_before == after:
                return None
            return S.first_diff(patched_before, after)
    return diff


def _patch_corenums(before, after):
    """Copy the '_atcorenums' field of ``after`` into ``before`` (both IOData snapshots)."""
    if before[0] != "o" or after[0] != "o":
        return before
    repl = dict(after[2]).get("_atcorenums")
    fields = tuple((n, repl if n == "_atcorenums" and v == ("v", "NoneType", None) else v) for n, v in before[2])
    return (before[0], before[1], fields)


def _force_aminusb(case):
    case = dict(case, mo=dict(case["mo"], kind="restricted", aminusb=True))
    if case["mo"]["occ"] not in ("closed", "open_integer", "fractional"):
        case["mo"]["occ"] = "open_integer"
    return case


_any_case = st.one_of(*[c01.case_strategy(t) for t in c01.TARGETS])
# half of the conversion cases carry an explicit occs_aminusb (generic, all zero, or summing to zero)
def _force_conversion(case):
    """A case whose conversion is allowed, with every optional piece of data the writers look at."""
    case = dict(_force_aminusb(case), allow_changes=True)
    if case["target"] == "wfn":
        case["mo_spin"] = "restricted_codes"
    return case


conv_case = st.one_of(_any_case, _any_case.map(_force_aminusb), _any_case.map(_force_conversion))


def case_strategy(fmt):
    return st.fixed_dictionaries(
        {
            "kind": st.just("object"),
            "obj": OBJ.st_object(fmt, False),
            "allow_changes": st.booleans(),
            "repeat": st.integers(1, 3),
            "preread": st.booleans(),
        }
    )


conversion_strategy = st.fixed_dictionaries(
    {
        "kind": st.just("conversion"),
        "case": conv_case,
        "repeat": st.integers(1, 2),
        "preread": st.booleans(),
    }
)


def nested_nonempty(data):
    def walk(val, depth):
        if isinstance(val, dict):
            return any(isinstance(v, (dict, list)) and len(v) > 0 or walk(v, depth + 1) for v in val.values())
        if isinstance(val, list):
            return any(isinstance(v, (dict, list)) and len(v) > 0 for v in val)
        return False

    return walk(data.extra, 0)


def add_null_entries(val, depth=0):
    """Insert a None-valued key into every nested dictionary (depth >= 1) reachable from ``val``."""
    n = 0
    if isinstance(val, dict):
        for item in list(val.values()):
            n += add_null_entries(item, depth + 1)
        if depth >= 2:
            val["unset_entry"] = None
            n += 1
    elif isinstance(val, list):
        for item in val:
            n += add_null_entries(item, depth + 1)
    return n


def check_object(spec, tmpdir):
    from iodata import dump_one
    from iodata.utils import PrepareDumpError, PrepareDumpWarning

    objspec = spec["obj"]
    fmt = objspec["fmt"]
    try:
        built = OBJ.build(objspec)
    except wf.DegenerateBasis:
        return [], ["degenerate_basis_skipped"], False
    data = built["data"]
    labels = list(built["labels"])
    if fmt == "json_qcschema" and spec["repeat"] != 2:
        # null entries at any depth of the caller's pass-through dictionaries (QCSchema files are
        # full of them); they are the caller's data like everything else
        if add_null_entries(data.extra):
            labels.append("null_entries_in_nested_dicts")
    path = os.path.join(tmpdir, OBJ.filename(fmt, "c09"))
    fmtarg = {"fmt": "json_qcschema"} if fmt == "json_qcschema" else {}
    before = snap_object(data, spec["preread"])
    before_kwargs = S.snap(built["dump_kwargs"].get("atom_columns") and [c[:4] for c in built["dump_kwargs"]["atom_columns"]])
    problems = []
    succeeded = False
    for irep in range(spec["repeat"]):
        with warnings.catch_warnings(record=True) as wlist:
            warnings.simplefilter("always")
            try:
                ret = dump_one(data, path, allow_changes=spec["allow_changes"], **fmtarg, **built["dump_kwargs"])
                outcome = "ok"
            except PrepareDumpError:
                outcome = "PrepareDumpError"
            except Exception as exc:
                outcome = type(exc).__name__
        if os.path.exists(path):
            os.remove(path)
        diff = snap_equal(before, S.snap(data), data)
        if diff is not None:
            problems.append(
                Problem(f"C09/{fmt}/argument_modified", f"dump #{irep + 1} ({outcome}) changed the caller's object: {diff}")
            )
            break
        if outcome == "ok":
            succeeded = True
            warned = any(issubclass(w.category, PrepareDumpWarning) for w in wlist)
            if not spec["allow_changes"] and ret is not data:
                problems.append(Problem(f"C09/{fmt}/not_same_object", "without allow_changes another object was returned"))
            if ret is not data and not warned:
                problems.append(Problem(f"C09/{fmt}/silent_conversion", "a converted copy was returned without PrepareDumpWarning"))
    after_kwargs = S.snap(built["dump_kwargs"].get("atom_columns") and [c[:4] for c in built["dump_kwargs"]["atom_columns"]])
    if before_kwargs != after_kwargs:
        problems.append(Problem(f"C09/{fmt}/kwargs_modified", "keyword arguments were modified"))
    if succeeded and nested_nonempty(data):
        labels.append("nested_container")
    return problems, labels, succeeded


def density(plain, sets, pts):
    phi = G.eval_basis(plain, pts)
    out = []
    for _lab, coeffs, occs, _ene in sets:
        vals = coeffs.T @ phi
        out.append((np.asarray(occs)[:, None] * vals**2).sum(axis=0))
    return out[0] + out[1], out[0] - out[1]


def returned_is_written(data, ret, target, path):
    from iodata import dump_one
    from iodata.utils import PrepareDumpError

    with warnings.catch_warnings():
        warnings.simplefilter("ignore")
        try:
            dump_one(data, path, allow_changes=True)
            with open(path, "rb") as fh:
                first = fh.read()
            os.remove(path)
        except Exception:  # noqa: BLE001 - reported by the caller's own loop
            return []
        try:
            dump_one(ret, path, allow_changes=False)
        except PrepareDumpError as exc:
            return [Problem(f"C09/{target}/returned_object_not_the_written_one",
                            f"the object returned with allow_changes=True is refused without it: {exc}")]
        except Exception as exc:  # noqa: BLE001
            return [Problem(f"C09/{target}/returned_object_not_writable", repr(exc))]
        with open(path, "rb") as fh:
            second = fh.read()
        os.remove(path)
    if first != second:
        return [Problem(f"C09/{target}/returned_object_not_the_written_one",
                        "dumping the returned object again (no changes allowed) gives a different file")]
    return []


def check_conversion(spec, tmpdir):
    from iodata import dump_one
    from iodata.utils import PrepareDumpError, PrepareDumpWarning

    case = spec["case"]
    target = case["target"]
    try:
        data, truth, labels = c01.build_case(case)
    except wf.DegenerateBasis:
        return [], ["degenerate_basis_skipped"], False
    labels = list(labels) + [f"fmt:{target}"]
    needs = bool({"generalized", "occs_aminusb"} & set(labels))
    path = os.path.join(tmpdir, f"c09conv.{c01.EXT[target]}")
    before = snap_object(data, spec["preread"])
    problems = []
    succeeded = False
    for irep in range(spec["repeat"]):
        with warnings.catch_warnings(record=True) as wlist:
            warnings.simplefilter("always")
            try:
                ret = dump_one(data, path, allow_changes=case["allow_changes"])
                outcome = "ok"
            except PrepareDumpError:
                outcome = "PrepareDumpError"
            except Exception as exc:
                outcome = type(exc).__name__
        if os.path.exists(path):
            os.remove(path)
        diff = snap_equal(before, S.snap(data), data)
        if diff is not None:
            problems.append(
                Problem(f"C09/{target}/argument_modified", f"dump #{irep + 1} ({outcome}) changed the caller's object: {diff}")
            )
            break
        if outcome != "ok":
            continue
        succeeded = True
        warned = any(issubclass(w.category, PrepareDumpWarning) for w in wlist)
        if not case["allow_changes"] and ret is not data:
            problems.append(Problem(f"C09/{target}/not_same_object", "without allow_changes another object was returned"))
        if case["allow_changes"] and irep == 0:
            # "the returned, written object": what comes back is what was written, so it can be
            # written again as is (no conversion allowed) and gives the same file
            problems += returned_is_written(data, ret, target, path)
        if ret is data:
            continue
        if not warned:
            problems.append(Problem(f"C09/{target}/silent_conversion", "a converted copy was returned without PrepareDumpWarning"))
        # the returned object denotes the same wavefunction
        try:
            got = W.truth_from_iodata(ret)
            pts = G.probe_points(truth["basis"], case["atnum_seed"], 15)
            phi0 = G.eval_basis(truth["basis"], pts)
            phi1 = G.eval_basis(got["basis"], pts)
        except Exception as exc:
            problems.append(Problem(f"C09/{target}/converted_unreadable", repr(exc)))
            continue
        if phi0.shape != phi1.shape or np.abs(phi1 - phi0).max() > 1e-11 * (1 + np.abs(phi0).max()):
            problems.append(Problem(f"C09/{target}/converted_basis", "basis functions (or their order) changed"))
            continue
        rho0, spin0 = density(truth["basis"], W.spin_sets(truth["mo"]), pts)
        rho1, spin1 = density(got["basis"], W.spin_sets(got["mo"]), pts)
        scale = np.abs(rho0).max() + 1e-300
        if np.abs(rho1 - rho0).max() > 1e-11 * scale:
            problems.append(Problem(f"C09/{target}/converted_density", "total density changed"))
        if np.abs(spin1 - spin0).max() > 1e-11 * scale:
            problems.append(Problem(f"C09/{target}/converted_spin_density", "spin density changed"))
        occsa, occsb = wf.spin_occupations(truth["mo"])
        if abs(ret.nelec - (occsa.sum() + occsb.sum())) > 1e-10:
            problems.append(Problem(f"C09/{target}/converted_nelec", f"{ret.nelec}"))
        if abs(ret.spinpol - abs(occsa.sum() - occsb.sum())) > 1e-10:
            problems.append(Problem(f"C09/{target}/converted_spinpol", f"{ret.spinpol}"))
    if succeeded and needs:
        labels.append("conversion_needed_and_written")
    return problems, labels, succeeded


def check_many(spec, tmpdir):
    from iodata import dump_many

    fmt = spec["fmt"]
    datas = []
    labels = [f"fmt:{fmt}", "dump_many"]
    for objspec in spec["objs"]:
        built = OBJ.build(objspec)
        datas.append(built["data"])
    if fmt == "mol2":
        for d in datas:
            if "mol2charges" not in d.atcharges:
                d.atcharges = {"mol2charges": np.zeros(d.natom)}
    befores = [snap_object(d, spec["preread"]) for d in datas]
    path = os.path.join(tmpdir, OBJ.filename(fmt, "c09many"))
    with warnings.catch_warnings(record=True):
        warnings.simplefilter("always")
        try:
            dump_many(datas, path)
            outcome = "ok"
        except Exception as exc:
            outcome = type(exc).__name__
    if os.path.exists(path):
        os.remove(path)
    problems = []
    for i, (d, b) in enumerate(zip(datas, befores)):
        diff = snap_equal(b, S.snap(d), d)
        if diff is not None:
            problems.append(Problem(f"C09/{fmt}/dump_many_argument_modified", f"frame {i} ({outcome}): {diff}"))
    return problems, labels, outcome == "ok"


def check_input(spec, tmpdir):
    from iodata import IOData, write_input

    rng = np.random.Generator(np.random.PCG64(spec["seed"]))
    natom = spec["natom"]
    kwargs = {"atnums": rng.integers(1, 37, size=natom), "atcoords": rng.normal(size=(natom, 3)) * 3}
    if spec["charge"] is not None:
        kwargs["charge"] = spec["charge"]
    if spec["spinpol"] is not None:
        kwargs["spinpol"] = spec["spinpol"]
    for key in ("lot", "obasis_name", "run_type", "title"):
        if spec[key] is not None:
            kwargs[key] = spec[key]
    kwargs["extra"] = {"nested": {"list": [1, [2, 3], {"a": 4}]}}
    data = IOData(**kwargs)
    before = snap_object(data, spec["preread"])
    path = os.path.join(tmpdir, "c09.inp")
    try:
        write_input(data, path, fmt=spec["program"])
        outcome = "ok"
    except Exception as exc:
        outcome = type(exc).__name__
    if os.path.exists(path):
        os.remove(path)
    problems = []
    diff = snap_equal(before, S.snap(data), data)
    if diff is not None:
        problems.append(Problem(f"C09/input_{spec['program']}/argument_modified", f"({outcome}) {diff}"))
    return problems, [f"input:{spec['program']}"], outcome == "ok"


input_strategy = st.fixed_dictionaries(
    {
        "kind": st.just("input"),
        "program": st.sampled_from(["gaussian", "orca"]),
        "natom": st.integers(1, 12),
        "seed": st.integers(0, 2**32 - 1),
        "charge": st.sampled_from([None, 0, 1, -1, 0.5]),
        "spinpol": st.sampled_from([None, 0, 1, 2]),
        "lot": st.sampled_from([None, "b3lyp"]),
        "obasis_name": st.sampled_from([None, "def2-svp"]),
        "run_type": st.sampled_from([None, "energy", "opt", "freq"]),
        "title": st.sampled_from([None, "a title"]),
        "preread": st.booleans(),
    }
)


def many_strategy(fmt):
    return st.fixed_dictionaries(
        {
            "kind": st.just("many"),
            "fmt": st.just(fmt),
            "objs": st.lists(OBJ.st_object(fmt, False), min_size=1, max_size=3),
            "preread": st.booleans(),
        }
    )


def dispatch(spec, tmpdir):
    kind = spec["kind"]
    if kind == "object":
        return check_object(spec, tmpdir)
    if kind == "conversion":
        return check_conversion(spec, tmpdir)
    if kind == "many":
        return check_many(spec, tmpdir)
    return check_input(spec, tmpdir)


def make_body(tmpdir):
    def body(spec):
        problems, labels, succeeded = dispatch(spec, tmpdir)
        nontrivial = succeeded and (
            "nested_container" in labels or "conversion_needed_and_written" in labels
            or spec["kind"] in ("many",) or any(lab.startswith("opt:") for lab in labels)
        )
        return problems, nontrivial, labels

    return body


def shard_objects(ctx, fmt, max_examples):
    drive(ctx, case_strategy(fmt), make_body(ctx.tmpdir), max_examples, name=f"obj_{fmt}")


def shard_conversions(ctx, max_examples):
    drive(ctx, conversion_strategy, make_body(ctx.tmpdir), max_examples, name="conversions")


def shard_many(ctx, fmt, max_examples):
    drive(ctx, many_strategy(fmt), make_body(ctx.tmpdir), max_examples, name=f"many_{fmt}")


def shard_inputs(ctx, max_examples):
    drive(ctx, input_strategy, make_body(ctx.tmpdir), max_examples, name="inputs")


def shards(tier, seed):
    big = tier == "thorough"
    out = []
    for fmt in OBJ.ALL_FORMATS:
        out.append((f"obj_{fmt}", "shard_objects", {"fmt": fmt, "max_examples": 5000 if big else 150}))
    out.append(("obj_json_qcschema_b", "shard_objects", {"fmt": "json_qcschema", "max_examples": 5000 if big else 150}))
    for i in range(3):
        out.append((f"conversions{i}", "shard_conversions", {"max_examples": 4000 if big else 80}))
    for fmt in ("xyz", "pdb", "mol2", "sdf"):
        out.append((f"many_{fmt}", "shard_many", {"fmt": fmt, "max_examples": 3000 if big else 60}))
    out.append(("inputs", "shard_inputs", {"max_examples": 20000 if big else 400}))
    return out


def _fix_sets(spec):
    if isinstance(spec, dict):
        for key, val in list(spec.items()):
            if key in ("mol_extras", "in_extras", "out_extras", "atcharges", "rdms", "moments") and isinstance(val, list):
                spec[key] = set(val)
            elif key == "shape" and isinstance(val, list):
                spec[key] = tuple(val)
            else:
                _fix_sets(val)
    elif isinstance(spec, list):
        for item in spec:
            _fix_sets(item)


def replay(entry):
    import shutil
    import tempfile

    spec = entry["spec"]
    _fix_sets(spec)
    tmpdir = tempfile.mkdtemp(prefix="ivp_c09_replay_")
    try:
        return dispatch(spec, tmpdir)[0]
    finally:
        shutil.rmtree(tmpdir, ignore_errors=True)
