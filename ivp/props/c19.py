"""C19 - generated QC input files describe the molecule they were generated from."""

from __future__ import annotations

import os
import re
import warnings

import numpy as np
from hypothesis import strategies as st

from ..oracles import units as U
from ..oracles.specwriters.common import NUM2SYM
from ..runner import Problem, drive

ID = "C19"
LEVEL = "exploration"
RULE = (
    "Hypothesis draws molecules (1..200 atoms, all elements, small / wide / negative coordinates), "
    "effective core charges equal to or smaller than the atomic numbers (pseudopotentials), "
    "charge and spin settings (absent, integer, fractional away from .5 ties, derived from "
    "orbitals), every run type (incl. upper case and ones a program lacks), lot / basis set or "
    "absent, default template or a random user template using any subset of fields, custom "
    "atom_line callbacks, extra keyword fields overriding defaults; both programs and unknown "
    "program names. Oracle: an independent matcher of the produced text: exactly natom geometry "
    "lines in order with the element symbol and atcoords/angstrom to 6 decimals, charge rounded to "
    "nearest, multiplicity round(spinpol)+1, keywords of the object or the documented defaults, "
    "user fields and kwargs taking precedence; FileFormatError / WriteInputError otherwise. "
    "Non-trivial = non-integer charge or spinpol, or a user template / kwarg overriding a "
    "default; distinct by spec hash."
)
ASSUMPTIONS = [
    "documented defaults: Gaussian '#n hf/sto-3g sp', ORCA '! HF STO-3G Energy'; run-type keywords "
    "as listed in the two input modules' documentation",
    "charges and spin polarisations exactly half-way between two integers are not generated",
]

GAUSSIAN_RT = {"energy": "sp", "energy_force": "force", "opt": "opt", "scan": "scan", "freq": "freq"}
ORCA_RT = {"energy": "Energy", "freq": "Freq", "opt": "Opt"}
DEFAULTS = {"gaussian": ("hf", "sto-3g"), "orca": ("HF", "STO-3G")}

case = st.fixed_dictionaries(
    {
        "program": st.sampled_from(["gaussian", "orca", "gaussian", "orca", "psi4", "Gaussian"]),
        "natom": st.one_of(st.integers(1, 12), st.sampled_from([1, 99, 100, 200])),
        "seed": st.integers(0, 2**32 - 1),
        "coord_cls": st.sampled_from(["small", "wide", "negative", "tiny"]),
        "charge": st.sampled_from([None, 0, 1, -1, 2, 0.9999999, -0.6, 0.4, 1.6, -2.4, 3.0]),
        "spinpol": st.sampled_from([None, 0, 1, 2, 3, 0.9999999, 1.4, 2.6]),
        "with_mo": st.sampled_from([False, False, False, True]),
        # effective core charges smaller than the atomic numbers (pseudopotentials, ghost atoms)
        "ecp": st.sampled_from([False, False, True]),
        "run_type": st.sampled_from([None, "energy", "energy_force", "opt", "scan", "freq", "OPT", "Freq", "bogus"]),
        "lot": st.sampled_from([None, "b3lyp", "MP2", "ccsd(t)"]),
        "obasis_name": st.sampled_from([None, "def2-svp", "6-31G*"]),
        "title": st.sampled_from([None, "my molecule", "Title with {braces}"]),
        "template": st.sampled_from(["default", "default", "user", "user_partial", "user_bad_field"]),
        "user_fields": st.sets(st.sampled_from(["lot", "obasis_name", "run_type", "charge", "spinmult", "title", "custom"]), max_size=7),
        "kwargs": st.sets(st.sampled_from(["lot", "obasis_name", "run_type", "charge", "spinmult", "title", "custom"]), max_size=3),
        "atom_line": st.sampled_from(["default", "default", "custom", "raises"]),
    }
)


def build(spec):
    from iodata import IOData
    from iodata.orbitals import MolecularOrbitals

    rng = np.random.Generator(np.random.PCG64(spec["seed"]))
    natom = spec["natom"]
    scale = {"small": 3.0, "wide": 500.0, "negative": 20.0, "tiny": 1e-4}[spec["coord_cls"]]
    coords = rng.normal(size=(natom, 3)) * scale
    if spec["coord_cls"] == "negative":
        coords = -np.abs(coords)
    kwargs = {"atnums": rng.integers(1, 119, size=natom), "atcoords": coords * U.angstrom}
    for key in ("run_type", "lot", "obasis_name", "title"):
        if spec[key] is not None:
            kwargs[key] = spec[key]
    charge, spinpol = spec["charge"], spec["spinpol"]
    core = kwargs["atnums"].astype(float)
    if spec.get("ecp"):
        # the charge of the molecule is (sum of the core charges) - (number of electrons)
        removed = np.minimum(core, rng.choice([0.0, 2.0, 10.0, 28.0], size=natom))
        removed[int(rng.integers(natom))] = min(core[0], 2.0) if natom == 1 else removed[int(rng.integers(natom))]
        core = core - removed
        kwargs["atcorenums"] = core
    if spec["with_mo"]:
        occs = np.array([2.0, 2.0, 1.0, 1.0, 0.0])
        kwargs["mo"] = MolecularOrbitals("restricted", 5, 5, occs=occs)
        spinpol = 2.0
        charge = float(core.sum() - 6.0)
    else:
        if charge is not None:
            kwargs["charge"] = charge
        if spinpol is not None:
            kwargs["spinpol"] = spinpol
    return IOData(**kwargs), charge, spinpol


def nearest(x):
    return int(np.floor(x + 0.5))


KW_VALUES = {"lot": "kwlot", "obasis_name": "kwbasis", "run_type": "kwrun", "charge": 7, "spinmult": 9,
             "title": "kwtitle", "custom": "kwcustom"}


def user_template(fields):
    parts = [f"{name.upper()}=<{{{name}}}>" for name in sorted(fields)]
    return "HEADER " + " ".join(parts) + "\nGEOM_BEGIN\n{geometry}\nGEOM_END\n"


def check_case(spec, tmpdir):
    from iodata import write_input
    from iodata.utils import FileFormatError, WriteInputError

    data, charge, spinpol = build(spec)
    program = spec["program"]
    path = os.path.join(tmpdir, "job.in")
    call_kwargs = {}
    tmpl_fields = None
    if spec["template"].startswith("user"):
        tmpl_fields = set(spec["user_fields"])
        if spec["template"] == "user_partial":
            tmpl_fields -= {"custom"}
        if spec["template"] == "user_bad_field":
            tmpl_fields |= {"no_such_field"}
        call_kwargs["template"] = user_template(tmpl_fields)
    kw = {name: KW_VALUES[name] for name in spec["kwargs"]}
    call_kwargs.update(kw)
    if spec["atom_line"] == "custom":
        call_kwargs["atom_line"] = lambda d, i: f"ATOM {i} Z={int(d.atnums[i])} {d.atcoords[i, 0]:.8f}"
    elif spec["atom_line"] == "raises":
        call_kwargs["atom_line"] = lambda d, i: [][i]
    # ---- expected outcome ------------------------------------------------------------------------
    problems = []
    labels = [f"program:{program}", f"template:{spec['template']}"]
    known_program = program in ("gaussian", "orca")
    rt_table = GAUSSIAN_RT if program == "gaussian" else ORCA_RT
    rt_key = (spec["run_type"] or "energy").lower()
    needs_custom = tmpl_fields is not None and "custom" in tmpl_fields and "custom" not in kw
    bad_field = tmpl_fields is not None and "no_such_field" in tmpl_fields
    title_has_braces = False
    expect_error = None
    if not known_program:
        expect_error = "FileFormatError"
    elif rt_key not in rt_table or needs_custom or bad_field or spec["atom_line"] == "raises":
        expect_error = "WriteInputError"
    with warnings.catch_warnings(record=True):
        warnings.simplefilter("always")
        try:
            write_input(data, path, program, **call_kwargs)
            outcome = "ok"
        except FileFormatError:
            outcome = "FileFormatError"
        except WriteInputError:
            outcome = "WriteInputError"
        except Exception as exc:  # noqa: BLE001
            outcome = type(exc).__name__
    text = None
    if os.path.exists(path):
        with open(path) as fh:
            text = fh.read()
        os.remove(path)
    if expect_error is not None:
        if outcome != expect_error:
            problems.append(Problem(f"C19/{program}/expected_{expect_error}", f"got {outcome} for {spec}"))
        return problems, False, labels + [f"outcome:{outcome}"]
    if outcome != "ok":
        problems.append(Problem(f"C19/{program}/unexpected_error", f"{outcome} for a renderable input"))
        return problems, False, labels
    # ---- expected content --------------------------------------------------------------------------
    exp = {
        "lot": data.lot or DEFAULTS[program][0],
        "obasis_name": data.obasis_name or DEFAULTS[program][1],
        "run_type": rt_table[rt_key],
        "charge": 0 if charge is None else nearest(charge),
        "spinmult": 1 if spinpol is None else nearest(abs(spinpol)) + 1,
        "title": data.title if data.title is not None else "Input Generated by IOData",
    }
    exp.update(kw)
    lines = text.split("\n")
    if tmpl_fields is None:
        if program == "gaussian":
            head_ok = lines[0] == f"#n {exp['lot']}/{exp['obasis_name']} {exp['run_type']}" and lines[1] == ""
            title_ok = lines[2] == str(exp["title"]) and lines[3] == ""
            cm = lines[4]
            geom = lines[5 : 5 + spec["natom"]]
            tail_ok = lines[5 + spec["natom"] :] == ["", "", ""]
        else:
            head_ok = lines[0] == f"! {exp['lot']} {exp['obasis_name']} {exp['run_type']}"
            title_ok = lines[1] == f"# {exp['title']}"
            cm = lines[2].replace("*xyz ", "", 1) if lines[2].startswith("*xyz ") else "?"
            geom = lines[3 : 3 + spec["natom"]]
            tail_ok = lines[3 + spec["natom"] :] == ["*", ""]
        if not head_ok:
            problems.append(Problem(f"C19/{program}/keywords", f"first line {lines[0]!r}, expected lot={exp['lot']} basis={exp['obasis_name']} run={exp['run_type']}"))
        if not title_ok:
            problems.append(Problem(f"C19/{program}/title", f"title line wrong: {lines[1:4]!r} vs {exp['title']!r}"))
        if cm.split() != [str(exp["charge"]), str(exp["spinmult"])]:
            bucket = "charge" if cm.split()[:1] != [str(exp["charge"])] else "multiplicity"
            problems.append(
                Problem(f"C19/{program}/{bucket}",
                        f"charge/multiplicity line {cm!r}, expected {exp['charge']} {exp['spinmult']} "
                        f"(charge={charge!r}, spinpol={spinpol!r})")
            )
        if not tail_ok:
            problems.append(Problem(f"C19/{program}/geometry_count", f"text after {spec['natom']} geometry lines: {lines[-4:]!r}"))
    else:
        header = lines[0]
        for name in sorted(tmpl_fields):
            m = re.search(rf"{name.upper()}=<(.*?)>", header)
            if m is None or m.group(1) != str(exp[name]):
                problems.append(Problem(f"C19/{program}/template_field/{name}",
                                        f"{name}: {m.group(1) if m else None!r}, expected {exp[name]!r}"))
        try:
            i0, i1 = lines.index("GEOM_BEGIN"), lines.index("GEOM_END")
            geom = lines[i0 + 1 : i1]
        except ValueError:
            geom = []
            problems.append(Problem(f"C19/{program}/template_geometry", "geometry block not found"))
    if len(geom) != spec["natom"]:
        problems.append(Problem(f"C19/{program}/geometry_count", f"{len(geom)} geometry lines for {spec['natom']} atoms"))
    else:
        for i, line in enumerate(geom):
            if spec["atom_line"] == "custom":
                want = f"ATOM {i} Z={int(data.atnums[i])} {data.atcoords[i, 0]:.8f}"
                ok = line == want
            else:
                words = line.split()
                xyz = data.atcoords[i] / U.angstrom
                ok = (
                    len(words) == 4 and words[0] == NUM2SYM[int(data.atnums[i])]
                    and all(abs(float(w) - x) <= 0.51e-6 + 2e-9 * abs(x) for w, x in zip(words[1:], xyz))
                )
            if not ok:
                problems.append(Problem(f"C19/{program}/geometry_line", f"atom {i}: {line!r}"))
                break
    nontrivial = (
        (charge is not None and charge != int(charge)) or (spinpol is not None and spinpol != int(spinpol))
        or tmpl_fields is not None or bool(kw)
    )
    del title_has_braces
    return problems, bool(nontrivial), labels + ["rendered"]


def shard_inputs(ctx, max_examples):
    tmpdir = ctx.tmpdir
    drive(ctx, case, lambda s: check_case(s, tmpdir), max_examples, name="inputs")


def shards(tier, seed):
    big = tier == "thorough"
    return [(f"inputs{i}", "shard_inputs", {"max_examples": 50000 if big else 300}) for i in range(8)]


def replay(entry):
    import shutil
    import tempfile

    spec = dict(entry["spec"])
    spec["user_fields"] = set(spec["user_fields"])
    spec["kwargs"] = set(spec["kwargs"])
    tmpdir = tempfile.mkdtemp(prefix="ivp_c19_replay_")
    try:
        return check_case(spec, tmpdir)[0]
    finally:
        shutil.rmtree(tmpdir, ignore_errors=True)
