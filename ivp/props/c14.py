"""C14 - basis segmentation and orbital un-restriction preserve the physics."""

from __future__ import annotations

import warnings

import numpy as np
from hypothesis import strategies as st

from ..gen import wf
from ..oracles import gaussians as G
from ..oracles import overlap as O
from ..oracles import snapshot as S
from ..runner import Problem, drive

ID = "C14"
LEVEL = "exploration"
RULE = (
    "Hypothesis draws bases mixing segmented / SP / generalized shells (1..5 contractions, mixed "
    "l and kinds, any conventions) x keep_sp, and restricted / unrestricted / generalized orbital "
    "sets (integer open-shell, fractional, explicit occs_aminusb, missing optional arrays). "
    "Oracles: E evaluates every basis function of the converted basis on probe points, O gives "
    "the overlap; alpha/beta occupations from the documented rules. Non-trivial = basis with a "
    "generalized shell that is not SP, or a restricted set that must actually be converted "
    "(open shell or occs_aminusb). Distinct by spec hash."
)
ASSUMPTIONS = [
    "oracles E and O (self-tested against quadrature) define 'same basis functions'",
    "alpha/beta occupations of restricted orbitals follow the rules in the MolecularOrbitals "
    "class documentation",
]


def selftest():
    G.selftest(5)
    O.selftest()


case_basis = st.fixed_dictionaries(
    {
        "kind": st.just("segment"),
        "basis": wf.st_basis(
            max_l_cart=5, max_l_pure=5, max_con=5, max_shells=6, max_prim=3, max_nbasis=90
        ),
        "keep_sp": st.booleans(),
    }
)

case_mo = st.fixed_dictionaries(
    {
        "kind": st.just("unrestrict"),
        "basis": wf.st_basis(max_l_cart=2, max_l_pure=2, max_con=1, max_shells=4, general=False,
                             max_nbasis=20),
        "mo": wf.st_mo(kinds=("restricted", "restricted", "restricted", "unrestricted", "generalized")),
        "drop": st.sets(st.sampled_from(["occs", "coeffs", "energies", "irreps"]), max_size=2),
    }
)


def shells_equal(sh1, sh2):
    return (
        sh1.icenter == sh2.icenter
        and np.array_equal(sh1.angmoms, sh2.angmoms)
        and np.array_equal(sh1.kinds, sh2.kinds)
        and np.array_equal(sh1.exponents, sh2.exponents)
        and np.array_equal(sh1.coeffs, sh2.coeffs)
    )


def is_sp(angmoms):
    return list(angmoms) == [0, 1]


def check_segment(spec):
    from iodata import IOData
    from iodata.convert import convert_to_segmented
    from iodata.prepare import prepare_segmented
    from iodata.utils import PrepareDumpError, PrepareDumpWarning

    plain = wf.build_basis(spec["basis"])
    keep_sp = spec["keep_sp"]
    obasis = wf.to_iodata_basis(plain)
    before = S.snap(obasis)
    problems = []
    try:
        seg = convert_to_segmented(obasis, keep_sp)
    except Exception as exc:
        return [Problem("C14/segment/exception", f"convert_to_segmented raised {exc!r}")]
    if S.snap(obasis) != before:
        problems.append(
            Problem("C14/segment/mutates_input", S.first_diff(before, S.snap(obasis)))
        )
    # structure: only single contractions (or SP when kept)
    for sh in seg.shells:
        ok = len(sh.angmoms) == 1 or (keep_sp and is_sp(sh.angmoms))
        if not ok:
            problems.append(
                Problem("C14/segment/not_segmented", f"shell with angmoms {list(sh.angmoms)} left")
            )
            break
    nsp_in = sum(is_sp(sh["angmoms"]) for sh in plain["shells"])
    nsp_out = sum(is_sp(sh.angmoms) for sh in seg.shells)
    if nsp_out != (nsp_in if keep_sp else 0):
        problems.append(
            Problem(
                "C14/segment/sp_shells",
                f"keep_sp={keep_sp}: {nsp_in} SP shells in, {nsp_out} SP shells out",
            )
        )
    if seg.conventions != obasis.conventions or seg.primitive_normalization != "L2":
        problems.append(Problem("C14/segment/conventions", "conventions or normalisation changed"))
    # same functions in the same order, function by function
    centers = plain["centers"]
    try:
        seg_plain = G.spec_from_iodata(seg, centers)
        pts = G.probe_points(plain, spec["basis"]["payload_seed"], 25)
        v0 = G.eval_basis(plain, pts)
        v1 = G.eval_basis(seg_plain, pts)
    except Exception as exc:
        problems.append(Problem("C14/segment/unreadable_result", f"{exc!r}"))
        return problems
    if v0.shape != v1.shape:
        problems.append(
            Problem("C14/segment/nbasis", f"{v0.shape[0]} functions became {v1.shape[0]}")
        )
        return problems
    scale = np.abs(v0).max(axis=1, keepdims=True) + 1e-300
    err = np.abs(v1 - v0) / scale
    if err.max() > 1e-12:
        ibad = int(np.argmax(err.max(axis=1)))
        problems.append(
            Problem(
                "C14/segment/function_values",
                f"basis function {ibad} differs after segmentation (rel. err {err.max():.2e})",
            )
        )
    # centres, function by function
    c0 = [f["ishell"] for f in G.function_list(plain)]
    c0 = [plain["shells"][i]["icenter"] for i in c0]
    c1 = [seg_plain["shells"][f["ishell"]]["icenter"] for f in G.function_list(seg_plain)]
    if c0 != c1:
        problems.append(Problem("C14/segment/centers", "functions moved to other centres"))
    s0 = O.overlap(plain)
    s1 = O.overlap(seg_plain)
    if np.abs(s0 - s1).max() > 1e-12 * max(1.0, np.abs(s0).max()):
        problems.append(Problem("C14/segment/overlap", "overlap matrix changed"))
    # idempotent
    try:
        seg2 = convert_to_segmented(seg, keep_sp)
        same = len(seg2.shells) == len(seg.shells) and all(
            shells_equal(a, b) for a, b in zip(seg.shells, seg2.shells)
        )
        if not same or seg2.conventions != seg.conventions:
            problems.append(Problem("C14/segment/idempotent", "second conversion changed data"))
    except Exception as exc:
        problems.append(Problem("C14/segment/idempotent", f"second conversion raised {exc!r}"))
    # pre-dump preparation
    needs = any(
        not (len(sh["angmoms"]) == 1 or (keep_sp and is_sp(sh["angmoms"])))
        for sh in plain["shells"]
    )
    data = IOData(atnums=np.ones(len(centers), dtype=int), atcoords=centers, obasis=obasis)
    for allow in (False, True):
        with warnings.catch_warnings(record=True) as wlist:
            warnings.simplefilter("always")
            try:
                out = prepare_segmented(data, keep_sp, allow, "dummy.ext", "FMT")
                outcome = "ok"
            except PrepareDumpError:
                outcome = "PrepareDumpError"
            except Exception as exc:
                outcome = repr(exc)
        warned = any(issubclass(w.category, PrepareDumpWarning) for w in wlist)
        tag = f"needs={needs},allow={allow}"
        if not needs:
            if outcome != "ok" or out is not data or wlist:
                problems.append(
                    Problem(
                        "C14/prepare_segmented/identity",
                        f"{tag}: outcome {outcome}, same object {outcome == 'ok' and out is data}, "
                        f"warnings {len(wlist)}",
                    )
                )
        elif not allow:
            if outcome != "PrepareDumpError":
                problems.append(Problem("C14/prepare_segmented/no_error", f"{tag}: {outcome}"))
        else:
            if outcome != "ok":
                problems.append(Problem("C14/prepare_segmented/raises", f"{tag}: {outcome}"))
                continue
            if not warned:
                problems.append(Problem("C14/prepare_segmented/no_warning", tag))
            if out is data or out.obasis is obasis:
                problems.append(Problem("C14/prepare_segmented/not_converted", tag))
            elif not (
                len(out.obasis.shells) == len(seg.shells)
                and all(shells_equal(a, b) for a, b in zip(out.obasis.shells, seg.shells))
            ):
                problems.append(Problem("C14/prepare_segmented/differs", tag))
            if data.obasis is not obasis or S.snap(obasis) != before:
                problems.append(Problem("C14/prepare_segmented/mutates_input", tag))
    return problems


def body_segment(spec):
    problems = check_segment(spec)
    cons = [sh["cons"] for sh in spec["basis"]["shells"]]
    general = any(len(c) > 1 and [x[0] for x in c] != [0, 1] for c in cons)
    sp = any([x[0] for x in c] == [0, 1] for c in cons)
    labels = [
        "seg:generalized" if general else ("seg:sp_only" if sp else "seg:segmented"),
        f"seg:keep_sp={spec['keep_sp']}",
    ]
    return problems, general, labels


def density(plain, occs, coeffs, pts):
    vals = G.eval_orbitals(plain, coeffs, pts)
    return (np.asarray(occs)[:, None] * vals**2).sum(axis=0)


def check_unrestrict(spec):
    from iodata import IOData
    from iodata.convert import convert_to_unrestricted
    from iodata.prepare import prepare_unrestricted_aminusb
    from iodata.utils import PrepareDumpError, PrepareDumpWarning

    plain = wf.build_basis(spec["basis"])
    mo = wf.build_mo(spec["mo"], plain)
    for name in spec["drop"]:
        mo[name] = None
    if mo["occs"] is None:
        mo["occs_aminusb"] = None
    problems = []
    try:
        mo_obj = wf.to_iodata_mo(mo)
    except Exception as exc:
        return [Problem("C14/unrestrict/construct", f"valid orbitals refused: {exc!r}")]
    before = S.snap(mo_obj)
    kind = mo["kind"]
    try:
        new = convert_to_unrestricted(mo_obj)
        outcome = "ok"
    except Exception as exc:
        outcome = repr(exc)
    if kind == "generalized":
        if outcome == "ok":
            problems.append(Problem("C14/unrestrict/generalized_accepted", "no error"))
        return problems
    if outcome != "ok":
        return [Problem("C14/unrestrict/exception", outcome)]
    if S.snap(mo_obj) != before:
        problems.append(Problem("C14/unrestrict/mutates_input", S.first_diff(before, S.snap(mo_obj))))
    if kind == "unrestricted":
        if new is not mo_obj:
            problems.append(Problem("C14/unrestrict/identity", "unrestricted input was copied"))
        return problems
    # restricted -> unrestricted
    norb = mo["norba"]
    if new.kind != "unrestricted" or new.norba != norb or new.norbb != norb:
        problems.append(
            Problem("C14/unrestrict/counts", f"{new.kind} norba={new.norba} norbb={new.norbb}")
        )
        return problems
    if mo["occs"] is not None:
        ra, rb = wf.spin_occupations(mo)
        for name, ref in (("occsa", ra), ("occsb", rb)):
            got = getattr(new, name)
            if got is None or np.abs(np.asarray(got) - ref).max() > 1e-12:
                problems.append(Problem(f"C14/unrestrict/{name}", f"{got} != {ref}"))
        nelec, spinpol = ra.sum() + rb.sum(), abs(ra.sum() - rb.sum())
        if abs(new.nelec - nelec) > 1e-10 or abs(mo_obj.nelec - nelec) > 1e-10:
            problems.append(Problem("C14/unrestrict/nelec", f"{mo_obj.nelec} -> {new.nelec}, ref {nelec}"))
        if abs(new.spinpol - spinpol) > 1e-10:
            problems.append(Problem("C14/unrestrict/spinpol", f"{new.spinpol} != {spinpol}"))
        if abs(mo_obj.spinpol - new.spinpol) > 1e-10:
            problems.append(
                Problem("C14/unrestrict/spinpol_changed", f"{mo_obj.spinpol} -> {new.spinpol}")
            )
    elif new.occs is not None:
        problems.append(Problem("C14/unrestrict/occs_invented", "occupations appeared"))
    for name in ("coeffs", "energies", "irreps"):
        orig = mo[name]
        ga, gb = getattr(new, name + "a"), getattr(new, name + "b")
        if orig is None:
            if ga is not None or gb is not None:
                problems.append(Problem(f"C14/unrestrict/{name}_invented", "appeared"))
            continue
        if ga is None or gb is None or not (np.array_equal(ga, orig) and np.array_equal(gb, orig)):
            problems.append(Problem(f"C14/unrestrict/{name}", "alpha/beta copies differ from source"))
    if mo["occs"] is not None and mo["coeffs"] is not None and not problems:
        pts = G.probe_points(plain, spec["mo"]["mo_seed"], 12)
        ra, rb = wf.spin_occupations(mo)
        da, db = density(plain, ra, mo["coeffs"], pts), density(plain, rb, mo["coeffs"], pts)
        na = density(plain, new.occsa, new.coeffsa, pts)
        nb = density(plain, new.occsb, new.coeffsb, pts)
        scale = np.abs(da + db).max() + 1e-300
        if np.abs((na + nb) - (da + db)).max() > 1e-12 * scale:
            problems.append(Problem("C14/unrestrict/density", "total density changed"))
        if np.abs((na - nb) - (da - db)).max() > 1e-12 * scale:
            problems.append(Problem("C14/unrestrict/spin_density", "spin density changed"))
    # idempotent
    again = convert_to_unrestricted(new)
    if again is not new:
        problems.append(Problem("C14/unrestrict/idempotent", "second conversion made a copy"))
    # pre-dump preparation
    natom = len(plain["centers"])
    data = IOData(atnums=np.ones(natom, dtype=int), atcoords=plain["centers"], mo=mo_obj)
    needs = mo.get("occs_aminusb") is not None
    for allow in (False, True):
        with warnings.catch_warnings(record=True) as wlist:
            warnings.simplefilter("always")
            try:
                out = prepare_unrestricted_aminusb(data, allow, "dummy.ext", "FMT")
                outcome = "ok"
            except PrepareDumpError:
                outcome = "PrepareDumpError"
            except Exception as exc:
                outcome = repr(exc)
        warned = any(issubclass(w.category, PrepareDumpWarning) for w in wlist)
        tag = f"needs={needs},allow={allow}"
        if not needs:
            if outcome != "ok" or out is not data or wlist:
                problems.append(Problem("C14/prepare_unrestricted/identity", f"{tag}: {outcome}"))
        elif not allow:
            if outcome != "PrepareDumpError":
                problems.append(Problem("C14/prepare_unrestricted/no_error", f"{tag}: {outcome}"))
        else:
            if outcome != "ok":
                problems.append(Problem("C14/prepare_unrestricted/raises", f"{tag}: {outcome}"))
                continue
            if not warned:
                problems.append(Problem("C14/prepare_unrestricted/no_warning", tag))
            if out is data or out.mo is mo_obj or out.mo.kind != "unrestricted":
                problems.append(Problem("C14/prepare_unrestricted/not_converted", tag))
            elif S.snap(out.mo) != S.snap(new):
                problems.append(
                    Problem("C14/prepare_unrestricted/differs", S.first_diff(S.snap(new), S.snap(out.mo)))
                )
            if data.mo is not mo_obj or S.snap(mo_obj) != before:
                problems.append(Problem("C14/prepare_unrestricted/mutates_input", tag))
    return problems


def body_unrestrict(spec):
    try:
        problems = check_unrestrict(spec)
    except wf.DegenerateBasis:
        # numerically linearly dependent basis: orthonormal orbitals cannot be constructed on it
        return [], False, ["degenerate_basis_skipped"]
    mo = spec["mo"]
    nontrivial = mo["kind"] == "restricted" and (
        mo["aminusb"] or mo["occ"] in ("open_integer", "fractional")
    )
    labels = [
        f"mo:{mo['kind']}",
        f"mo:occ={mo['occ']}",
        f"mo:aminusb={mo['aminusb']}",
        "mo:dropped=" + ",".join(sorted(spec["drop"])),
    ]
    return problems, nontrivial, labels


def shard_segment(ctx, max_examples):
    drive(ctx, case_basis, body_segment, max_examples, name="segment")


def shard_unrestrict(ctx, max_examples):
    drive(ctx, case_mo, body_unrestrict, max_examples, name="unrestrict")


def shard_rejections(ctx):
    """prepare_* on objects without the needed attribute / generalized orbitals raise."""
    from iodata import IOData
    from iodata.orbitals import MolecularOrbitals
    from iodata.prepare import prepare_segmented, prepare_unrestricted_aminusb

    cases = [
        ("prepare_segmented/no_basis", lambda: prepare_segmented(IOData(), False, True, "f", "F")),
        ("prepare_unrestricted/no_mo", lambda: prepare_unrestricted_aminusb(IOData(), True, "f", "F")),
        (
            "prepare_unrestricted/generalized",
            lambda: prepare_unrestricted_aminusb(
                IOData(mo=MolecularOrbitals("generalized", None, None, occs=[1.0, 0.0])), True, "f", "F"
            ),
        ),
    ]
    for name, call in cases:
        spec = {"kind": "rejection", "name": name}
        problems = []
        try:
            call()
            problems.append(Problem(f"C14/{name}/accepted", "no error raised"))
        except Exception:
            pass
        ctx.record(spec, False, ["rejection"])
        ctx.report(spec, problems)


def shards(tier, seed):
    big = tier == "thorough"
    out = [("rejections", "shard_rejections", {})]
    for i in range(8):
        out.append((f"segment{i}", "shard_segment", {"max_examples": 8000 if big else 250}))
    for i in range(7):
        out.append((f"unrestrict{i}", "shard_unrestrict", {"max_examples": 8000 if big else 300}))
    return out


def replay(entry):
    spec = entry["spec"]
    if spec["kind"] == "segment":
        return check_segment(spec)
    if spec["kind"] == "unrestrict":
        spec = dict(spec, drop=set(spec["drop"]))
        return check_unrestrict(spec)
    return []
