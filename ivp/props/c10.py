"""C10 - basis-function convention conversion is an exact signed permutation."""

from __future__ import annotations

import itertools
import sys

import numpy as np
from hypothesis import strategies as st

from ..runner import Problem, drive

ID = "C10"
LEVEL = "exploration"
RULE = (
    "(i) exhaustive: every ordered pair of convention tables found in the code base (every "
    "iodata module with a CONVENTIONS dict, HORTON2, CCA, the ORCA table) on every shared shell "
    "type, and every table entry checked for listing each function exactly once; (ii) all "
    "single-label corruptions (delete / duplicate / foreign) of every table entry; (iii) "
    "Hypothesis: random shell sequences (l<=9, generalized contractions) x three random "
    "conventions A,B,C (random permutations and sign flips). Oracle = label -> (position, sign) "
    "dictionaries applied to integer vectors, compared exactly. Non-trivial = the permutation is "
    "not the identity or a sign flip is present; distinct by spec hash."
)
ASSUMPTIONS = [
    "the canonical label set of a shell type is the one defined in docs/basis.rst",
    "any exception counts as a rejection of a malformed convention",
]


def canonical_labels(angmom, kind):
    if kind == "c":
        if angmom == 0:
            return ["1"]
        out = []
        for nx in range(angmom, -1, -1):
            for ny in range(angmom - nx, -1, -1):
                out.append("x" * nx + "y" * ny + "z" * (angmom - nx - ny))
        return out
    out = ["c0"]
    for m in range(1, angmom + 1):
        out += [f"c{m}", f"s{m}"]
    return out


def split(label):
    return (label[1:], -1) if label.startswith("-") else (label, 1)


def reference_convert(conv1, conv2, vec1):
    """Move the function labelled X in conv1 to the position labelled X in conv2."""
    where = {}
    for i, lab in enumerate(conv1):
        name, sign = split(lab)
        where[name] = (i, sign)
    out = []
    for lab in conv2:
        name, sign2 = split(lab)
        i, sign1 = where[name]
        out.append(sign1 * sign2 * vec1[i])
    return out


# ----------------------------------------------------------------------------------------------
# discovery of the tables (as data)
# ----------------------------------------------------------------------------------------------


def find_tables():
    import iodata.api  # noqa: F401  (imports every format module)
    import iodata.convert as conv

    tables = {}
    for name, mod in sorted(sys.modules.items()):
        if not name.startswith("iodata.") or mod is None or ".test" in name:
            continue
        table = getattr(mod, "CONVENTIONS", None)
        if isinstance(table, dict) and table:
            if all(isinstance(k, tuple) and len(k) == 2 for k in table):
                tables[name.split(".")[-1]] = table
    tables["HORTON2"] = conv.HORTON2_CONVENTIONS
    tables["CCA"] = conv.CCA_CONVENTIONS
    try:
        from iodata.overlap import OVERLAP_CONVENTIONS

        tables["OVERLAP"] = OVERLAP_CONVENTIONS
    except Exception:
        pass
    skipped = []
    fix = None
    try:
        import iodata.formats.molden as molden

        fix = getattr(molden, "_fix_obasis_orca", None)
    except Exception:
        pass
    if fix is None:
        skipped.append("orca_table")
    else:
        from iodata.basis import MolecularBasis, Shell

        shells = [Shell(0, [l], ["c"], [1.0], [[1.0]]) for l in (0, 1)]
        shells += [Shell(0, [l], ["p"], [1.0], [[1.0]]) for l in (2, 3, 4)]
        try:
            fixed = fix(MolecularBasis(shells, molden.CONVENTIONS, "L2"))
            tables["ORCA"] = fixed.conventions
        except Exception:
            skipped.append("orca_table")
    return tables, skipped


def one_shell_basis(key, conventions):
    from iodata.basis import MolecularBasis, Shell

    angmom, kind = key
    return MolecularBasis([Shell(0, [angmom], [kind], [1.0], [[1.0]])], conventions, "L2")


def apply_conversion(obasis, new_conventions, vec, reverse=False):
    from iodata.convert import convert_conventions

    perm, signs = convert_conventions(obasis, new_conventions, reverse)
    perm = np.asarray(perm)
    signs = np.asarray(signs)
    if perm.shape != (len(vec),) or signs.shape != (len(vec),):
        raise AssertionError(f"shape of permutation {perm.shape} / signs {signs.shape}")
    if sorted(perm.tolist()) != list(range(len(vec))):
        raise AssertionError("not a permutation")
    if not set(np.unique(signs).tolist()) <= {1, -1}:
        raise AssertionError("signs are not +-1")
    return (np.asarray(vec)[perm] * signs).tolist()


# ----------------------------------------------------------------------------------------------
# (i) tables: well-formedness and all ordered pairs
# ----------------------------------------------------------------------------------------------


def shard_tables(ctx):
    tables, skipped = find_tables()
    for name in skipped:
        ctx.skipped[name] += 1
    ctx.extra["tables"] = 0
    for tname, table in tables.items():
        ctx.count(tables=1)
        for key, labels in table.items():
            spec = {"kind": "table_entry", "table": tname, "key": list(key)}
            problems = []
            angmom, kind = key
            names = [split(lab)[0] for lab in labels]
            if sorted(names) != sorted(canonical_labels(angmom, kind)):
                problems.append(
                    Problem(
                        f"C10/table/{tname}/{angmom}{kind}",
                        f"{tname}[{key}] = {labels} does not list each function exactly once",
                    )
                )
            if kind == "p" and angmom < 2 and tname not in ("ORCA",):
                pass
            ctx.record(spec, angmom >= 2, ["table_entry"])
            ctx.report(spec, problems)
    names = sorted(tables)
    for t1, t2 in itertools.product(names, names):
        shared = sorted(set(tables[t1]) & set(tables[t2]))
        for key in shared:
            conv1, conv2 = tables[t1][key], tables[t2][key]
            spec = {"kind": "table_pair", "from": t1, "to": t2, "key": list(key)}
            problems = check_pair(conv1, conv2, key, f"{t1}->{t2}")
            try:
                nontrivial = list(conv1) != list(conv2)
            except Exception:
                nontrivial = True
            ctx.record(spec, nontrivial, ["table_pair"])
            ctx.report(spec, problems)


def check_pair(conv1, conv2, key, tag):
    problems = []
    n = len(conv1)
    vec = [3 + 2 * i for i in range(n)]
    try:
        want = reference_convert(conv1, conv2, vec)
    except Exception as exc:
        return [Problem(f"C10/pair/malformed_table/{tag}", f"{key}: {exc!r}")]
    try:
        got = apply_conversion(one_shell_basis(key, {key: conv1}), {key: conv2}, vec)
        back = apply_conversion(one_shell_basis(key, {key: conv1}), {key: conv2}, got, reverse=True)
        back2 = apply_conversion(one_shell_basis(key, {key: conv2}), {key: conv1}, got)
    except Exception as exc:
        return [Problem(f"C10/pair/exception/{tag}", f"{key}: conversion raised {exc!r}")]
    if got != want:
        problems.append(Problem(f"C10/pair/mapping/{tag}", f"{key}: got {got}, expected {want}"))
    if back != vec:
        problems.append(Problem(f"C10/pair/reverse/{tag}", f"{key}: reverse gives {back}"))
    if back2 != vec:
        problems.append(Problem(f"C10/pair/roundtrip/{tag}", f"{key}: there-and-back {back2}"))
    return problems


# ----------------------------------------------------------------------------------------------
# (ii) corruptions
# ----------------------------------------------------------------------------------------------


def corruptions(labels):
    """All single-label corruptions: delete, duplicate another label, foreign label."""
    n = len(labels)
    for i in range(n):
        yield ("delete", i, None), labels[:i] + labels[i + 1 :]
    for i in range(n):
        # complete for shell types up to 28 functions (l <= 6); for larger ones (the HORTON2 /
        # CCA tables go up to l = 24) a duplicate of a neighbouring, the first and the last label
        partners = range(n) if n <= 28 else sorted({(i + 1) % n, (i - 1) % n, 0, n - 1})
        for j in partners:
            if i != j:
                name_j = split(labels[j])[0]
                for prefix in ("", "-"):
                    yield ("duplicate", i, j, prefix), labels[:i] + [prefix + name_j] + labels[i + 1 :]
    for i in range(n):
        for foreign in ("q", "", "-", "xw", "c99", labels[i] + "x"):
            if split(foreign)[0] in [split(l)[0] for l in labels]:
                continue
            yield ("foreign", i, foreign), labels[:i] + [foreign] + labels[i + 1 :]
    yield ("append", n, "extra"), labels + [labels[0]]


def shard_corrupt(ctx, part, nparts):
    tables, _ = find_tables()
    items = []
    for tname in sorted(tables):
        for key in sorted(tables[tname]):
            items.append((tname, key))
    for idx, (tname, key) in enumerate(items):
        if idx % nparts != part:
            continue
        good = list(tables[tname][key])
        for what, bad in corruptions(good):
            # "both": the same duplicated label in the source and (rotated) in the target, so that
            # the two label sets agree and only the duplicate test itself can reject (C10-seed7)
            for direction in ("source", "target") + (("both",) if what[0] == "duplicate" else ()):
                for reverse in (False, True):
                    spec = {
                        "kind": "corrupt",
                        "table": tname,
                        "key": list(key),
                        "what": list(what),
                        "direction": direction,
                        "reverse": reverse,
                    }
                    tag = f"{what[0]}/{direction}" + ("/reverse" if reverse else "")
                    problems = check_corrupt(good, bad, key, direction, tag, reverse)
                    ctx.record(spec, True, [f"corrupt:{what[0]}"])
                    ctx.report(spec, problems)


def check_corrupt(good, bad, key, direction, tag, reverse=False):
    from iodata.convert import convert_conventions

    try:
        if direction == "source":
            out = convert_conventions(one_shell_basis(key, {key: bad}), {key: good}, reverse)
        elif direction == "both":
            out = convert_conventions(
                one_shell_basis(key, {key: bad}), {key: bad[1:] + bad[:1]}, reverse
            )
        else:
            out = convert_conventions(one_shell_basis(key, {key: good}), {key: bad}, reverse)
    except Exception:
        return []
    return [
        Problem(
            f"C10/corrupt/accepted/{tag}",
            f"{key}: corrupted convention {bad} ({direction}) accepted, result {out}",
        )
    ]


# ----------------------------------------------------------------------------------------------
# (iii) random bases x random conventions
# ----------------------------------------------------------------------------------------------


@st.composite
def random_case(draw):
    shell_type = st.one_of(
        st.tuples(st.integers(0, 9), st.just("c")), st.tuples(st.integers(2, 9), st.just("p"))
    )
    shells = draw(st.lists(st.lists(shell_type, min_size=1, max_size=4), min_size=1, max_size=6))
    keys = sorted({tuple(t) for sh in shells for t in sh})
    convs = []
    for _ in range(3):
        conv = {}
        for angmom, kind in keys:
            labels = canonical_labels(angmom, kind)
            perm = draw(st.permutations(labels))
            flips = draw(
                st.one_of(
                    st.just([False] * len(labels)),
                    st.lists(st.booleans(), min_size=len(labels), max_size=len(labels)),
                )
            )
            conv[f"{angmom}{kind}"] = [("-" if f else "") + lab for lab, f in zip(perm, flips)]
        convs.append(conv)
    return {"kind": "random", "shells": [[list(t) for t in sh] for sh in shells], "convs": convs}


def build_random(spec):
    from iodata.basis import MolecularBasis, Shell

    shells = []
    for i, sh in enumerate(spec["shells"]):
        ncon = len(sh)
        shells.append(
            Shell(
                i % 3,
                [t[0] for t in sh],
                [t[1] for t in sh],
                [1.0, 0.5],
                np.ones((2, ncon)),
            )
        )
    convs = []
    for conv in spec["convs"]:
        convs.append({(int(k[:-1]), k[-1]): list(v) for k, v in conv.items()})
    return shells, convs, MolecularBasis


def check_random(spec):
    shells, convs, MolecularBasis = build_random(spec)
    a, b, c = convs
    segs = [(t[0], t[1]) for sh in spec["shells"] for t in sh]
    nbasis = sum(len(canonical_labels(*seg)) for seg in segs)
    vec = [7 + 3 * i for i in range(nbasis)]

    def ref(conv1, conv2, vector):
        out = []
        offset = 0
        for seg in segs:
            n = len(conv1[seg])
            out += reference_convert(conv1[seg], conv2[seg], vector[offset : offset + n])
            offset += n
        return out

    problems = []
    try:
        ab = apply_conversion(MolecularBasis(shells, a, "L2"), b, vec)
        bc = apply_conversion(MolecularBasis(shells, b, "L2"), c, ab)
        ac = apply_conversion(MolecularBasis(shells, a, "L2"), c, vec)
        ba = apply_conversion(MolecularBasis(shells, b, "L2"), a, ab)
        rev = apply_conversion(MolecularBasis(shells, a, "L2"), b, ab, reverse=True)
    except Exception as exc:
        return [Problem("C10/random/exception", f"conversion raised {exc!r}")]
    if ab != ref(a, b, vec):
        problems.append(Problem("C10/random/mapping", f"A->B {ab} != {ref(a, b, vec)}"))
    if bc != ac:
        problems.append(Problem("C10/random/composition", "A->B->C != A->C"))
    if ac != ref(a, c, vec):
        problems.append(Problem("C10/random/mapping", "A->C differs from the reference"))
    if ba != vec:
        problems.append(Problem("C10/random/roundtrip", "A->B->A is not the identity"))
    if rev != vec:
        problems.append(Problem("C10/random/reverse", "reverse=True is not the inverse"))
    problems += check_applied(spec, shells, a, b, segs, nbasis, ref, MolecularBasis)
    problems += check_edited_and_omitted(shells, a, b, segs, vec, ref, MolecularBasis)
    return problems


def check_edited_and_omitted(shells, a, b, segs, vec, ref, MolecularBasis):
    """(1) The same convention *objects* used again after an in-place edit: the conversion follows
    the labels they hold now (swap of two labels, a sign flip), and an in-place corruption is
    rejected.  (2) A target dictionary that omits a shell type of the basis is rejected."""
    problems = []
    key = max(segs, key=lambda seg: len(a[seg]))
    target = {k: list(v) for k, v in b.items()}  # these very list objects are edited below
    basis = MolecularBasis(shells, a, "L2")
    try:
        apply_conversion(basis, target, vec)
        labels = target[key]
        if len(labels) >= 2:
            labels[0], labels[-1] = labels[-1], labels[0]
        labels[0] = labels[0][1:] if labels[0].startswith("-") else "-" + labels[0]
        got = apply_conversion(basis, target, vec)
        if got != ref(a, target, vec):
            problems.append(Problem("C10/edited/mapping", f"after an in-place edit of the target entry {key} the conversion does not follow the new labels"))
        saved = labels[-1]
        if len(labels) >= 2:
            labels[-1] = labels[0].lstrip("-")  # duplicate label, same length
            try:
                apply_conversion(basis, target, vec)
                problems.append(Problem("C10/edited/corruption_accepted", f"in-place duplicated label in entry {key} accepted"))
            except Exception:  # noqa: BLE001 - rejection is what the statement asks for
                pass
            labels[-1] = saved
    except Exception as exc:  # noqa: BLE001
        problems.append(Problem("C10/edited/exception", f"{exc!r}"))
    for missing in sorted(set(segs)):
        partial = {k: v for k, v in b.items() if k != missing}
        try:
            apply_conversion(basis, partial, vec)
            problems.append(Problem("C10/omitted_key/accepted", f"target conventions without an entry for shell type {missing} accepted"))
            break
        except Exception:  # noqa: BLE001
            pass
    return problems


def check_applied(spec, shells, a, b, segs, nbasis, ref, MolecularBasis):
    """The conversion as *applied* by the library's own consumer (the overlap code, listed among
    the property's files): overlap matrices of one basis in conventions A and B are related by the
    reference signed permutation.  Small bases only (cost)."""
    if nbasis > 40 or max(seg[0] for seg in segs) > 4:
        return []
    try:
        from iodata.overlap import compute_overlap
    except Exception:  # noqa: BLE001
        return []
    centers = np.array([[0.0, 0.0, 0.0], [0.3, -0.9, 1.1], [-1.2, 0.4, 0.7]])
    try:
        sa = compute_overlap(MolecularBasis(shells, a, "L2"), centers)
        sb = compute_overlap(MolecularBasis(shells, b, "L2"), centers)
    except Exception as exc:  # noqa: BLE001
        return [Problem("C10/applied/exception", f"compute_overlap raised {exc!r}")]
    tagged = ref(a, b, [i + 1 for i in range(nbasis)])  # +-(source index + 1) at each target position
    src = np.array([abs(t) - 1 for t in tagged])
    sgn = np.array([1.0 if t > 0 else -1.0 for t in tagged])
    want = sgn[:, None] * sgn[None, :] * sa[np.ix_(src, src)]
    if sb.shape != want.shape or np.abs(sb - want).max() > 1e-10 * (1 + np.abs(want).max()):
        return [Problem("C10/applied/overlap", "overlap matrices in conventions A and B are not related by the signed permutation")]
    return []


def body_random(spec):
    problems = check_random(spec)
    a, b = spec["convs"][0], spec["convs"][1]
    nontrivial = a != b
    gen = any(len(sh) > 1 for sh in spec["shells"])
    lmax = max(t[0] for sh in spec["shells"] for t in sh)
    labels = [f"random:lmax={lmax}", "random:generalized" if gen else "random:segmented"]
    return problems, nontrivial, labels


def shard_random(ctx, max_examples):
    drive(ctx, random_case(), body_random, max_examples, name="random")


def shards(tier, seed):
    big = tier == "thorough"
    out = [("tables", "shard_tables", {})]
    nparts = 6
    for part in range(nparts):
        out.append((f"corrupt{part}", "shard_corrupt", {"part": part, "nparts": nparts}))
    nr = 8
    for i in range(nr):
        out.append((f"random{i}", "shard_random", {"max_examples": 20000 if big else 250}))
    return out


def replay(entry):
    spec = entry["spec"]
    kind = spec["kind"]
    tables, _ = find_tables()
    if kind == "random":
        return check_random(spec)
    if kind == "table_pair":
        key = tuple(spec["key"])
        return check_pair(
            tables[spec["from"]][key], tables[spec["to"]][key], key, f"{spec['from']}->{spec['to']}"
        )
    if kind == "table_entry":
        key = tuple(spec["key"])
        labels = tables[spec["table"]][key]
        names = [split(lab)[0] for lab in labels]
        if sorted(names) != sorted(canonical_labels(*key)):
            return [Problem(f"C10/table/{spec['table']}/{key[0]}{key[1]}", f"{labels}")]
        return []
    if kind == "corrupt":
        key = tuple(spec["key"])
        good = list(tables[spec["table"]][key])
        for what, bad in corruptions(good):
            if list(what) == spec["what"] or [str(w) for w in what] == [str(w) for w in spec["what"]]:
                rev = bool(spec.get("reverse"))
                tag = f"{what[0]}/{spec['direction']}" + ("/reverse" if rev else "")
                return check_corrupt(good, bad, key, spec["direction"], tag, rev)
        return []
    raise ValueError(kind)
