"""C15 - after one save/reload cycle, further cycles change nothing."""

from __future__ import annotations

import glob
import json
import os
import warnings

from ..gen import objects as OBJ
from ..gen import wf
from ..oracles import snapshot as S
from ..runner import Problem, drive

ID = "C15"
LEVEL = "exploration"
RULE = (
    "Generated objects of the 13 read/write formats (same domain as C02) and every file of the "
    "test corpus converted to every format that accepts it; cycles x -> file1 -> x1 -> file2 -> "
    "x2 -> file3 -> x3 -> file4. Oracle: SNAP(x2) == SNAP(x1) and SNAP(x3) == SNAP(x2) bit for "
    "bit, file3 == file2 and file4 == file3 byte for byte (QCSchema provenance entries removed "
    "from both sides, documented growth). Non-trivial = the first cycle changed something "
    "(x1 != x or file2 != file1), so that stability is not vacuous; distinct by spec hash."
)
ASSUMPTIONS = [
    "bit-identity is claimed from the first reloaded object on, as stated",
    "SNAP compares attrs fields, dict contents and arrays by dtype, shape and bytes",
]


def strip_provenance(obj):
    if isinstance(obj, dict):
        return {k: strip_provenance(v) for k, v in obj.items() if k != "provenance"}
    if isinstance(obj, list):
        return [strip_provenance(v) for v in obj]
    return obj


def snap_loaded(data, fmt):
    snap = S.snap(data)
    if fmt == "json_qcschema":
        return _strip_snap(snap)
    return snap


def _strip_snap(snap):
    """Remove dict items whose key is 'provenance' from a snapshot."""
    if isinstance(snap, tuple) and snap and snap[0] == "d":
        items = tuple(
            (k, _strip_snap(v)) for k, v in snap[1] if k != ("v", "str", "provenance")
        )
        return ("d", items)
    if isinstance(snap, tuple) and snap and snap[0] == "o":
        return (snap[0], snap[1], tuple((n, _strip_snap(v)) for n, v in snap[2]))
    if isinstance(snap, tuple) and snap and snap[0] in ("l", "t"):
        return (snap[0], tuple(_strip_snap(v) for v in snap[1]))
    return snap


def file_content(path, fmt):
    with open(path, "rb") as fh:
        raw = fh.read()
    if fmt == "json_qcschema":
        return json.dumps(strip_provenance(json.loads(raw)), sort_keys=False)
    return raw


def only_float_noise(a, b):
    """True if two file contents differ only in floats that agree to 1e-13 relative."""
    if isinstance(a, bytes):
        a, b = a.decode("latin1"), b.decode("latin1")
    ta, tb = a.split(), b.split()
    if len(ta) != len(tb):
        return False
    for x, y in zip(ta, tb):
        if x == y:
            continue
        try:
            fx, fy = float(x), float(y)
        except ValueError:
            return False
        if abs(fx - fy) > 1e-13 * max(abs(fx), abs(fy), 1.0):
            return False
    return True


def snap_float_noise(s1, s2):
    """True if two snapshots differ only in float arrays that agree to 1e-13 relative."""
    import numpy as np

    if s1 == s2:
        return True
    if not (isinstance(s1, tuple) and isinstance(s2, tuple) and s1 and s2 and s1[0] == s2[0]):
        return False
    tag = s1[0]
    if tag == "a":
        if s1[1:3] != s2[1:3] or not s1[1].startswith("float"):
            return False
        x = np.frombuffer(s1[3], dtype=s1[1])
        y = np.frombuffer(s2[3], dtype=s2[1])
        return bool(np.all(np.abs(x - y) <= 1e-13 * np.maximum(np.maximum(np.abs(x), np.abs(y)), 1.0)))
    if tag == "o":
        return s1[1] == s2[1] and len(s1[2]) == len(s2[2]) and all(
            n1 == n2 and snap_float_noise(v1, v2) for (n1, v1), (n2, v2) in zip(s1[2], s2[2])
        )
    if tag == "d":
        return len(s1[1]) == len(s2[1]) and all(
            k1 == k2 and snap_float_noise(v1, v2) for (k1, v1), (k2, v2) in zip(s1[1], s2[1])
        )
    if tag in ("l", "t"):
        return len(s1[1]) == len(s2[1]) and all(snap_float_noise(v1, v2) for v1, v2 in zip(s1[1], s2[1]))
    return False


def run_cycles(data, fmt, tmpdir, dump_kwargs, load_kwargs, ncycle=3):
    """Return (problems, info)."""
    from iodata import dump_one, load_one

    fmtarg = {"fmt": "json_qcschema"} if fmt == "json_qcschema" else {}
    path = os.path.join(tmpdir, OBJ.filename(fmt, "cyc"))
    info = {"first_written": False, "first_changed": False}
    files, snaps = [], []
    cur = data
    problems = []
    with warnings.catch_warnings(record=True):
        warnings.simplefilter("always")
        for icycle in range(ncycle + 1):
            try:
                dump_one(cur, path, **fmtarg, **dump_kwargs)
            except Exception as exc:
                if icycle == 0:
                    return [], info  # not accepted by this format: outside the quantifier
                problems.append(
                    Problem(f"C15/{fmt}/redump_fails", f"dump #{icycle + 1} of a reloaded object fails: {exc!r} {exc.__cause__!r}")
                )
                return problems, info
            info["first_written"] = True
            files.append(file_content(path, fmt))
            if icycle == ncycle:
                break
            try:
                cur = load_one(path, **fmtarg, **load_kwargs)
            except Exception as exc:
                if icycle == 0:
                    return [], info  # C02's business
                problems.append(
                    Problem(f"C15/{fmt}/reload_fails", f"reload #{icycle + 1} fails: {exc!r} {exc.__cause__!r}")
                )
                return problems, info
            snaps.append(snap_loaded(cur, fmt))
    if os.path.exists(path):
        os.remove(path)
    info["first_changed"] = files[1] != files[0] or (bool(snaps) and snaps[0] != snap_loaded(data, fmt))
    for i in range(1, len(snaps)):
        if snaps[i] != snaps[i - 1]:
            kind = "object_drifts_last_digits" if snap_float_noise(snaps[i - 1], snaps[i]) else "object_drifts"
            problems.append(
                Problem(
                    f"C15/{fmt}/{kind}",
                    f"object after reload #{i + 1} differs from reload #{i}: {S.first_diff(snaps[i - 1], snaps[i])}",
                )
            )
            break
    for i in range(2, len(files)):
        if files[i] != files[i - 1]:
            a, b = files[i - 1], files[i]
            pos = next((k for k in range(min(len(a), len(b))) if a[k] != b[k]), min(len(a), len(b)))
            kind = "file_drifts_last_digits" if only_float_noise(a, b) else "file_drifts"
            problems.append(
                Problem(
                    f"C15/{fmt}/{kind}",
                    f"file #{i + 1} differs from file #{i} at byte {pos}: "
                    f"{a[max(0, pos - 30):pos + 30]!r} -> {b[max(0, pos - 30):pos + 30]!r}",
                )
            )
            break
    return problems, info


def check_generated(spec, tmpdir):
    try:
        built = OBJ.build(spec)
    except wf.DegenerateBasis:
        return [], False, ["degenerate_basis_skipped"]
    problems, info = run_cycles(built["data"], spec["fmt"], tmpdir, built["dump_kwargs"], built["load_kwargs"])
    return problems, info["first_written"] and info["first_changed"], built["labels"]


def shard_format(ctx, fmt, max_examples):
    tmpdir = ctx.tmpdir

    def body(spec):
        return check_generated(spec, tmpdir)

    drive(ctx, OBJ.st_object(fmt, ctx.tier == "thorough"), body, max_examples, name=f"cyc_{fmt}")


def corpus_dir():
    import iodata

    for cand in (os.path.join(os.path.dirname(iodata.__file__), "test", "data"), "/repo/iodata/test/data"):
        if os.path.isdir(cand):
            return cand
    return None


def check_corpus(spec, tmpdir):
    from iodata import load_one

    path = os.path.join(corpus_dir(), spec["file"])
    with warnings.catch_warnings(record=True):
        warnings.simplefilter("always")
        try:
            data = load_one(path)
        except Exception:
            return None
    problems, info = run_cycles(data, spec["target"], tmpdir, {}, {})
    if not info["first_written"]:
        return None
    return problems, [f"corpus:{spec['target']}"], info["first_changed"]


def shard_corpus(ctx, part, nparts):
    root = corpus_dir()
    if root is None:
        ctx.skipped["corpus_missing"] += 1
        return
    limit = 10**9 if ctx.tier == "thorough" else 40000
    files = sorted(f for f in glob.glob(os.path.join(root, "*")) if os.path.isfile(f) and os.path.getsize(f) <= limit)
    idx = 0
    for path in files:
        for target in OBJ.ALL_FORMATS:
            idx += 1
            if idx % nparts != part:
                continue
            spec = {"kind": "corpus", "file": os.path.basename(path), "target": target}
            out = check_corpus(spec, ctx.tmpdir)
            if out is None:
                ctx.skipped["not_loadable_or_not_accepted"] += 1
                continue
            problems, labels, nontrivial = out
            ctx.record(spec, nontrivial, labels)
            ctx.report(spec, problems, labels)


def shards(tier, seed):
    big = tier == "thorough"
    out = []
    for fmt in OBJ.ALL_FORMATS:
        out.append((f"gen_{fmt}", "shard_format", {"fmt": fmt, "max_examples": 1000 if big else 60}))
    nparts = 8
    for part in range(nparts):
        out.append((f"corpus{part}", "shard_corpus", {"part": part, "nparts": nparts}))
    return out


def replay(entry):
    import shutil
    import tempfile

    from .c09 import _fix_sets

    spec = entry["spec"]
    _fix_sets(spec)
    tmpdir = tempfile.mkdtemp(prefix="ivp_c15_replay_")
    try:
        if spec.get("kind") == "corpus":
            out = check_corpus(spec, tmpdir)
            return [] if out is None else out[0]
        return check_generated(spec, tmpdir)[0]
    finally:
        shutil.rmtree(tmpdir, ignore_errors=True)
