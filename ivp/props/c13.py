"""C13 - trajectories keep every frame, in order, each identical to a single load."""

from __future__ import annotations

import importlib
import os
import warnings

import numpy as np
from hypothesis import strategies as st

from ..gen import objects as OBJ
from ..oracles import snapshot as S
from ..runner import Problem, drive
from . import c03

ID = "C13"
LEVEL = "exploration"
RULE = (
    "(a) dump_many for XYZ / PDB / MOL2 / SDF from a list, a generator and a generator raising at "
    "item j, with an instrumented iterable (iter() once, number of pulls, output file exists "
    "before item 2 is pulled) and load_many(dump_many(frames)) compared frame by frame with "
    "load_one(dump_one(frame)); (b) multi-frame files of the 7 load_many formats (XYZ, extXYZ, "
    "PDB, MOL2, SDF, GRO, FCHK optimisation / scan / IRC) written by the spec writers: frame k of "
    "load_many equals load_one of the single-frame file, loaded in a child forked from a pristine "
    "interpreter state so that state leaking between frames cannot contaminate the reference "
    "(for FCHK: the writer's expected values); "
    "(c) truncation of the file at every line boundary (sampled above 160 lines); (d) an "
    "unparsable token in one numeric field of a drawn frame. Oracle: frames are a prefix of the "
    "reference frames in file order; a frame that differs from its reference is acceptable only "
    "with a LoadWarning or a following LoadError; after a corruption in frame k exactly the frames "
    "< k are yielded, then LoadError. Non-trivial = >= 2 frames with different atom counts, or a "
    "cut / corruption strictly inside a frame; distinct by spec hash."
)
ASSUMPTIONS = [
    "a silent end of the sequence at a truncated last frame (without yielding a partial frame) is "
    "accepted, as the statement's last clause only forbids yielding a partial frame silently",
    "spec writers' numeric_fields() name the fields; a corrupted field that the reader does not "
    "consume (all frames equal to the reference) is not a violation",
]

DUMP_FORMATS = ["xyz", "pdb", "mol2", "sdf"]
LOAD_FORMATS = ["xyz", "extxyz", "pdb", "mol2", "sdf", "gromacs"]


def load_all(path, fmt=None):
    """Consume load_many; returns (frames, error, warnings)."""
    from iodata import load_many

    frames = []
    error = None
    with warnings.catch_warnings(record=True) as wlist:
        warnings.simplefilter("always")
        try:
            for frame in load_many(path, fmt=fmt):
                frames.append(frame)
        except Exception as exc:  # noqa: BLE001
            error = exc
    return frames, error, list(wlist)


class RefServer:
    """Single-frame reference loads in a pristine interpreter state.

    "Exactly as a single-frame file would load" is decided by a process that has never loaded
    anything else: a server process is forked before the shard loads its first file; for every
    request it forks a child that calls load_one and sends back the snapshot.  State that leaks
    from one frame (or one call) to the next can therefore not contaminate the reference.
    """

    def __init__(self):
        import multiprocessing as mp

        import iodata  # noqa: F401 - imported before the fork, never used before it

        self.conn, child = mp.Pipe()
        self.pid = os.fork()
        if self.pid == 0:
            try:
                self.conn.close()
                self._serve(child)
            finally:
                os._exit(0)
        child.close()

    @staticmethod
    def _serve(conn):
        import pickle

        from iodata import load_one

        while True:
            try:
                req = conn.recv()
            except EOFError:
                return
            if req is None:
                return
            path, fmt = req
            rfd, wfd = os.pipe()
            pid = os.fork()
            if pid == 0:
                try:
                    os.close(rfd)
                    with warnings.catch_warnings():
                        warnings.simplefilter("ignore")
                        try:
                            out = ("ok", S.snap(load_one(path, fmt=fmt)))
                        except Exception as exc:  # noqa: BLE001
                            out = ("error", repr(exc))
                    with os.fdopen(wfd, "wb") as fh:
                        pickle.dump(out, fh)
                finally:
                    os._exit(0)
            os.close(wfd)
            with os.fdopen(rfd, "rb") as fh:
                payload = fh.read()
            os.waitpid(pid, 0)
            try:
                conn.send(pickle.loads(payload))
            except Exception as exc:  # noqa: BLE001
                conn.send(("error", f"reference child failed: {exc!r}"))

    def load(self, path, fmt):
        self.conn.send((path, fmt))
        return self.conn.recv()

    def close(self):
        try:
            self.conn.send(None)
            self.conn.close()
            os.waitpid(self.pid, 0)
        except Exception:  # noqa: BLE001
            pass


REFSERVER = None


# ----------------------------------------------------------------------------------------------
# (a) dump_many
# ----------------------------------------------------------------------------------------------


def dump_case(fmt):
    return st.fixed_dictionaries(
        {
            "kind": st.just("dump_many"),
            "fmt": st.just(fmt),
            "frames": st.lists(
                OBJ.st_object(fmt, False)
                .filter(lambda s: s["natom"] <= 60)
                # labels wider than the PDB columns are refused with DumpError (C02's class "may_refuse")
                .map(lambda s: dict(s, long_labels=False) if s.get("long_labels") else s),
                min_size=1, max_size=6),
            "iterable": st.sampled_from(["generator", "raising_generator", "generator", "raising_generator", "list", "tuple"]),
            "raise_at": st.integers(0, 6),
        }
    )


class Boom(Exception):
    pass


def make_spy(data, index, log):
    """A frame whose use by the *writer* is observable: the writers of the four trajectory formats
    read ``title``, which is not among the attributes the pre-flight check reads."""
    import attrs

    from iodata import IOData

    class Spy(IOData):
        def __getattribute__(self, name):
            if name == "title":
                log.append(("written", index))
            return super().__getattribute__(name)

    kwargs = {}
    for field in attrs.fields(IOData):
        kwargs[field.name.lstrip("_")] = object.__getattribute__(data, field.name)
    return Spy(**kwargs)


def check_dump(spec, tmpdir):
    from iodata import dump_many, dump_one, load_one
    from iodata.utils import LoadError

    fmt = spec["fmt"]
    datas = [OBJ.build(fs)["data"] for fs in spec["frames"]]
    if fmt == "mol2":
        for d in datas:
            if "mol2charges" not in d.atcharges:
                d.atcharges = dict(d.atcharges, mol2charges=np.zeros(d.natom))
    if fmt == "pdb":
        for d in datas:
            d.bonds = None  # dump_many / load_many of PDB do not declare bonds
    n = len(datas)
    path = os.path.join(tmpdir, OBJ.filename(fmt, "traj"))
    if os.path.exists(path):
        os.remove(path)
    log = {"iter": 0, "pulled": 0, "exists_at_pull": []}
    raise_at = min(spec["raise_at"], n) if spec["iterable"] == "raising_generator" else None

    events = []
    spies = None
    if spec["iterable"] in ("generator", "raising_generator"):
        try:
            spies = [make_spy(d, k, events) for k, d in enumerate(datas)]
        except Exception:
            spies = None

    def gen():
        for k, d in enumerate(datas):
            if raise_at is not None and k == raise_at:
                raise Boom(f"generator fails at item {k}")
            log["pulled"] += 1
            log["exists_at_pull"].append(os.path.exists(path))
            events.append(("pulled", k))
            yield d if spies is None else spies[k]
        if raise_at is not None and raise_at == n:
            raise Boom("generator fails at the end")

    class Once:
        def __iter__(self):
            log["iter"] += 1
            return gen()

    arg = {"list": datas, "tuple": tuple(datas), "generator": Once(), "raising_generator": Once()}[spec["iterable"]]
    problems = []
    labels = [f"dump:{fmt}", f"iterable:{spec['iterable']}", f"nframe:{n}"]
    # observe when text is handed to the output file, relative to the pulls of the iterable
    writes_after_pull = {}
    import builtins

    import iodata.api as api_module

    class FileProxy:
        def __init__(self, fh):
            self._fh = fh

        def write(self, text):
            writes_after_pull[log["pulled"]] = writes_after_pull.get(log["pulled"], 0) + 1
            return self._fh.write(text)

        def __getattr__(self, name):
            return getattr(self._fh, name)

        def __enter__(self):
            self._fh.__enter__()
            return self

        def __exit__(self, *args):
            return self._fh.__exit__(*args)

    def spying_open(file, mode="r", *args, **kwargs):
        fh = builtins.open(file, mode, *args, **kwargs)
        if str(file) == path and "w" in mode:
            log["opened_for_writing"] = True
            return FileProxy(fh)
        return fh

    had_open = "open" in vars(api_module)
    old_open = vars(api_module).get("open")
    api_module.open = spying_open
    try:
        with warnings.catch_warnings(record=True):
            warnings.simplefilter("always")
            try:
                dump_many(arg, path, fmt=fmt)
                outcome = "ok"
            except Boom:
                outcome = "Boom"
            except Exception as exc:  # noqa: BLE001
                outcome = f"{type(exc).__name__}: {exc}"
    finally:
        if had_open:
            api_module.open = old_open
        else:
            del api_module.open
    if spec["iterable"] in ("generator", "raising_generator") and log.get("opened_for_writing"):
        # streaming: frame k-1 is handed to the file before item k+1 is pulled, i.e. something is
        # written between any two consecutive pulls from the second pull on
        for k in range(2, log["pulled"]):
            if writes_after_pull.get(k, 0) == 0:
                problems.append(
                    Problem(f"C13/dump_many/{fmt}/not_streamed",
                            f"nothing was written between pulling item {k} and item {k + 1} "
                            f"(writes after each pull: {sorted(writes_after_pull.items())[:8]})")
                )
                break
    elif spec["iterable"] in ("generator", "raising_generator"):
        labels.append("file_writes_not_observable")
    if spec["iterable"] in ("generator", "raising_generator"):
        if log["iter"] != 1:
            problems.append(Problem(f"C13/dump_many/{fmt}/iterated_twice", f"iter() called {log['iter']} times"))
        want_pulls = n if raise_at is None else raise_at
        if log["pulled"] != want_pulls:
            problems.append(Problem(f"C13/dump_many/{fmt}/pull_count", f"{log['pulled']} items pulled, expected {want_pulls}"))
        if len(log["exists_at_pull"]) >= 2 and not all(log["exists_at_pull"][1:]):
            problems.append(Problem(f"C13/dump_many/{fmt}/not_lazy", "item 2+ was pulled before the output file existed"))
        if spies is not None and any(e[0] == "written" for e in events):
            # frame k-1 must have been handed to the writer before item k+1 is pulled
            written = set()
            for what, k in events:
                if what == "written":
                    written.add(k)
                elif k >= 2 and (k - 2) not in written:
                    problems.append(
                        Problem(f"C13/dump_many/{fmt}/not_lazy",
                                f"item {k} was pulled before frame {k - 2} had been written: {events[:12]}")
                    )
                    break
        elif spies is not None:
            labels.append("writer_use_not_observable")
    if raise_at is not None:
        if outcome == "ok":
            problems.append(Problem(f"C13/dump_many/{fmt}/generator_error_swallowed", f"generator raised at item {raise_at} but dump_many returned"))
        elif outcome != "Boom" and "DumpError" not in outcome:
            problems.append(Problem(f"C13/dump_many/{fmt}/generator_error_replaced", outcome))
        if os.path.exists(path):
            os.remove(path)
        return problems, n >= 2, labels
    if outcome != "ok":
        problems.append(Problem(f"C13/dump_many/{fmt}/refused", outcome))
        return problems, False, labels
    frames, error, _ = load_all(path, fmt)
    os.remove(path)
    if error is not None:
        problems.append(Problem(f"C13/dump_many/{fmt}/unreadable", repr(error)))
        return problems, True, labels
    if len(frames) != n:
        problems.append(Problem(f"C13/dump_many/{fmt}/frame_count", f"{n} frames written, {len(frames)} read back"))
        return problems, True, labels
    single = os.path.join(tmpdir, OBJ.filename(fmt, "single"))
    for k, d in enumerate(datas):
        with warnings.catch_warnings(record=True):
            warnings.simplefilter("always")
            dump_one(d, single, fmt=fmt)
            try:
                ref = load_one(single, fmt=fmt)
            except LoadError as exc:
                problems.append(Problem(f"C13/dump_many/{fmt}/single_unreadable", repr(exc)))
                break
        if S.snap(ref) != S.snap(frames[k]):
            problems.append(
                Problem(f"C13/dump_many/{fmt}/frame_differs",
                        f"frame {k}: {S.first_diff(S.snap(ref), S.snap(frames[k]))}")
            )
            break
    if os.path.exists(single):
        os.remove(single)
    natoms = {d.natom for d in datas}
    return problems, n >= 2 and len(natoms) >= 2, labels


# ----------------------------------------------------------------------------------------------
# (b) - (d) load_many on spec-writer files
# ----------------------------------------------------------------------------------------------


def load_case(fmt):
    mod = importlib.import_module(f"ivp.oracles.specwriters.{fmt}")
    small = mod.st_model(False).filter(lambda s: s.get("natom", 1) <= 40)
    return st.fixed_dictionaries(
        {
            "kind": st.just("load_many"),
            "fmt": st.just(fmt),
            "frames": st.lists(small, min_size=1, max_size=6),
            "corrupt_frame": st.integers(0, 5),
            "corrupt_field": st.integers(0, 10**6),
            "cut_seed": st.integers(0, 10**6),
        }
    )


def frames_equal(a, b):
    return S.snap(a) == S.snap(b)


def check_load(spec, tmpdir):
    from iodata import load_one
    from iodata.utils import LoadError, LoadWarning

    fmt = spec["fmt"]
    mod = importlib.import_module(f"ivp.oracles.specwriters.{fmt}")
    models = [mod.build(dict(fs)) for fs in spec["frames"]]
    if not all(mod.core(fs, m) for fs, m in zip(spec["frames"], models)):
        return [], False, [f"load:{fmt}", "noncore_skipped"]
    n = len(models)
    texts = [mod.write_many([m]) for m in models]
    text = mod.write_many(models)
    iofmt = mod.FORMAT
    path = os.path.join(tmpdir, mod.FILENAME)
    labels = [f"load:{fmt}", f"nframe:{n}"]
    problems = []

    def write(content):
        with open(path, "w") as fh:
            fh.write(content)

    # ---- (b) complete file ---------------------------------------------------------------------------
    write(text)
    frames, error, _ = load_all(path, iofmt)
    if error is not None:
        return [Problem(f"C13/load_many/{fmt}/refused", f"well-formed {n}-frame file: {error!r} caused by {error.__cause__!r}")], False, labels
    if len(frames) != n:
        return [Problem(f"C13/load_many/{fmt}/frame_count", f"file has {n} frames, load_many yields {len(frames)}")], True, labels
    for k, (model, frame) in enumerate(zip(models, frames)):
        write(texts[k])
        if REFSERVER is not None:
            status, ref_snap = REFSERVER.load(path, iofmt)
            if status != "ok":
                problems.append(Problem(f"C13/load_many/{fmt}/single_refused", f"frame {k} alone: {ref_snap}"))
                continue
        else:
            with warnings.catch_warnings(record=True):
                warnings.simplefilter("always")
                try:
                    ref_snap = S.snap(load_one(path, fmt=iofmt))
                except Exception as exc:  # noqa: BLE001
                    problems.append(Problem(f"C13/load_many/{fmt}/single_refused", f"frame {k} alone: {exc!r}"))
                    continue
        if ref_snap != S.snap(frame):
            problems.append(
                Problem(f"C13/load_many/{fmt}/differs_from_single_load",
                        f"frame {k}: {S.first_diff(ref_snap, S.snap(frame))}")
            )
    if problems:
        return problems, True, labels
    # ---- (c) truncation at line boundaries -----------------------------------------------------------
    lines = text.split("\n")
    if lines and lines[-1] == "":
        lines = lines[:-1]
    # locate every frame in the joined file (writers may separate frames by blank lines)
    starts, ends = [], []
    pos = 0
    for t in texts:
        fl = t.split("\n")
        while fl and fl[-1].strip() == "":
            fl.pop()
        found = None
        for i in range(pos, len(lines) - len(fl) + 1):
            if lines[i : i + len(fl)] == fl:
                found = i
                break
        if found is None:
            return [], False, labels + ["frames_not_locatable"]
        starts.append(found)
        ends.append(found + len(fl))
        pos = found + len(fl)
    ends = np.array(ends)
    cuts = list(range(len(lines)))
    if len(cuts) > 160:
        rng = np.random.Generator(np.random.PCG64(spec["cut_seed"]))
        cuts = sorted({int(c) for c in rng.integers(0, len(lines), size=160)} | {int(e) for e in ends[:-1]} | {1, len(lines) - 1})
    ncut_inside = 0
    for cut in cuts:
        write("\n".join(lines[:cut]) + ("\n" if cut else ""))
        got, error, wlist = load_all(path, iofmt)
        complete = int(np.searchsorted(ends, cut, side="right"))
        inside = cut not in set(ends.tolist()) and cut != 0
        ncut_inside += inside
        warned = any(issubclass(w.category, LoadWarning) for w in wlist)
        if error is not None and not isinstance(error, LoadError):
            problems.append(Problem(f"C13/truncation/{fmt}/wrong_exception", f"cut at line {cut}: {error!r}"))
            break
        if len(got) > n:
            problems.append(Problem(f"C13/truncation/{fmt}/extra_frames", f"cut at line {cut}: {len(got)} frames"))
            break
        bad = None
        for k, frame in enumerate(got):
            if not frames_equal(frame, frames[k]):
                bad = k
                break
        if bad is not None:
            last = bad == len(got) - 1
            if not (last and (warned or error is not None)):
                problems.append(
                    Problem(f"C13/truncation/{fmt}/partial_frame_silently",
                            f"cut at line {cut} of {len(lines)} (inside frame {complete}): frame {bad} differs from the "
                            f"complete file ({S.first_diff(S.snap(frames[bad]), S.snap(got[bad]))}) without warning or error")
                )
                break
        if len(got) < complete and error is None:
            problems.append(
                Problem(f"C13/truncation/{fmt}/complete_frame_lost",
                        f"cut at line {cut}: {complete} complete frames in the file, {len(got)} yielded, no error")
            )
            break
    if problems:
        return problems, True, labels
    # ---- (d) unparsable token in one numeric field -------------------------------------------------
    numeric = getattr(mod, "numeric_fields", None)
    corrupted_inside = False
    if numeric is not None:
        k = spec["corrupt_frame"] % n
        fields = numeric(models[k])
        if fields:
            iline, c0, c1, name = fields[spec["corrupt_field"] % len(fields)]
            start = starts[k]
            mlines = list(lines)
            if start + iline >= len(mlines):
                return problems, True, labels + ["field_not_locatable"]
            target = mlines[start + iline]
            width = max(c1 - c0, 1)
            mlines[start + iline] = target[:c0] + ("?" * width) + target[c1:]
            write("\n".join(mlines) + "\n")
            got, error, wlist = load_all(path, iofmt)
            corrupted_inside = True
            labels.append(f"corrupt:{name}")
            same_prefix = all(frames_equal(g, f) for g, f in zip(got, frames))
            if error is None:
                if len(got) != n or not same_prefix:
                    first_bad = next((i for i, (g, f) in enumerate(zip(got, frames)) if not frames_equal(g, f)), len(got))
                    problems.append(
                        Problem(f"C13/corruption/{fmt}/silent",
                                f"field {name} of frame {k} replaced by '?': {len(got)} of {n} frames yielded, "
                                f"first difference in frame {first_bad}, no LoadError")
                    )
            else:
                if not isinstance(error, LoadError):
                    problems.append(Problem(f"C13/corruption/{fmt}/wrong_exception", repr(error)))
                if len(got) != k or not same_prefix:
                    problems.append(
                        Problem(f"C13/corruption/{fmt}/wrong_frames_before_error",
                                f"field {name} of frame {k} corrupted: {len(got)} frames yielded before the error")
                    )
    # ---- (d2) a structurally malformed frame in the middle (format-level LoadError) ----------------
    if fmt == "sdf" and not problems:
        k = spec["corrupt_frame"] % n
        mlines = list(lines)
        hit = next((i for i in range(starts[k], int(ends[k])) if mlines[i].rstrip().endswith("V2000")), None)
        if hit is not None:
            mlines[hit] = mlines[hit].replace("V2000", "V3000")
            write("\n".join(mlines) + "\n")
            got, error, wlist = load_all(path, iofmt)
            labels.append("corrupt:version_tag")
            if error is None or len(got) != k:
                problems.append(
                    Problem(f"C13/corruption/{fmt}/malformed_frame_not_reported",
                            f"frame {k} of {n} declares V3000: {len(got)} frames yielded, error {error!r}")
                )
    # ---- (e) count inflation in the last frame (separately labelled class) ---------------------------
    if numeric is not None and not problems:
        fields = [f for f in numeric(models[-1]) if f[3] == "natom"]
        if fields:
            iline, c0, c1, _name = fields[0]
            mlines = list(lines)
            target = mlines[starts[-1] + iline]
            width = c1 - c0
            bigger = str(int(target[c0:c1]) + 3).rjust(width)
            if len(bigger) == width or c1 >= len(target.rstrip()):
                mlines[starts[-1] + iline] = target[:c0] + bigger + target[c1:]
                write("\n".join(mlines) + "\n")
                got, error, wlist = load_all(path, iofmt)
                labels.append("inflated_count")
                if error is None and not any(issubclass(w.category, LoadWarning) for w in wlist):
                    problems.append(
                        Problem(f"C13/inflation/{fmt}/silent_end",
                                f"the atom count of the last of {n} frames is inflated by 3: {len(got)} frames yielded, "
                                "no LoadError, no warning")
                    )
    if os.path.exists(path):
        os.remove(path)
    natoms = {m.get("natom", 0) for m in models}
    nontrivial = (n >= 2 and len(natoms) >= 2) or ncut_inside > 0 or corrupted_inside
    return problems, nontrivial, labels


def check_fchk(spec, tmpdir):
    """FCHK optimisation / scan / IRC trajectories: all points, in order, expected values."""
    from iodata.utils import LoadError

    mod = importlib.import_module("ivp.oracles.specwriters.fchk")
    try:
        models = mod.build_frames(spec["model"])
    except ValueError:
        return [], False, ["load:fchk", "not_a_trajectory"]
    if not mod.core(spec["model"], models[0]):
        return [], False, ["load:fchk", "noncore_skipped"]
    text = mod.write_many(models)
    path = os.path.join(tmpdir, mod.FILENAME)
    with open(path, "w") as fh:
        fh.write(text)
    frames, error, _ = load_all(path, "fchk")
    labels = ["load:fchk", f"nframe:{len(models)}"]
    problems = []
    if error is not None:
        return [Problem("C13/load_many/fchk/refused", f"{error!r} caused by {error.__cause__!r}")], False, labels
    if len(frames) != len(models):
        return [Problem("C13/load_many/fchk/frame_count", f"{len(models)} geometries in the file, {len(frames)} yielded")], True, labels
    for k, (exp, frame) in enumerate(zip(mod.expected_frames(models), frames)):
        for d in c03.compare_expected("fchk", exp, frame)[:1]:
            problems.append(Problem(d["bucket"].replace("C03/", "C13/load_many/"), f"frame {k}: {d['message']}"))
    # truncation: every line boundary (sampled)
    lines = text.split("\n")
    rng = np.random.Generator(np.random.PCG64(spec["cut_seed"]))
    for cut in sorted({int(c) for c in rng.integers(1, len(lines), size=40)}):
        with open(path, "w") as fh:
            fh.write("\n".join(lines[:cut]) + "\n")
        got, error, _ = load_all(path, "fchk")
        if error is not None and not isinstance(error, LoadError):
            problems.append(Problem("C13/truncation/fchk/wrong_exception", f"cut at line {cut}: {error!r}"))
            break
        for g, f in zip(got, frames):
            if not frames_equal(g, f) and error is None:
                problems.append(Problem("C13/truncation/fchk/partial_frame_silently", f"cut at line {cut}: a frame differs without error"))
                break
    os.remove(path)
    return problems, len(models) >= 2, labels


def fchk_case():
    mod = importlib.import_module("ivp.oracles.specwriters.fchk")
    return st.fixed_dictionaries(
        {
            "kind": st.just("fchk"),
            "model": mod.st_model(False).map(lambda s: dict(s, trajectory=s["trajectory"] or "opt")),
            "cut_seed": st.integers(0, 10**6),
        }
    )


def dispatch(spec, tmpdir):
    if spec["kind"] == "dump_many":
        return check_dump(spec, tmpdir)
    if spec["kind"] == "fchk":
        return check_fchk(spec, tmpdir)
    return check_load(spec, tmpdir)


def shard_dump(ctx, fmt, max_examples):
    tmpdir = ctx.tmpdir
    drive(ctx, dump_case(fmt), lambda s: dispatch(s, tmpdir), max_examples, name=f"dump_{fmt}")


def shard_load(ctx, fmt, max_examples):
    global REFSERVER
    tmpdir = ctx.tmpdir
    REFSERVER = RefServer()  # forked before this process loads its first file
    try:
        drive(ctx, load_case(fmt), lambda s: dispatch(s, tmpdir), max_examples, name=f"load_{fmt}")
    finally:
        REFSERVER.close()
        REFSERVER = None


def shard_fchk(ctx, max_examples):
    tmpdir = ctx.tmpdir
    drive(ctx, fchk_case(), lambda s: dispatch(s, tmpdir), max_examples, name="load_fchk")


def shards(tier, seed):
    big = tier == "thorough"
    out = []
    for fmt in DUMP_FORMATS:
        out.append((f"dump_{fmt}", "shard_dump", {"fmt": fmt, "max_examples": 2000 if big else 100}))
    for fmt in LOAD_FORMATS:
        out.append((f"load_{fmt}", "shard_load", {"fmt": fmt, "max_examples": 2000 if big else 80}))
        out.append((f"load_{fmt}_b", "shard_load", {"fmt": fmt, "max_examples": 2000 if big else 80}))
    out.append(("load_fchk", "shard_fchk", {"max_examples": 1500 if big else 60}))
    return out


def replay(entry):
    import shutil
    import tempfile

    from .c09 import _fix_sets

    spec = entry["spec"]
    _fix_sets(spec)
    global REFSERVER
    tmpdir = tempfile.mkdtemp(prefix="ivp_c13_replay_")
    server = REFSERVER is None and spec.get("kind") == "load_many"
    if server:
        REFSERVER = RefServer()
    try:
        return dispatch(spec, tmpdir)[0]
    finally:
        if server:
            REFSERVER.close()
            REFSERVER = None
        shutil.rmtree(tmpdir, ignore_errors=True)
