"""C17 - format selection is deterministic and declared capabilities are truthful."""

from __future__ import annotations

import glob
import itertools
import os
import re
import warnings

import numpy as np

from ..gen import objects as OBJ
from ..oracles import snapshot as S
from ..runner import Problem
from . import c08

ID = "C17"
LEVEL = "exploration"
RULE = (
    "Exhaustive: all format modules x 4 operations x file names {one generated name per pattern, "
    "names matching several patterns (x.cp2k.out, FCIDUMP.molden, POSCAR.xyz, ...), upper/lower "
    "case variants, pattern text in the directory part, all corpus file names} x explicit format "
    "in {None, each module name, unknown}; reference model M3 (explicit format wins; otherwise a "
    "module whose pattern matches the base name and which supports the operation; FileFormatError "
    "iff none). Every declared attribute name against the IOData attribute set; every guaranteed "
    "attribute on every successfully loaded corpus file (load_one and every load_many frame); "
    "every (dump format, required attribute) enforced before the target is opened. Non-trivial = "
    "names matching >= 2 modules or none, or loaded files; distinct by spec hash."
)
ASSUMPTIONS = [
    "patterns use only the '*' wildcard (checked), matched case-sensitively against the base name",
    "the module that ran is observed through iodata.api._select_format_module when it exists and "
    "through the outcome of the public calls (audit events, error class) otherwise",
]

OPS = ["load_one", "load_many", "dump_one", "dump_many"]


def pattern_to_regex(pattern):
    return re.compile("".join(".*" if ch == "*" else re.escape(ch) for ch in pattern) + r"\Z", re.S)


def model_select(modules, basename, op, fmt):
    """Reference model M3: returns ('error',) or ('one_of', [names])."""
    if fmt is not None:
        if fmt in modules and hasattr(modules[fmt], op):
            return ("one_of", [fmt])
        return ("error",)
    cands = [
        name for name, mod in modules.items()
        if hasattr(mod, op) and any(pattern_to_regex(p).match(basename) for p in mod.PATTERNS)
    ]
    return ("one_of", cands) if cands else ("error",)


def candidate_names(modules, corpus):
    names = set()
    for mod in modules.values():
        for pat in mod.PATTERNS:
            for fill in ("name", "", "a.b", "X"):
                names.add(pat.replace("*", fill))
    names |= {
        "x.cp2k.out", "FCIDUMP.molden", "POSCAR.xyz", "POSCAR.fchk", "CHGCAR.cube", "a.xyz.pdb",
        "mol.molden.input", "x.molden.input.xyz", "LOCPOT.log", "AECCAR0", "test.FCIDUMP.out",
        "noext", ".xyz", "xyz", "a.XYZ", "A.Xyz", "poscar", "Poscar_1", "file.FCHK", "a.b.c.d",
        "mol.json", "mol.qchemlog", "mol.dat", "mol.com", "mol.gjf", "mol.crd", "mol.gro", "mol.mwfn",
        "we ird name.xyz", "tab\tname.sdf", "unicodé.mol2", "*.xyz", "[a].pdb", "a?.wfn", "-.wfx",
    }
    for name in list(names):
        names.add(name.upper())
        names.add(name.lower())
    names |= set(corpus)
    return sorted(names)


def corpus_dir():
    import iodata

    for cand in (os.path.join(os.path.dirname(iodata.__file__), "test", "data"), "/repo/iodata/test/data"):
        if os.path.isdir(cand):
            return cand
    return None


def shard_selection(ctx, part, nparts):
    import iodata.api as api
    from iodata.utils import FileFormatError

    modules = dict(api.FORMAT_MODULES)
    select = getattr(api, "_select_format_module", None)
    if select is None:
        ctx.skipped["no_select_entry_point"] += 1
        return
    for name, mod in modules.items():
        for pat in mod.PATTERNS:
            if any(ch in pat for ch in "?[]"):
                ctx.skipped[f"pattern_with_other_wildcards:{name}"] += 1
    root = corpus_dir()
    corpus = sorted(os.listdir(root)) if root else []
    names = candidate_names(modules, corpus)
    fmts = [None, "nonexistent", ""] + sorted(modules)
    dirs = ["", "/tmp/some.xyz/", "sub.fchk/POSCAR/", "./"]
    idx = 0
    for basename in names:
        idx += 1
        if idx % nparts != part:
            continue
        for op in OPS:
            for fmt in fmts:
                want = model_select(modules, basename, op, fmt)
                outcomes = set()
                for d in dirs:
                    for _rep in range(2):
                        c08.audit_start()
                        try:
                            mod = select(d + basename, op, fmt)
                            got = ("module", mod.__name__.split(".")[-1])
                        except FileFormatError:
                            got = ("error",)
                        except Exception as exc:  # noqa: BLE001
                            got = ("other", type(exc).__name__)
                        events = c08.audit_stop()
                        if events:
                            got = got + ("opened",)
                        outcomes.add(got)
                spec = {"kind": "select", "name": basename, "op": op, "fmt": fmt}
                problems = []
                if len(outcomes) != 1:
                    problems.append(Problem("C17/select/not_a_function_of_basename",
                                            f"{basename!r} {op} fmt={fmt!r}: {sorted(outcomes)}"))
                got = sorted(outcomes)[0]
                if "opened" in got:
                    problems.append(Problem("C17/select/touches_file_system", f"{basename!r}: a file was opened during selection"))
                if got[0] == "other":
                    problems.append(Problem("C17/select/wrong_exception", f"{basename!r} {op} fmt={fmt!r}: {got[1]}"))
                elif want[0] == "error":
                    if got[0] != "error":
                        problems.append(Problem("C17/select/accepts_unsupported",
                                                f"{basename!r} {op} fmt={fmt!r}: selected {got[1]}, model says FileFormatError"))
                else:
                    if got[0] == "error":
                        problems.append(Problem("C17/select/rejects_supported",
                                                f"{basename!r} {op} fmt={fmt!r}: FileFormatError, model allows {want[1]}"))
                    elif got[1] not in want[1]:
                        problems.append(Problem("C17/select/wrong_module",
                                                f"{basename!r} {op} fmt={fmt!r}: selected {got[1]}, model allows {want[1]}"))
                ncand = len(model_select(modules, basename, op, None)[1]) if model_select(modules, basename, op, None)[0] == "one_of" else 0
                ctx.record(spec, ncand != 1, [f"select:candidates={min(ncand, 3)}", f"select:fmt={'given' if fmt else 'none'}"])
                ctx.report(spec, problems)


def shard_selection_orders(ctx):
    """The choice for (base name, operation) must not depend on which operations were asked
    before: every permutation of the four operations, repeated, for names with several candidates."""
    import iodata.api as api
    from iodata.utils import FileFormatError

    modules = dict(api.FORMAT_MODULES)
    select = getattr(api, "_select_format_module", None)
    if select is None:
        ctx.skipped["no_select_entry_point"] += 1
        return
    root = corpus_dir()
    names = candidate_names(modules, sorted(os.listdir(root)) if root else [])
    multi = [n for n in names if any(
        model_select(modules, n, op, None)[0] == "one_of" and len(model_select(modules, n, op, None)[1]) >= 2 for op in OPS)]
    multi += ["name.xyz", "mol.fchk", "mol.unknown"]
    for basename in multi:
        for perm in itertools.permutations(OPS):
            spec = {"kind": "select_order", "name": basename, "order": list(perm)}
            problems = []
            for op in list(perm) + list(perm):
                want = model_select(modules, basename, op, None)
                try:
                    got = ("module", select("d/" + basename, op, None).__name__.split(".")[-1])
                except FileFormatError:
                    got = ("error",)
                ok = (want[0] == "error" and got[0] == "error") or (want[0] == "one_of" and got[0] == "module" and got[1] in want[1])
                if not ok:
                    problems.append(Problem("C17/select/depends_on_earlier_calls",
                                            f"{basename!r}: after operations {perm}, {op} -> {got}, model allows {want}"))
                    break
            ctx.record(spec, True, ["select_order"])
            ctx.report(spec, problems)
    # names never seen before (cold caches), one per permutation of the operations: the module
    # chosen for an operation must be the same for every member of a family of names that match
    # the same patterns, whatever was asked before
    families = ["POSCAR_{}.xyz", "x{}.cp2k.out", "FCIDUMP{}.molden", "CHGCAR{}.cube", "LOCPOT{}.fchk",
                "POSCAR{}.pdb", "a{}.molden.input", "FCIDUMP_{}.xyz", "AECCAR{}.sdf", "plain{}.xyz"]
    for family in families:
        choices = {op: set() for op in OPS}
        for k, perm in enumerate(itertools.permutations(OPS)):
            name = family.format(f"q{k}")
            for op in list(perm) + list(reversed(perm)):
                try:
                    choices[op].add(select(name, op, None).__name__.split(".")[-1])
                except FileFormatError:
                    choices[op].add(None)
        spec = {"kind": "select_family", "family": family}
        problems = []
        for op, got in choices.items():
            if len(got) > 1:
                problems.append(Problem("C17/select/depends_on_earlier_calls",
                                        f"names like {family!r}: {op} selects {sorted(map(str, got))} depending on the operations asked before"))
        ctx.record(spec, True, ["select_family"])
        ctx.report(spec, problems)


def check_generated_case(spec, tmpdir):
    """Guaranteed attributes on one file generated by a spec writer."""
    import importlib

    from iodata import load_many, load_one
    from iodata.api import FORMAT_MODULES

    fmt = spec["fmt"]
    mod = importlib.import_module(f"ivp.oracles.specwriters.{fmt}")
    fmod = FORMAT_MODULES.get(mod.FORMAT)
    if fmod is None:
        return [], False, [f"generated:{fmt}:no_module"]
    model = mod.build(spec)
    if not mod.core(spec, model):
        return [], False, [f"generated:{fmt}:noncore"]
    path = os.path.join(tmpdir, mod.FILENAME)
    with open(path, "w") as fh:
        fh.write(mod.write(model))
    kwargs = getattr(mod, "load_kwargs", lambda m: {})(model)
    problems = []
    try:
        with warnings.catch_warnings(record=True):
            warnings.simplefilter("always")
            loaded = []
            try:
                loaded.append(("load_one", load_one(path, **kwargs)))
            except Exception:  # noqa: BLE001 - refusals are C03's business
                pass
            if hasattr(fmod, "load_many"):
                try:
                    loaded += [("load_many", fr) for fr in list(load_many(path, **kwargs))[:2]]
                except Exception:  # noqa: BLE001
                    pass
    finally:
        os.remove(path)
    for op, data in loaded:
        for name in getattr(getattr(fmod, op), "guaranteed", []):
            if getattr(data, name, None) is None:
                problems.append(Problem(f"C17/guaranteed/{fmt}/{name}",
                                        f"generated file: {fmt}.{op} guarantees {name}, but it is None"))
    return problems, bool(loaded), [f"generated:{fmt}"]


def shard_guaranteed_generated(ctx, max_examples):
    """Guaranteed attributes on files generated by the spec writers (incl. minimal ones)."""
    import importlib

    from ..oracles.specwriters import selftest as WSELF
    from ..runner import drive

    tmpdir = ctx.tmpdir
    for fmt in WSELF.available():
        mod = importlib.import_module(f"ivp.oracles.specwriters.{fmt}")
        drive(ctx, mod.st_model(False).map(lambda s, fmt=fmt: dict(s, fmt=fmt)),
              lambda spec: check_generated_case(spec, tmpdir), max_examples, name=f"gen_{fmt}")


def shard_public_selection(ctx):
    """The same model through the public functions only (outcome classes and audit events)."""
    from iodata import dump_many, dump_one, load_many, load_one
    from iodata.api import FORMAT_MODULES
    from iodata.utils import FileFormatError

    modules = dict(FORMAT_MODULES)
    data = c08.base_object("xyz")
    names = ["mol.xyz", "mol.unknown", "POSCAR", "x.cp2k.out", "mol.log", "mol.json", "MOL.XYZ", "mol.fchk"]
    for basename in names:
        for fmt in [None, "nonexistent", "xyz", "gaussianlog", "fchk"]:
            for op in OPS:
                want = model_select(modules, basename, op, fmt)
                path = os.path.join(ctx.tmpdir, "missing_dir_" + str(abs(hash(basename)) % 1000), basename)
                # the directory does not exist: a call that gets past format selection fails with
                # another exception (or LoadError); FileFormatError must come before any open()
                c08.audit_start()
                with warnings.catch_warnings(record=True):
                    warnings.simplefilter("always")
                    try:
                        if op == "load_one":
                            load_one(path, fmt=fmt)
                        elif op == "load_many":
                            list(load_many(path, fmt=fmt))
                        elif op == "dump_one":
                            dump_one(data, path, fmt=fmt)
                        else:
                            dump_many([data], path, fmt=fmt)
                        got = "ok"
                    except FileFormatError:
                        got = "FileFormatError"
                    except BaseException as exc:  # noqa: BLE001
                        got = type(exc).__name__
                events = c08.audit_stop()
                spec = {"kind": "public_select", "name": basename, "op": op, "fmt": fmt}
                problems = []
                if want[0] == "error":
                    if got != "FileFormatError":
                        problems.append(Problem("C17/public/no_fileformaterror", f"{op}({basename!r}, fmt={fmt!r}) -> {got}"))
                    if any(basename in e for e in events):
                        problems.append(Problem("C17/public/touches_file_system", f"{op}({basename!r}, fmt={fmt!r}) opened {events}"))
                elif got == "FileFormatError":
                    problems.append(Problem("C17/public/rejects_supported", f"{op}({basename!r}, fmt={fmt!r}) -> FileFormatError"))
                ctx.record(spec, want[0] == "error", ["public_select"])
                ctx.report(spec, problems)


def shard_explicit_wins(ctx):
    """An explicitly given format wins over the file name, observed through what is written / read
    (public functions and the converter function), for every pair of trajectory / geometry writers."""
    from iodata import dump_many, dump_one, load_many, load_one

    try:
        from iodata.__main__ import convert
    except Exception:  # noqa: BLE001
        convert = None
        ctx.skipped["convert_function_missing"] += 1
    writers = ["xyz", "pdb", "mol2", "sdf"]
    ext = {"xyz": "xyz", "pdb": "pdb", "mol2": "mol2", "sdf": "sdf"}
    data = c08.base_object("xyz")
    frames = [data, data]
    tmp = ctx.tmpdir

    def read(path):
        with open(path, "rb") as fh:
            return fh.read()

    for fmt in writers:
        ref_one = os.path.join(tmp, "ref_one.data")
        ref_many = os.path.join(tmp, "ref_many.data")
        dump_one(data, ref_one, fmt=fmt)
        dump_many(frames, ref_many, fmt=fmt)
        for other in writers + ["unknown"]:
            if other == fmt:
                continue
            name = f"mol.{ext.get(other, 'unknownext')}"
            for how in ("dump_one", "dump_many", "convert_one", "convert_many", "load_one", "load_many"):
                spec = {"kind": "explicit_wins", "fmt": fmt, "name": name, "how": how}
                path = os.path.join(tmp, name)
                problems = []
                try:
                    if how == "dump_one":
                        dump_one(data, path, fmt=fmt)
                        same = read(path) == read(ref_one)
                    elif how == "dump_many":
                        dump_many(frames, path, fmt=fmt)
                        same = read(path) == read(ref_many)
                    elif how in ("convert_one", "convert_many"):
                        if convert is None:
                            continue
                        many = how == "convert_many"
                        convert(ref_many if many else ref_one, path, many, fmt, fmt, False)
                        # reference: the same conversion to a neutral name
                        neutral = os.path.join(tmp, "neutral.data")
                        convert(ref_many if many else ref_one, neutral, many, fmt, fmt, False)
                        same = read(path) == read(neutral)
                        os.remove(neutral)
                    else:
                        # content of format ``fmt`` under a name that suggests ``other``
                        with open(path, "wb") as fh:
                            fh.write(read(ref_many if how == "load_many" else ref_one))
                        if how == "load_one":
                            got = S.snap(load_one(path, fmt=fmt))
                            want = S.snap(load_one(ref_one, fmt=fmt))
                        else:
                            got = S.snap(list(load_many(path, fmt=fmt)))
                            want = S.snap(list(load_many(ref_many, fmt=fmt)))
                        same = got == want
                    if not same:
                        problems.append(Problem(f"C17/explicit_wins/{how}", f"{how} with fmt={fmt!r} on {name!r}: the explicit format did not decide"))
                except Exception as exc:  # noqa: BLE001
                    problems.append(Problem(f"C17/explicit_wins/{how}/raises", f"{how} with fmt={fmt!r} on {name!r}: {exc!r}"))
                finally:
                    if os.path.exists(path):
                        os.remove(path)
                ctx.record(spec, True, ["explicit_wins"])
                ctx.report(spec, problems)
        os.remove(ref_one)
        os.remove(ref_many)


def shard_declared_names(ctx):
    import attrs

    from iodata import IOData
    from iodata.api import FORMAT_MODULES

    public = {f.name.lstrip("_") for f in attrs.fields(IOData)}
    public |= {n for n in dir(IOData) if isinstance(getattr(IOData, n), property)}
    for fmt, mod in sorted(FORMAT_MODULES.items()):
        for op in OPS:
            func = getattr(mod, op, None)
            if func is None:
                continue
            lists = ("guaranteed", "ifpresent") if op.startswith("load") else ("required", "optional")
            for lname in lists:
                declared = getattr(func, lname, None)
                spec = {"kind": "declared", "fmt": fmt, "op": op, "list": lname}
                problems = []
                if declared is None:
                    problems.append(Problem(f"C17/declared/missing_list/{fmt}", f"{fmt}.{op}.{lname} is not declared"))
                    declared = []
                for name in declared:
                    if name not in public:
                        problems.append(Problem(f"C17/declared/unknown_attribute/{fmt}/{name}",
                                                f"{fmt}.{op}.{lname} names {name!r}, which is not an IOData attribute"))
                if len(set(declared)) != len(declared):
                    problems.append(Problem(f"C17/declared/duplicate/{fmt}", f"{fmt}.{op}.{lname}: {declared}"))
                ctx.record(spec, len(declared) > 0, ["declared_list"])
                ctx.report(spec, problems)


def shard_guaranteed(ctx, part, nparts, only_file=None):
    from iodata import load_many, load_one
    from iodata.api import FORMAT_MODULES

    root = corpus_dir()
    if root is None:
        ctx.skipped["corpus_missing"] += 1
        return
    modules = dict(FORMAT_MODULES)
    files = sorted(f for f in glob.glob(os.path.join(root, "*")) if os.path.isfile(f))
    limit = 10**9 if ctx.tier == "thorough" else 400000
    for idx, path in enumerate(files):
        base = os.path.basename(path)
        if only_file is not None:
            if base != only_file:
                continue
        elif idx % nparts != part or os.path.getsize(path) > limit:
            continue
        for op in ("load_one", "load_many"):
            want = model_select(modules, base, op, None)
            fmtargs = [None]
            if want[0] == "error":
                if base.endswith(".json"):
                    fmtargs = ["json_qcschema"]
                else:
                    continue
            for fmt in fmtargs:
                with warnings.catch_warnings(record=True):
                    warnings.simplefilter("always")
                    try:
                        if op == "load_one":
                            frames = [load_one(path, fmt=fmt)]
                        else:
                            frames = []
                            for frame in load_many(path, fmt=fmt):
                                frames.append(frame)
                                if len(frames) >= 5:
                                    break
                    except Exception:
                        ctx.skipped["corpus_file_not_loadable"] += 1
                        continue
                modname = fmt or want[1][0]
                guaranteed = getattr(getattr(modules[modname], op), "guaranteed", [])
                labels = [f"guaranteed:{modname}"]
                if modname == "orcalog":
                    with open(path, errors="replace") as fh:
                        head = fh.read(20000)
                    if "Q-Chem" in head and "O   R   C   A" not in head:
                        labels.append("qchem_output_named_out")
                for iframe, data in enumerate(frames):
                    spec = {"kind": "guaranteed", "file": base, "op": op, "frame": iframe}
                    problems = []
                    for name in guaranteed:
                        try:
                            val = getattr(data, name)
                        except Exception as exc:
                            problems.append(Problem(f"C17/guaranteed/{modname}/{name}", f"{base}: reading {name} raised {exc!r}"))
                            continue
                        if val is None:
                            problems.append(Problem(f"C17/guaranteed/{modname}/{name}",
                                                    f"{base}: {modname}.{op} guarantees {name}, but it is None"))
                    ctx.record(spec, True, labels)
                    ctx.report(spec, problems, labels)


def shard_required_enforced(ctx):
    """Every (dump format, required attribute): PrepareDumpError before the target is opened."""
    from iodata import dump_one
    from iodata.api import FORMAT_MODULES

    for fmt in OBJ.ALL_FORMATS:
        for name in FORMAT_MODULES[fmt].dump_one.required:
            data = c08.base_object(fmt)
            if not c08.clear_attrs(data, [name]):
                ctx.skipped["cannot_be_cleared"] += 1
                continue
            for existing in (False, True):
                spec = {"kind": "required", "fmt": fmt, "attr": name, "existing": existing}
                path = os.path.join(ctx.tmpdir, OBJ.filename(fmt, "c17"))
                problems, outcome = c08.run_call(lambda p, d=data: dump_one(d, p, fmt=fmt), path, existing,
                                                 "PrepareDumpError", f"C17/required/{fmt}/{name}", True)
                ctx.record(spec, outcome == "PrepareDumpError", ["required_enforced"])
                ctx.report(spec, problems)


def shards(tier, seed):
    big = tier == "thorough"
    out = [("declared_names", "shard_declared_names", {}), ("required_enforced", "shard_required_enforced", {}),
           ("public_selection", "shard_public_selection", {}), ("selection_orders", "shard_selection_orders", {}),
           ("explicit_wins", "shard_explicit_wins", {}),
           ("guaranteed_generated", "shard_guaranteed_generated", {"max_examples": 200 if big else 60})]
    for part in range(6):
        out.append((f"selection{part}", "shard_selection", {"part": part, "nparts": 6}))
    for part in range(6):
        out.append((f"guaranteed{part}", "shard_guaranteed", {"part": part, "nparts": 6}))
    return out


def coverage_extra(tier, results):
    return {"exhaustive_subdomains": ["modules x operations x names x explicit formats", "declared attribute names",
                                      "guaranteed attributes on all loadable corpus files"]}


def replay(entry):
    import shutil
    import tempfile

    from ..runner import ShardCtx

    spec = entry["spec"]
    ctx = ShardCtx(ID, "replay", "quick", entry.get("seed", 1), [], {})
    ctx._tmp = tempfile.mkdtemp(prefix="ivp_c17_replay_")
    try:
        kind = spec.get("kind")
        if kind == "select":
            shard_selection(ctx, 0, 1)
        elif kind == "public_select":
            shard_public_selection(ctx)
        elif kind == "explicit_wins":
            shard_explicit_wins(ctx)
        elif kind == "declared":
            shard_declared_names(ctx)
        elif kind == "guaranteed":
            shard_guaranteed(ctx, 0, 1, only_file=spec.get("file"))
        elif kind == "required":
            shard_required_enforced(ctx)
        elif kind in ("select_order", "select_family"):
            shard_selection_orders(ctx)
        elif "fmt" in spec:
            want = entry.get("bucket")
            return [p for p in check_generated_case(spec, ctx.tmpdir)[0] if want is None or p["bucket"] == want]
        want = entry.get("bucket")
        return [Problem(b, f["message"]) for b, f in ctx.failures.items() if want is None or b == want]
    finally:
        shutil.rmtree(ctx._tmp, ignore_errors=True)
    del itertools, np
