"""C04 - every physical quantity is in atomic units, consistently across formats."""

from __future__ import annotations

import importlib
import os
import warnings

import numpy as np

from ..gen import objects as OBJ
from ..oracles import units as U
from ..oracles.specwriters import selftest as WSELF
from ..runner import Problem, drive
from . import c03

ID = "C04"
LEVEL = "exploration"
RULE = (
    "(i) the conversion constants of iodata.utils against hand-typed CODATA 2018 and 2022 values "
    "(1e-8 relative); (ii) for every readable format with a spec writer: a random physical model "
    "is written in the unit the format prescribes, loaded, and every dimensional quantity "
    "(coordinates, cell vectors, grid origin/axes, masses, energies, gradients, multipole moments, "
    "velocities, times) must equal the model converted to atomic units with the hand-typed "
    "factors; (iii) (quantity, source format, target format) triples: the loaded object is "
    "written to every dump format / input program that accepts it and read back (or parsed by an "
    "independent matcher), and the quantity must still equal the model in atomic units within the "
    "digits the target prints. Non-trivial = a triple with two different formats and a non-zero "
    "quantity; distinct by (spec hash)."
)
ASSUMPTIONS = [
    "CODATA 2018 / 2022 values are typed by hand in ivp/oracles/units.py (not NIST-checked)",
    "the documented exception (extended XYZ energies / forces are passed through in eV) is a "
    "known finding, excluded by bucket",
]

DIMENSIONAL = {
    ("atcoords",): "length", ("cellvecs",): "length", ("atmasses",): "mass", ("energy",): "energy",
    ("atgradient",): "gradient", ("cube", "origin"): "length", ("cube", "axes"): "length",
    ("extra", "velocities"): "velocity", ("extra", "time"): "time", ("core_energy",): "energy",
    ("cube", "data"): "grid_values", ("moments", (1, "c")): "dipole", ("moments", (2, "c")): "quadrupole", ("athessian",): "hessian",
}
# absolute print precision of a coordinate (bohr) in each target, relative precision otherwise
TARGET_COORD_TOL = {
    "xyz": 0.51e-10 * U.angstrom, "pdb": 0.51e-3 * U.angstrom, "mol2": 0.51e-4 * U.angstrom,
    "sdf": 0.51e-4 * U.angstrom, "poscar": 1e-9, "cube": 0.51e-6, "json_qcschema": 1e-14,
    "fchk": 0.0, "molden": 1e-14, "molekel": 0.51e-6 * U.angstrom, "wfn": 0.51e-8, "wfx": 0.0,
}
TARGET_REL_TOL = {"fchk": 5.1e-9, "wfx": 1e-13, "poscar": 1e-12}
# range of a coordinate the fixed-width columns of a target can hold (in the target's unit);
# triples with values outside are not conversions the format can express and are skipped (counted)
TARGET_RANGE = {
    "pdb": (-999.0 * U.angstrom, 9999.0 * U.angstrom), "sdf": (-9999.0 * U.angstrom, 99999.0 * U.angstrom),
    "wfn": (-99.0, 999.0), "cube": (-9999.0, 99999.0), "molekel": (-1e5 * U.angstrom, 1e5 * U.angstrom),
}


def selftest():
    for year in (2018, 2022):
        f = U.factors(year)
        assert abs(f["angstrom"] / 1.8897261 - 1) < 1e-7
        assert abs(f["amu"] / 1822.888 - 1) < 1e-6
        assert abs(f["electronvolt"] * 27.211386 - 1) < 1e-7


def shard_constants(ctx):
    import iodata.utils as iu

    for year in (2018, 2022):
        for name, ref in U.factors(year).items():
            spec = {"kind": "constant", "name": name, "codata": year}
            problems = []
            got = getattr(iu, name, None)
            if got is None:
                problems.append(Problem(f"C04/constant/{name}/missing", "constant not defined"))
            elif abs(got / ref - 1) > 1e-8:
                problems.append(Problem(f"C04/constant/{name}", f"iodata.utils.{name} = {got!r}, CODATA {year}: {ref!r}"))
            ctx.record(spec, True, ["constant"])
            ctx.report(spec, problems)
    # relations between the constants (dimension analysis)
    rel = [
        ("nanometer = 10 angstrom", iu.nanometer / (10 * iu.angstrom)),
        ("meter = 1e10 angstrom", iu.meter / (1e10 * iu.angstrom)),
        ("picosecond = 1e-12 second", iu.picosecond / (1e-12 * iu.second)),
        ("kcalmol = 1000 calmol", iu.kcalmol / (1000 * iu.calmol)),
        ("kcalmol = 4.184 kjmol", iu.kcalmol / (4.184 * iu.kjmol)),
    ]
    for name, ratio in rel:
        spec = {"kind": "constant_relation", "name": name}
        problems = [] if abs(ratio - 1) < 1e-12 else [Problem("C04/constant/relation", f"{name}: ratio {ratio!r}")]
        ctx.record(spec, True, ["constant_relation"])
        ctx.report(spec, problems)


def dump_targets():
    return list(OBJ.ALL_FORMATS)


def parse_input_coords(text, program):
    lines = text.split("\n")
    if program == "gaussian":
        body = lines[5:]
    else:
        body = lines[3:]
    out = []
    for line in body:
        words = line.split()
        if len(words) != 4:
            break
        out.append([float(w) for w in words[1:]])
    return np.array(out) * U.angstrom


def check_case(fmt, spec, tmpdir, counters):
    from iodata import dump_one, load_one, write_input
    from iodata.utils import LoadError

    mod = importlib.import_module(f"ivp.oracles.specwriters.{fmt}")
    model = mod.build(spec)
    labels = [f"source:{fmt}"]
    if not mod.core(spec, model):
        return [], False, labels + ["noncore_skipped"]
    path = os.path.join(tmpdir, mod.FILENAME)
    with open(path, "w") as fh:
        fh.write(mod.write(model))
    kwargs = getattr(mod, "load_kwargs", lambda m: {})(model)
    try:
        with warnings.catch_warnings(record=True):
            warnings.simplefilter("always")
            try:
                data = load_one(path, **kwargs)
            except LoadError:
                return [], False, labels + ["refused"]  # C03's business
            except Exception:  # noqa: BLE001
                return [], False, labels + ["refused"]
    finally:
        os.remove(path)
    exp = mod.expected(model)
    dims = {p: v for p, v in exp.items() if p in DIMENSIONAL and v[1] in ("abs", "rel")}
    problems = []
    # (ii) absolute: loaded == model in atomic units
    for d in c03.compare_expected(fmt, dims, data):
        quantity = d["bucket"].split("/", 2)[2]
        problems.append(Problem(f"C04/{fmt}/{quantity}", d["message"]))
    bad = {p["bucket"] for p in problems}
    ntriple = 0
    # (iii) conversions: the quantity must survive load A -> dump B -> load B
    coords = dims.get(("atcoords",))
    if coords is not None and f"C04/{fmt}/atcoords" not in bad and data.atnums is not None and data.atcoords is not None:
        ref = np.asarray(coords[0], dtype=float)
        src_tol = coords[2] if coords[1] == "abs" else coords[2] * np.abs(ref)
        for target in dump_targets():
            if target == mod.FORMAT:
                continue
            lo_hi = TARGET_RANGE.get(target)
            if lo_hi is not None and (ref.min() < lo_hi[0] or ref.max() > lo_hi[1]):
                counters[f"out_of_range_for:{target}"] = counters.get(f"out_of_range_for:{target}", 0) + 1
                continue
            out = os.path.join(tmpdir, OBJ.filename(target, "c04"))
            fmtarg = {"fmt": target}
            with warnings.catch_warnings(record=True):
                warnings.simplefilter("always")
                try:
                    dump_one(data, out, allow_changes=True, **fmtarg)
                except Exception:  # noqa: BLE001 - the object lacks what the target needs
                    counters[f"not_accepted_by:{target}"] = counters.get(f"not_accepted_by:{target}", 0) + 1
                    if os.path.exists(out):
                        os.remove(out)
                    continue
                try:
                    back = load_one(out, **fmtarg)
                except Exception as exc:  # noqa: BLE001
                    os.remove(out)
                    counters[f"reload_failed:{target}"] = counters.get(f"reload_failed:{target}", 0) + 1
                    del exc
                    continue
            os.remove(out)
            got = np.asarray(back.atcoords, dtype=float)
            want = ref
            if target == "poscar":
                from ..oracles.roundtrip import poscar_permutation

                want = ref[poscar_permutation(data.atnums)]
            tol = src_tol + TARGET_COORD_TOL[target] + (TARGET_REL_TOL.get(target, 0.0) + c03.UNIT_SLACK) * np.abs(want)
            ntriple += 1
            if got.shape != want.shape or (np.abs(got - want) > tol).any():
                ratio = np.nan
                mask = np.abs(want) > 1e-6 if got.shape == want.shape else None
                if mask is not None and mask.any():
                    ratio = float(np.median(got[mask] / want[mask]))
                problems.append(
                    Problem(f"C04/convert/{target}/atcoords",
                            f"{fmt} -> {target}: coordinates changed (median ratio {ratio:.9g})")
                )
        for program in ("gaussian", "orca"):
            out = os.path.join(tmpdir, "c04.in")
            try:
                write_input(data, out, program)
            except Exception:  # noqa: BLE001
                continue
            text = open(out).read()
            os.remove(out)
            got = parse_input_coords(text, program)
            ntriple += 1
            tol = src_tol + 0.51e-6 * U.angstrom + c03.UNIT_SLACK * np.abs(ref)
            if got.shape != ref.shape or (np.abs(got - ref) > tol).any():
                problems.append(Problem(f"C04/convert/input_{program}/atcoords", f"{fmt} -> {program} input: coordinates changed"))
    # other quantities through the formats that carry them
    pairs = [
        (("atmasses",), "atmasses", ["fchk", "json_qcschema"], 5.1e-9),
        (("energy",), "energy", ["fchk", "wfn", "wfx"], 5.1e-7),
        (("atgradient",), "atgradient", ["fchk", "wfx"], 5.1e-9),
        (("cellvecs",), "cellvecs", ["poscar"], 1e-12),
    ]
    for dpath, attr, targets, rel in pairs:
        ent = dims.get(dpath)
        if ent is None or f"C04/{fmt}/{attr}" in bad or getattr(data, attr, None) is None:
            continue
        ref = np.asarray(ent[0], dtype=float)
        src_tol = ent[2] if ent[1] == "abs" else ent[2] * np.abs(ref)
        for target in targets:
            out = os.path.join(tmpdir, OBJ.filename(target, "c04q"))
            with warnings.catch_warnings(record=True):
                warnings.simplefilter("always")
                try:
                    dump_one(data, out, allow_changes=True, fmt=target)
                    back = load_one(out, fmt=target)
                except Exception:  # noqa: BLE001
                    if os.path.exists(out):
                        os.remove(out)
                    continue
            os.remove(out)
            got = getattr(back, attr, None)
            if got is None:
                continue  # whether the target stores it is C02's business
            got = np.asarray(got, dtype=float)
            ntriple += 1
            abs_extra = 5.1e-7 if (attr == "energy" and target == "wfn") else 0.0
            tol = src_tol + abs_extra + (rel + c03.UNIT_SLACK) * np.abs(ref)
            if got.shape != ref.shape or (np.abs(got - ref) > tol).any():
                problems.append(Problem(f"C04/convert/{target}/{attr}", f"{fmt} -> {target}: {attr} changed: {c03.describe(ref, got)}"))
    # the object in memory must still hold atomic units after having been written to other formats
    if ntriple > 0:
        for d in c03.compare_expected(fmt, dims, data):
            quantity = d["bucket"].split("/", 2)[2]
            if f"C04/{fmt}/{quantity}" not in bad:
                problems.append(Problem(f"C04/after_dump/{quantity}", f"loaded from {fmt}, after dumping to other formats: {d['message']}"))
    counters["triples"] = counters.get("triples", 0) + ntriple
    labels += [f"quantity:{DIMENSIONAL[p]}" for p in dims]
    nonzero = any(np.any(np.asarray(v[0], dtype=float) != 0) for v in dims.values())
    return problems, ntriple > 0 and nonzero, labels


def shard_format(ctx, fmt, max_examples):
    mod = importlib.import_module(f"ivp.oracles.specwriters.{fmt}")
    tmpdir = ctx.tmpdir
    counters = {}
    small = mod.st_model(False).filter(lambda s: s.get("natom", 1) <= 120)
    drive(ctx, small.map(lambda s: dict(s, fmt=fmt)), lambda s: check_case(fmt, s, tmpdir, counters), max_examples, name=f"units_{fmt}")
    ctx.count(**{k.replace(":", "_"): v for k, v in counters.items()})


def shards(tier, seed):
    big = tier == "thorough"
    out = [("constants", "shard_constants", {})]
    for fmt in WSELF.available():
        out.append((f"units_{fmt}", "shard_format", {"fmt": fmt, "max_examples": 1500 if big else 80}))
    return out


def replay(entry):
    import shutil
    import tempfile

    from ..runner import ShardCtx

    spec = dict(entry["spec"])
    if spec.get("kind", "").startswith("constant"):
        ctx = ShardCtx(ID, "replay", "quick", 1, [], {})
        shard_constants(ctx)
        return [Problem(b, f["message"]) for b, f in ctx.failures.items()]
    fmt = spec.get("fmt")
    tmpdir = tempfile.mkdtemp(prefix="ivp_c04_replay_")
    try:
        return check_case(fmt, spec, tmpdir, {})[0]
    finally:
        shutil.rmtree(tmpdir, ignore_errors=True)
