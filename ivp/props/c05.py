"""C05 - Molden/Molekel files from quirky programs load as the true wavefunction."""

from __future__ import annotations

import copy
import importlib
import os
import warnings

import numpy as np
from hypothesis import strategies as st

from ..oracles import gaussians as G
from ..oracles import overlap as O
from ..oracles import wfcompare as W
from ..oracles.specwriters import vendors as V
from ..runner import Problem, drive

ID = "C05"
LEVEL = "exploration"
RULE = (
    "Truth = random wavefunction from the Molden / Molekel spec writers (s..g(h) shells, Cartesian "
    "or pure per angular momentum, restricted and unrestricted, orbitals orthonormal w.r.t. the "
    "oracle overlap) x vendor encoding in {standard, ORCA, PSI4<=1.0, Turbomole, CFOUR 2.1, "
    "un-normalised contractions, PSI4<=1.3.2} (inverse of the documented deviations, pinned golden "
    "copy) x {Molden, Molekel} x coordinate unit x norm_threshold in 1e-6..1e-2; plus corrupted "
    "encodings (per-function random scalings matching no vendor, applied to all spin blocks or to "
    "one of them only). Oracle: loaded orbitals equal "
    "the truth as functions of space (oracle E) and are orthonormal w.r.t. the returned basis "
    "(oracle O); a LoadWarning is emitted iff the encoded file differs from the standard file; "
    "corrupted files raise LoadError or load to the truth. Non-trivial = encoded text differs "
    "from the standard text; distinct by spec hash."
)
ASSUMPTIONS = [
    "the vendor encoders are the inverse of the deviations documented in iodata's molden.py "
    "(pinned copy); agreement with the real programs cannot be checked offline",
    "the vendor name in the warning is not asserted (encodings of different vendors coincide "
    "on some bases)",
]


def selftest():
    G.selftest(5)
    O.selftest()


def case_strategy(fmt, big):
    mod = importlib.import_module(f"ivp.oracles.specwriters.{fmt}")
    return st.fixed_dictionaries(
        {
            "fmt": st.just(fmt),
            # only models in the writer's must-load core (construction instead of skipping later)
            "model": mod.st_model(big).filter(lambda m: _is_core(mod, m)),
            # every dialect twice as often as the standard encoding
            "vendor": st.sampled_from([v for v in V.VENDORS if v != "standard"] * 2 + ["corrupted", "corrupted", "standard"]),
            "norm_threshold": st.sampled_from([1e-4, 1e-4, 1e-6, 1e-5, 1e-3, 1e-2]),
            # Molden: alpha and beta orbitals interleaved in the [MO] section (each orbital carries
            # its own Spin= label, so any order is standard-conforming)
            "interleave": st.sampled_from([False, False, True]),
            "corrupt_seed": st.integers(0, 2**16),
        }
    )


def _is_core(mod, model_spec):
    try:
        if "spin_order" in model_spec:
            model_spec = dict(model_spec, spin_order="blocks")  # decided separately ("interleave")
        return bool(mod.core(model_spec, mod.build(model_spec)))
    except Exception:  # noqa: BLE001
        return False


def corrupted_text(mod, model, seed):
    rng = np.random.Generator(np.random.PCG64(seed))
    new = copy.copy(model)
    wf = copy.deepcopy(model["wf"])
    nrow = wf["spins"][0]["coeffs"].shape[0]
    factors = rng.choice([0.5, 0.7, 1.0, 1.3, 2.0], size=nrow)
    if np.all(factors == 1.0):
        factors[0] = 1.7
    # corrupt every spin block, or only one of them (an unrestricted file whose alpha and beta
    # blocks are encoded inconsistently matches no vendor either)
    which = int(rng.integers(0, 3)) if len(wf["spins"]) > 1 else 0
    for ispin, s in enumerate(wf["spins"]):
        if which == 0 or ispin == which - 1:
            s["coeffs"] = s["coeffs"] * factors[:, None]
    new["wf"] = wf
    new["boost"] = True
    return mod.write(new)


def check_case(spec, tmpdir):
    from iodata import load_one
    from iodata.utils import LoadError, LoadWarning

    fmt = spec["fmt"]
    mod = importlib.import_module(f"ivp.oracles.specwriters.{fmt}")
    vendor = spec["vendor"]
    if spec.get("interleave") and fmt == "molden" and "spin_order" in spec["model"]:
        spec = dict(spec, model=dict(spec["model"], spin_order="interleaved"))
    if vendor != "standard":
        # the statement quantifies over *complete* orthonormal orbital sets: with fewer orbitals
        # than basis functions a deviation in an unused function is undetectable in principle
        mspec = copy.deepcopy(spec["model"])
        if isinstance(mspec.get("wf"), dict) and "norb" in mspec["wf"]:
            mspec["wf"]["norb"] = "full"
        spec = dict(spec, model=mspec)
    model = mod.build(spec["model"])
    labels = [f"fmt:{fmt}", f"vendor:{vendor}"]
    if not _is_core(mod, spec["model"]):
        return [], False, labels + ["noncore_model_skipped"]
    if spec.get("interleave") and fmt == "molden":
        labels.append("spins_interleaved")
    standard = mod.write(model)
    if vendor == "corrupted":
        text = corrupted_text(mod, model, spec["corrupt_seed"])
        differs = True
    else:
        if not V.applicable(vendor, model):
            return [], False, labels + ["vendor_not_applicable"]
        text = V.encode(vendor, fmt, model)
        differs = V.differs(vendor, fmt, model)
    path = os.path.join(tmpdir, mod.FILENAME)
    with open(path, "w") as fh:
        fh.write(text)
    problems = []
    try:
        with warnings.catch_warnings(record=True) as wlist:
            warnings.simplefilter("always")
            try:
                data = load_one(path, norm_threshold=spec["norm_threshold"])
                outcome = "ok"
            except LoadError as exc:
                outcome = "LoadError"
                err = exc
            except Exception as exc:  # noqa: BLE001
                outcome = type(exc).__name__
                err = exc
    finally:
        os.remove(path)
    warned = [w for w in wlist if issubclass(w.category, LoadWarning)]
    bucket = f"C05/{fmt}/{vendor}"
    if vendor == "corrupted":
        if outcome == "LoadError":
            return [], True, labels + ["corrupted_rejected"]
        if outcome != "ok":
            return [Problem(f"{bucket}/wrong_exception", f"{outcome}: {err!r}")], True, labels
        labels.append("corrupted_loaded")
    elif outcome != "ok":
        return [Problem(f"{bucket}/refused", f"{vendor} encoding refused: {err!r} caused by {err.__cause__!r}")], differs, labels
    # ---- loaded: must be the truth -----------------------------------------------------------------
    exp = mod.expected(model)
    truth, _mode, digits = exp[("__wavefunction__",)]
    try:
        got = W.truth_from_iodata(data)
    except Exception as exc:
        return [Problem(f"{bucket}/unreadable_object", repr(exc))], differs, labels
    digits = dict(digits)
    if differs:
        # re-encoded numbers are printed with 16 digits; the correction divides them back
        digits.update(con_abs=max(digits.get("con_abs", 0.0), 1e-12), coef_rel=max(digits.get("coef_rel", 0.0), 1e-12))
    key = f"__c05_{fmt}"
    W.FORMAT_DIGITS[key] = digits
    diffs = W.compare(truth, got, key, 5, "wf")
    for name, msg in diffs:
        problems.append(Problem(f"{bucket}/{name.split('/')[-1]}", msg))
    # orthonormal with respect to the returned basis
    try:
        olp = O.overlap(got["basis"])
        for lab, coeffs, _occ, _ene in W.spin_sets(got["mo"]):
            err = np.abs(coeffs.T @ olp @ coeffs - np.eye(coeffs.shape[1])).max() if coeffs.shape[1] else 0.0
            if err > max(10 * spec["norm_threshold"], 1e-5):
                problems.append(Problem(f"{bucket}/not_orthonormal", f"{lab}: |C^T S C - 1| = {err:.2e}"))
                break
    except Exception as exc:
        problems.append(Problem(f"{bucket}/overlap_failed", repr(exc)))
    # warning iff a correction was needed
    if vendor != "corrupted":
        if differs and not warned:
            problems.append(Problem(f"{bucket}/no_warning", "a correction was applied without LoadWarning"))
        if not differs and warned:
            problems.append(Problem(f"{bucket}/spurious_warning", f"standard-conforming file: {warned[0].message}"))
        if not differs and text == standard:
            # a standard file is loaded without any correction: the basis is what the file says
            b0, b1 = truth["basis"], got["basis"]
            for s0, s1 in zip(b0["shells"], b1["shells"]):
                if np.abs(np.asarray(s1["coeffs"]) - np.asarray(s0["coeffs"])).max() > 1e-9 * (1 + np.abs(s0["coeffs"]).max()):
                    problems.append(Problem(f"{bucket}/basis_changed", "contraction coefficients of a standard file were modified"))
                    break
    return problems, bool(differs), labels


def shard_vendor(ctx, fmt, max_examples):
    tmpdir = ctx.tmpdir
    drive(ctx, case_strategy(fmt, ctx.tier == "thorough"), lambda s: check_case(s, tmpdir), max_examples, name=f"vendors_{fmt}")


def shards(tier, seed):
    big = tier == "thorough"
    out = []
    for fmt in ("molden", "molekel"):
        for i in range(7):
            out.append((f"{fmt}{i}", "shard_vendor", {"fmt": fmt, "max_examples": 1000 if big else 90}))
    return out


def replay(entry):
    import shutil
    import tempfile

    tmpdir = tempfile.mkdtemp(prefix="ivp_c05_replay_")
    try:
        return check_case(entry["spec"], tmpdir)[0]
    finally:
        shutil.rmtree(tmpdir, ignore_errors=True)
