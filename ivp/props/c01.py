"""C01 - wavefunction conversion never silently changes the wavefunction."""

from __future__ import annotations

import glob
import os
import warnings

import numpy as np
from hypothesis import strategies as st

from ..gen import wf
from ..oracles import gaussians as G
from ..oracles import overlap as O
from ..oracles import wfcompare as W
from ..runner import Problem, drive

ID = "C01"
LEVEL = "exploration"
RULE = (
    "Generated: wavefunction objects (1-6 centres incl. ghost / ECP centres and centres without "
    "shells, shells in any order, conventions random or taken from any format module, segmented / "
    "SP / generalized contractions, restricted / ROHF / unrestricted / occs_aminusb orbitals "
    "orthonormal w.r.t. the oracle overlap, with and without virtuals, angular momenta up to one "
    "above what the target supports) x target in {fchk, molden, molekel, wfn, wfx} x "
    "allow_changes. Corpus: every wavefunction file of iodata/test/data (fchk, molden, mkl, wfn, "
    "wfx, mwfn, cp2k) as a conversion source x every target x allow_changes. Oracle: dump either "
    "raises or the file re-loads and denotes the source wavefunction: nuclei, every orbital's "
    "values on probe points (oracle E), occupations, energies, spin labelling, densities of "
    "stored density matrices, within the digits the format prints. Non-trivial = the file was "
    "written and the case has unsorted shells, non-native conventions, a generalized/SP "
    "contraction, pure functions, an ECP/ghost centre, or unrestricted/open-shell orbitals; "
    "distinct by spec hash."
)
ASSUMPTIONS = [
    "oracle E (docs/basis.rst) defines what a (basis, coefficient) pair means; iodata's readers are "
    "used only to turn the written file into (basis, coefficients) and are checked against "
    "independent spec writers in C03",
    "equality of functions of space is tested on 30 probe points per case",
    "tolerances derive from the digits each writer prints (DESIGN.md appendix A)",
]

TARGETS = ["fchk", "molden", "molekel", "wfn", "wfx"]
EXT = {"fchk": "fchk", "molden": "molden", "molekel": "mkl", "wfn": "wfn", "wfx": "wfx"}
NATIVE = {"fchk": "fchk", "molden": "molden", "molekel": "molden", "wfn": "wfn", "wfx": "wfn"}
# highest angular momentum supported: (cartesian, pure)
LMAX = {"fchk": (6, 6), "molden": (4, 5), "molekel": (4, 5), "wfn": (5, 0), "wfx": (5, 0)}
DATA_DIR = None


def selftest():
    G.selftest(6)
    O.selftest()


def corpus_dir():
    import iodata

    for cand in (
        os.path.join(os.path.dirname(iodata.__file__), "test", "data"),
        "/repo/iodata/test/data",
    ):
        if os.path.isdir(cand):
            return cand
    return None


# ----------------------------------------------------------------------------------------------
# generated cases
# ----------------------------------------------------------------------------------------------


@st.composite
def case_strategy(draw, target):
    lc, lp = LMAX[target]
    above = draw(st.sampled_from([0] * 9 + [1]))
    pure_ok = lp > 0 or draw(st.sampled_from([False] * 9 + [True]))
    lcart = lc + above
    lpure = (lp + above) if lp > 0 else (3 if pure_ok else 0)
    basis = draw(
        wf.st_basis(
            max_l_cart=lcart,
            max_l_pure=lpure,
            max_centers=6,
            max_shells=6,
            max_prim=3,
            max_con=3,
            conv_choices=("random", "random", NATIVE[target], "HORTON2", "CCA", "fchk", "molden", "wfn", "mwfn"),
            exp_range=(-2.0, 3.0),
            max_nbasis=45,
            balanced=True,
            center_orders=True,
        )
    )
    if target in ("molden", "molekel") and draw(st.sampled_from([True] * 9 + [False])):
        # Molden cannot mix pure and Cartesian shells of one angular momentum: mostly avoid it
        kinds = {l: draw(st.sampled_from(["c", "p"])) for l in range(2, 8)}
        for sh in basis["shells"]:
            for con in sh["cons"]:
                if con[0] >= 2:
                    kind = kinds[con[0]]
                    if kind == "p" and con[0] > lp + above:
                        kind = "c"
                    if kind == "c" and con[0] > lc + above:
                        kind = "p"
                    con[1] = kind
    order = draw(st.sampled_from(["asis", "asis", "sorted"]))
    if order == "sorted":
        basis["shells"] = sorted(basis["shells"], key=lambda sh: sh["icenter"])
    mo_kinds = ("restricted", "restricted", "unrestricted")
    mo = draw(wf.st_mo(kinds=mo_kinds, non_aufbau=True))
    if target == "fchk":
        # FCHK stores electron counts only: mostly aufbau occupations (which it must write), some
        # excited determinants (which it must refuse: they would silently come back as aufbau)
        choice = draw(st.sampled_from(["aufbau"] * 7 + ["non_aufbau"] * 2 + ["free"]))
        if choice == "aufbau":
            mo["occ"] = "open_integer" if mo["kind"] == "restricted" else "aufbau"
            mo["aminusb"] = False
        elif choice == "non_aufbau":
            mo["occ"] = "non_aufbau"
            mo["aminusb"] = False
    if draw(st.sampled_from([True] * 9 + [False])):
        mo["energies"] = True
    return {
        "kind": "generated",
        "target": target,
        "allow_changes": draw(st.booleans()),
        "basis": basis,
        "mo": mo,
        "nuclei": draw(st.sampled_from(["plain", "plain", "ecp", "ghost"])),
        "atnum_seed": draw(st.integers(0, 2**16)),
        "energy": draw(st.booleans()),
        "title": draw(st.booleans()),
        "rdm": draw(st.booleans()) if target == "fchk" else False,
        "mo_spin": draw(st.booleans()) if target == "wfn" else False,
    }


def build_case(spec):
    """spec -> (IOData object, truth dict, labels)."""
    from iodata import IOData

    plain = wf.build_basis(spec["basis"])
    mo = wf.build_mo(spec["mo"], plain)
    ncenter = len(plain["centers"])
    rng = np.random.Generator(np.random.PCG64(spec["atnum_seed"]))
    atnums = rng.integers(1, 55, size=ncenter)
    atcorenums = atnums.astype(float)
    labels = []
    if spec["nuclei"] == "ecp":
        i = int(rng.integers(ncenter))
        atnums[i] = int(rng.integers(11, 55))
        atcorenums = atnums.astype(float)
        atcorenums[i] = atnums[i] - 10
        labels += ["ecp", "core_charges_differ"]
    elif spec["nuclei"] == "ghost":
        i = int(rng.integers(ncenter))
        atcorenums[i] = 0.0
        labels += ["ghost", "core_charges_differ"]
    kwargs = {
        "atnums": atnums,
        "atcoords": plain["centers"].copy(),
        "obasis": wf.to_iodata_basis(plain, only_used=False),
        "mo": wf.to_iodata_mo(mo),
    }
    if spec["nuclei"] != "plain":
        kwargs["atcorenums"] = atcorenums.copy()
    if spec["energy"]:
        kwargs["energy"] = float(-np.round(rng.uniform(1, 900), 6))
    if spec["title"]:
        kwargs["title"] = "generated wavefunction %d" % spec["atnum_seed"]
    one_rdms = {}
    if spec.get("rdm") and mo["coeffs"] is not None and mo["occs"] is not None:
        occsa, occsb = wf.spin_occupations(mo)
        sets = W.spin_sets(mo)
        dma = (sets[0][1] * occsa) @ sets[0][1].T
        dmb = (sets[1][1] * occsb) @ sets[1][1].T
        one_rdms = {"scf": dma + dmb, "scf_spin": dma - dmb}
        kwargs["one_rdms"] = {k: v.copy() for k, v in one_rdms.items()}
    extra = {}
    if spec.get("mo_spin"):
        if spec["mo_spin"] == "restricted_codes" and mo["kind"] == "restricted":
            # as loaded from a restricted WFN file with a $MOSPIN section (used by C09 only)
            extra["mo_spin"] = np.full(mo["norba"], 3)
        elif mo.get("occs_aminusb") is not None:
            # the announced conversion writes alpha and beta orbitals separately
            extra["mo_spin"] = np.array([1] * mo["norba"] + [2] * mo["norbb"])
        elif mo["kind"] == "restricted":
            extra["mo_spin"] = np.full(mo["norba"], 3)
        else:
            extra["mo_spin"] = np.array([1] * mo["norba"] + [2] * mo["norbb"])
    if extra:
        kwargs["extra"] = extra
    data = IOData(**kwargs)
    truth = {
        "atnums": atnums,
        "atcorenums": atcorenums,
        "centers": plain["centers"],
        "basis": plain,
        "mo": mo,
        "one_rdms": one_rdms,
    }
    # ---- labels (generator distribution + predicates of known findings) ------------------
    icenters = [sh["icenter"] for sh in plain["shells"]]
    if icenters != sorted(icenters):
        labels.append("unsorted_shells")
    if sorted(set(icenters)) != list(range(max(icenters) + 1)):
        labels.append("skipped_center")
    native = wf.named_conventions(NATIVE[spec["target"]])
    used = {(l, k) for sh in plain["shells"] for l, k in zip(sh["angmoms"], sh["kinds"])}
    if any(plain["conventions"][key] != native.get(key) for key in used if key[0] >= 2):
        labels.append("nonnative_conventions")
    if any(plain["conventions"][key] != native.get(key) for key in used if key[0] < 2):
        labels.append("nonnative_sp_conventions")
    if any(len(sh["angmoms"]) > 1 for sh in plain["shells"]):
        labels.append("generalized")
    if any(k == "p" for _, k in used):
        labels.append("pure")
    if mo["kind"] == "unrestricted":
        labels.append("unrestricted")
    elif mo.get("occs_aminusb") is not None:
        labels.append("occs_aminusb")
    occsa, occsb = wf.spin_occupations(mo)
    if abs(occsa.sum() - occsb.sum()) > 1e-9:
        labels.append("open_shell")
    if abs(mo["occs"].sum() - round(mo["occs"].sum())) > 1e-9:
        labels.append("fractional_nelec")
    if not (np.all(np.isin(occsa, (0.0, 1.0))) and np.all(np.isin(occsb, (0.0, 1.0)))):
        labels.append("fractional_occupations")
    elif np.any(np.diff(occsa) > 0) or np.any(np.diff(occsb) > 0):
        labels.append("non_aufbau_occupations")
    if mo["kind"] == "restricted" and int(round(mo["occs"].sum())) % 2 == 1:
        labels.append("restricted_odd")
    if spec.get("rdm"):
        labels.append("one_rdms")
    return data, truth, labels


def loaded_truth(loaded):
    return W.truth_from_iodata(loaded)


def convert_and_compare(data, truth, target, allow_changes, tmpdir, seed, tag):
    """Dump ``data`` to ``target``, reload, compare with ``truth``. Returns (problems, info)."""
    from iodata import dump_one, load_one

    path = os.path.join(tmpdir, f"{tag}.{EXT[target]}")
    info = {"written": False, "dump_error": None}
    with warnings.catch_warnings(record=True):
        warnings.simplefilter("always")
        try:
            dump_one(data, path, allow_changes=allow_changes)
        except Exception as exc:
            info["dump_error"] = type(exc).__name__
            if os.path.exists(path):
                os.remove(path)
            return [], info
    info["written"] = True
    prefix = f"C01/{target}"
    with warnings.catch_warnings(record=True):
        warnings.simplefilter("always")
        try:
            loaded = load_one(path)
        except Exception as exc:
            cause = exc.__cause__
            return [
                Problem(
                    f"{prefix}/unreadable",
                    f"file written without error cannot be read back: {exc!r}"
                    + (f" caused by {cause!r}" if cause is not None else ""),
                )
            ], info
        finally:
            if os.path.exists(path):
                os.remove(path)
    try:
        got = loaded_truth(loaded)
    except Exception as exc:
        return [Problem(f"{prefix}/unreadable_object", f"{exc!r}")], info
    mo = truth["mo"]
    ambiguous = (
        target == "wfn"
        and (data.extra or {}).get("mo_spin") is None
        and (
            float(np.max(mo["occs"])) <= 1.0
            or mo["kind"] == "unrestricted"
            or mo.get("occs_aminusb") is not None
        )
    )
    diffs = W.compare(truth, got, target, seed, prefix, ambiguous_spin=ambiguous)
    return [Problem(bucket, msg) for bucket, msg in diffs], info


def check_generated(spec, tmpdir):
    try:
        data, truth, labels = build_case(spec)
    except wf.DegenerateBasis:
        return [], ["degenerate_basis_skipped"], {"written": False, "dump_error": None}
    problems, info = convert_and_compare(
        data, truth, spec["target"], spec["allow_changes"], tmpdir, spec["atnum_seed"], "gen"
    )
    labels = labels + [f"target:{spec['target']}"]
    if info["written"]:
        labels.append("written")
    else:
        labels.append(f"dump_error:{info['dump_error']}")
    return problems, labels, info


NT_LABELS = {
    "unsorted_shells", "nonnative_conventions", "generalized", "pure", "ecp", "ghost",
    "unrestricted", "open_shell", "occs_aminusb", "non_aufbau_occupations",
}


def shard_generated(ctx, target, max_examples):
    tmpdir = ctx.tmpdir

    def body(spec):
        problems, labels, info = check_generated(spec, tmpdir)
        nontrivial = info["written"] and bool(NT_LABELS & set(labels))
        return problems, nontrivial, labels

    drive(ctx, case_strategy(target), body, max_examples, name=f"gen_{target}")


# ----------------------------------------------------------------------------------------------
# corpus conversions
# ----------------------------------------------------------------------------------------------

CORPUS_PATTERNS = ["*.fchk", "*.molden", "*.molden.input", "*.mkl", "*.wfn", "*.wfx", "*.mwfn", "*.cp2k.out"]


def corpus_files(tier):
    root = corpus_dir()
    if root is None:
        return []
    files = []
    for pat in CORPUS_PATTERNS:
        files += glob.glob(os.path.join(root, pat))
    limit = 10**9 if tier == "thorough" else 70000
    return sorted(f for f in set(files) if os.path.getsize(f) <= limit)


def check_corpus(spec, tmpdir):
    from iodata import load_one

    root = corpus_dir()
    path = os.path.join(root, spec["file"])
    with warnings.catch_warnings(record=True):
        warnings.simplefilter("always")
        try:
            data = load_one(path)
        except Exception:
            return None  # not loadable (some corpus files are deliberately broken)
    if data.mo is None or data.obasis is None or data.mo.coeffs is None or data.atcoords is None:
        return None
    if data.mo.kind == "generalized" or data.mo.occs is None or data.mo.occs.sum() < 1:
        return None  # the property quantifies over wavefunctions with at least one electron
    try:
        truth = W.truth_from_iodata(data)
    except Exception:
        return None
    problems, info = convert_and_compare(
        data, truth, spec["target"], spec["allow_changes"], tmpdir, 7, "corpus"
    )
    labels = [f"corpus:{spec['target']}", "written" if info["written"] else f"dump_error:{info['dump_error']}"]
    mo = truth["mo"]
    if mo["kind"] == "restricted" and int(round(mo["occs"].sum())) % 2 == 1:
        labels.append("restricted_odd")
    if abs(mo["occs"].sum() - round(mo["occs"].sum())) > 1e-9:
        labels.append("fractional_nelec")
    if np.abs(truth["atcorenums"] - truth["atnums"]).max() > 0:
        labels += ["ecp", "core_charges_differ"]
    icenters = [sh["icenter"] for sh in truth["basis"]["shells"]]
    if icenters != sorted(icenters):
        labels.append("unsorted_shells")
    if icenters and sorted(set(icenters)) != list(range(max(icenters) + 1)):
        labels.append("skipped_center")
    return problems, labels, info


def shard_corpus(ctx, part, nparts):
    files = corpus_files(ctx.tier)
    idx = 0
    for path in files:
        for target in TARGETS:
            for allow in (False, True):
                idx += 1
                if idx % nparts != part:
                    continue
                spec = {
                    "kind": "corpus", "file": os.path.basename(path), "target": target,
                    "allow_changes": allow,
                }
                out = check_corpus(spec, ctx.tmpdir)
                if out is None:
                    ctx.skipped["corpus_source_not_a_wavefunction"] += 1
                    continue
                problems, labels, info = out
                ctx.record(spec, info["written"], labels)
                ctx.report(spec, problems, labels)


def shards(tier, seed):
    big = tier == "thorough"
    out = []
    for target in TARGETS:
        for i in range(2):
            out.append(
                (f"gen_{target}_{i}", "shard_generated", {"target": target, "max_examples": 2500 if big else 60})
            )
    nparts = 6
    for part in range(nparts):
        out.append((f"corpus{part}", "shard_corpus", {"part": part, "nparts": nparts}))
    return out


def replay(entry):
    import tempfile
    import shutil

    spec = entry["spec"]
    tmpdir = tempfile.mkdtemp(prefix="ivp_c01_replay_")
    try:
        if spec["kind"] == "generated":
            return check_generated(spec, tmpdir)[0]
        out = check_corpus(spec, tmpdir)
        return [] if out is None else out[0]
    finally:
        shutil.rmtree(tmpdir, ignore_errors=True)
