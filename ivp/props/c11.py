"""C11 - charge, electron count and core charges stay consistent under any assignments.

Histories are plain-data programs: a constructor call with any subset of arguments followed by
assignments / clearings / reads.  (a) exhaustive enumeration to a bounded depth over a reduced
alphabet, (b) Hypothesis RuleBasedStateMachine over a larger alphabet.  Oracle: reference model
M1 = the statement itself (last successful assignments + whether core charges were set
explicitly).  Observation never perturbs the history: all public properties are read on a deep
copy of the object.
"""

from __future__ import annotations

import copy
import itertools

import numpy as np
from hypothesis import strategies as st
from hypothesis.stateful import RuleBasedStateMachine, initialize, rule

from ..oracles import snapshot as S
from ..runner import Problem, _fail_type, drive_machine

ID = "C11"
LEVEL = "exploration"
RULE = (
    "Histories = construct with any subset of {atnums, atcorenums, charge, nelec, spinpol, mo, "
    "atcoords, atmasses, atgradient, atfrozen} then assign / clear any of them or read any "
    "property; value alphabets incl. None, fractional charges, arrays of lengths 0-3, two orbital "
    "sets. Exhaustive to depth 3 (quick) / 4 (thorough) over a reduced alphabet + Hypothesis "
    "state machine (<= 40 steps). After every step the statement's invariants are evaluated on a "
    "deep copy (charge identity, read-back of assigned and of cleared values, core charges "
    "unchanged or defaulting to the atomic numbers, agreement with the orbitals, per-atom lengths, "
    "failed assignments leave every observable unchanged, reads idempotent). Non-trivial = a history with >= 1 successful assignment after a property read "
    "(lazy-default interplay); distinct by spec hash."
)
ASSUMPTIONS = [
    "copy.deepcopy of an IOData object reproduces its private state (used to observe without "
    "perturbing the history)",
    "an assignment that raises although agreement would not be broken is not a violation, but "
    "must leave every observable unchanged",
]

TOL = 1e-10
PER_ATOM = ["atnums", "atcorenums", "atcoords", "atmasses", "atgradient", "atfrozen"]
READS = ["atcorenums", "charge", "nelec", "spinpol", "natom"]

# ----------------------------------------------------------------------------------------------
# value alphabet (named values so that programs are plain data)
# ----------------------------------------------------------------------------------------------


def make_mo(name):
    from iodata.orbitals import MolecularOrbitals

    if name == "M":  # restricted open shell: 3 electrons, spinpol 1
        return MolecularOrbitals("restricted", 3, 3, occs=[2.0, 1.0, 0.0])
    if name == "U":  # unrestricted, fractional: nelec 2.5, spinpol 0.5
        return MolecularOrbitals("unrestricted", 2, 2, occs=[1.0, 0.5, 1.0, 0.0])
    if name == "E":  # orbitals without occupations
        return MolecularOrbitals("restricted", 2, 2)
    raise ValueError(name)


MO_REF = {"M": (3.0, 1.0), "U": (2.5, 0.5), "E": (None, None)}

VALUES = {
    "atnums": {
        "A0": np.zeros(0, dtype=int), "A1": np.array([1]), "A2": np.array([8, 1]),
        "B2": np.array([1, 1]), "A3": np.array([6, 1, 1]),
    },
    "atcorenums": {
        "C1": np.array([1.0]), "C2": np.array([6.0, 1.0]), "F2": np.array([0.5, 1.5]),
        "C3": np.array([4.0, 1.0, 1.0]), "G2": np.array([0.0, 1.0]),
    },
    "charge": {"0": 0, "1": 1, "-1": -1, "0.5": 0.5, "2": 2},
    "nelec": {"0": 0, "1": 1, "2": 2, "9.5": 9.5, "10": 10},
    "spinpol": {"0": 0, "1": 1, "0.5": 0.5},
    "atcoords": {"X1": np.zeros((1, 3)), "X2": np.ones((2, 3)), "X3": np.full((3, 3), 2.0)},
    "atmasses": {"m2": np.array([1.0, 2.0]), "m3": np.array([1.0, 2.0, 3.0])},
    "atgradient": {"g2": np.zeros((2, 3)), "g3": np.zeros((3, 3))},
    "atfrozen": {"f2": np.array([True, False]), "f3": np.array([False, True, True])},
    "mo": {"M": "M", "U": "U", "E": "E"},
}


def value_of(attr, key):
    if key is None:
        return None
    if attr == "mo":
        return make_mo(key)
    val = VALUES[attr][key]
    return val.copy() if isinstance(val, np.ndarray) else val


def natoms_of(attr, key):
    val = VALUES[attr][key]
    return len(val)


# ----------------------------------------------------------------------------------------------
# observation (non-perturbing)
# ----------------------------------------------------------------------------------------------


def read_all(obj, reverse=False):
    out = {}
    names = READS + ["atnums", "atcoords", "atmasses", "atgradient", "atfrozen", "mo"]
    for name in reversed(names) if reverse else names:
        try:
            val = getattr(obj, name)
        except Exception as exc:
            val = ("raises", type(exc).__name__)
        out[name] = val
    return out


def same(a, b):
    if isinstance(a, tuple) and a and a[0] == "raises":
        return a == b
    if a is None or b is None:
        return a is None and b is None
    if isinstance(a, np.ndarray) or isinstance(b, np.ndarray):
        a, b = np.asarray(a), np.asarray(b)
        return a.shape == b.shape and bool(np.all(a == b))
    if hasattr(a, "kind") and hasattr(a, "norba"):
        return S.snap(a) == S.snap(b)
    try:
        return abs(a - b) <= TOL * (1 + abs(b))
    except TypeError:
        return a == b


def observe(data, reverse=False):
    """Read every public property on a deep copy (in the given order).

    Idempotence is checked property by property on separate copies: reading P twice returns the
    same value and leaves the same state as reading it once.  (Reading a property may fill in
    the lazy default core charges, so reads of *different* properties are not compared.)
    """
    clone = copy.deepcopy(data)
    first = read_all(clone, reverse)
    problems = []
    if not reverse:
        for name in READS:
            probe = copy.deepcopy(data)
            try:
                v1 = getattr(probe, name)
                s1 = S.snap(probe)
                v2 = getattr(probe, name)
                s2 = S.snap(probe)
            except Exception:
                continue  # reported through check_invariants (read_raises)
            if not same(v1, v2) or s1 != s2:
                problems.append(
                    Problem("C11/read_not_idempotent", f"reading {name} twice: {v1!r} then {v2!r}")
                )
    return first, problems


def obs_equal(o1, o2):
    for name in o1:
        if not same(o1[name], o2[name]):
            return name
    return None


# ----------------------------------------------------------------------------------------------
# the model
# ----------------------------------------------------------------------------------------------


class Model:
    def __init__(self):
        self.atnums = None
        self.core = None  # explicitly assigned core charges
        self.cached_from = None  # atnums value from which the lazy default was materialised
        self.mo = None
        self.arrays = {"atcoords": None, "atmasses": None, "atgradient": None, "atfrozen": None}

    def expected_core(self):
        if self.core is not None:
            return VALUES["atcorenums"][self.core]
        if self.atnums is not None:
            return VALUES["atnums"][self.atnums].astype(float)
        return None

    def lengths(self, skip=None):
        out = {}
        if self.atnums is not None and skip != "atnums":
            out["atnums"] = natoms_of("atnums", self.atnums)
        if self.core is not None and skip != "atcorenums":
            out["atcorenums"] = natoms_of("atcorenums", self.core)
        for name, key in self.arrays.items():
            if key is not None and skip != name:
                out[name] = natoms_of(name, key)
        return out

    def breaks_agreement(self, attr, key):
        """Would assigning (attr=key) leave two per-atom arrays with different lengths?"""
        if key is None or attr not in PER_ATOM:
            return False
        others = self.lengths(skip=attr)
        if attr == "atnums" and self.core is None:
            pass  # default core charges simply follow the new atomic numbers
        n = natoms_of(attr, key)
        return any(v != n for v in others.values())

    def touch_default(self):
        """An access that is documented to fill in the default core charges (reads of atcorenums /
        charge, assignments of charge).  Only used to recognise the *known* stale-default finding
        precisely; the statement itself says the default always follows the atomic numbers."""
        if self.core is None and self.cached_from is None and self.atnums is not None:
            self.cached_from = self.atnums

    def known_stale_value(self):
        if self.core is None and self.cached_from is not None:
            return VALUES["atnums"][self.cached_from].astype(float)
        return None

    def assign(self, attr, key):
        if attr == "atnums":
            self.atnums = key
        elif attr == "atcorenums":
            self.core = key
            self.cached_from = None
        elif attr == "mo":
            self.mo = key
        elif attr in self.arrays:
            self.arrays[attr] = key


def check_invariants(obs, model, when):
    problems = []
    core, nelec, charge = obs["atcorenums"], obs["nelec"], obs["charge"]
    for name in READS:
        if isinstance(obs[name], tuple):
            problems.append(Problem(f"C11/read_raises/{name}", f"{when}: reading {name} raised {obs[name][1]}"))
            return problems
    if core is not None and nelec is not None:
        if charge is None or abs(charge - (np.sum(core) - nelec)) > TOL * (1 + abs(np.sum(core))):
            problems.append(
                Problem(
                    "C11/charge_identity",
                    f"{when}: charge {charge!r} != sum(atcorenums) {np.sum(core)!r} - nelec {nelec!r}",
                )
            )
    want = model.expected_core()
    if not same(core, want):
        if model.core is None:
            known = model.known_stale_value()
            stale = known is not None and same(core, known)
            bucket = "C11/atcorenums/stale_default" if stale else "C11/atcorenums/default_wrong"
        else:
            bucket = "C11/atcorenums/explicit_lost"
        problems.append(
            Problem(bucket, f"{when}: atcorenums {core!r}, expected {want!r} (atnums {obs['atnums']!r})")
        )
    if model.mo is not None:
        rn, rs = MO_REF[model.mo]
        if not same(nelec, rn):
            problems.append(Problem("C11/mo/nelec", f"{when}: nelec {nelec!r} != orbitals' {rn!r}"))
        if not same(obs["spinpol"], rs):
            problems.append(Problem("C11/mo/spinpol", f"{when}: spinpol {obs['spinpol']!r} != {rs!r}"))
    lengths = {}
    for name in PER_ATOM:
        val = obs[name]
        if val is not None and not isinstance(val, tuple):
            lengths[name] = len(val)
    if len(set(lengths.values())) > 1:
        problems.append(Problem("C11/natom_disagreement", f"{when}: per-atom arrays disagree: {lengths}"))
    elif lengths and obs["natom"] != next(iter(lengths.values())):
        problems.append(Problem("C11/natom_value", f"{when}: natom {obs['natom']} vs arrays {lengths}"))
    return problems


# ----------------------------------------------------------------------------------------------
# running a program
# ----------------------------------------------------------------------------------------------


def run_program(spec):
    """spec = {"ctor": {attr: key}, "ops": [["set", attr, key] | ["read", name], ...]}."""
    from iodata import IOData

    info = {"reads": 0, "assign_after_read": 0}
    model = Model()
    kwargs = {attr: value_of(attr, key) for attr, key in spec["ctor"].items()}
    lens = {a: natoms_of(a, k) for a, k in spec["ctor"].items() if a in PER_ATOM and k is not None}
    ctor_breaks = len(set(lens.values())) > 1
    try:
        data = IOData(**kwargs)
        built = None
    except Exception as exc:
        built = exc
    if ctor_breaks:
        if built is None:
            return [Problem("C11/ctor_accepts_disagreement", f"IOData({spec['ctor']}) accepted")], info
        if not isinstance(built, TypeError):
            return [Problem("C11/ctor_wrong_exception", f"IOData({spec['ctor']}) raised {built!r}")], info
        return [], info
    if built is not None:
        # refusing a consistent construction is allowed (e.g. nelec together with orbitals)
        info["ctor_refused"] = 1
        return [], info
    for attr, key in spec["ctor"].items():
        model.assign(attr, key)
    if spec["ctor"].get("charge") is not None:
        model.touch_default()
    obs, problems = observe(data)
    problems += check_invariants(obs, model, "after construction")
    rev_obs, rev_problems = observe(data, reverse=True)
    problems += rev_problems + check_invariants(rev_obs, model, "after construction (reverse read order)")
    ctor = spec["ctor"]
    if not problems:
        has_core = ctor.get("atnums") is not None or ctor.get("atcorenums") is not None
        if ctor.get("mo") is None:
            for name in ("nelec", "spinpol"):
                if name == "nelec" and has_core and ctor.get("charge") is not None:
                    continue  # charge, nelec and core charges all given: precedence unspecified
                if ctor.get(name) is not None and not same(obs[name], VALUES[name][ctor[name]]):
                    problems.append(Problem(f"C11/ctor_readback/{name}", f"{ctor}: {name} reads {obs[name]!r}"))
        if ctor.get("charge") is not None and not (has_core and ctor.get("nelec") is not None):
            if not (has_core and ctor.get("mo") is not None):
                if not same(obs["charge"], VALUES["charge"][ctor["charge"]]):
                    problems.append(Problem("C11/ctor_readback/charge", f"{ctor}: charge reads {obs['charge']!r}"))
    if problems:
        return problems, info
    for step, op in enumerate(spec["ops"]):
        when = f"step {step} {op}"
        if op[0] == "read":
            name = op[1]
            info["reads"] += 1
            if name in ("atcorenums", "charge"):
                model.touch_default()
            # reference: the same property read first on a copy taken just before (reads of *other*
            # properties may fill in the lazy default core charges, so obs[name], which was read
            # after atcorenums / charge, is not the reference)
            probe = copy.deepcopy(data)
            try:
                expected = getattr(probe, name)
            except Exception as exc:
                expected = ("raises", repr(exc))
            try:
                got = getattr(data, name)
            except Exception as exc:
                return [Problem(f"C11/read_raises/{name}", f"{when}: {exc!r}")], info
            if not same(got, expected):
                return [Problem("C11/read_differs_from_copy", f"{when}: {got!r} vs {expected!r}")], info
            new_obs, problems = observe(data)
            bad = obs_equal(obs, new_obs)
            if bad is not None:
                problems.append(Problem("C11/read_changes_observable", f"{when}: {bad} changed by a read"))
            if problems:
                return problems, info
            obs = new_obs
            continue
        _, attr, key = op
        val = value_of(attr, key)
        breaks = model.breaks_agreement(attr, key)
        try:
            setattr(data, attr, val)
            outcome = None
        except Exception as exc:
            outcome = exc
        if attr == "charge":
            model.touch_default()  # the charge setter consults the core charges, also when it fails
        new_obs, problems = observe(data)
        if outcome is not None:
            if breaks and not isinstance(outcome, TypeError):
                problems.append(Problem("C11/break_wrong_exception", f"{when}: raised {outcome!r}"))
            if attr in ("nelec", "spinpol") and model.mo is not None and not isinstance(outcome, TypeError):
                problems.append(Problem("C11/mo/assign_wrong_exception", f"{when}: raised {outcome!r}"))
            bad = obs_equal(obs, new_obs)
            if bad is not None:
                problems.append(
                    Problem(
                        f"C11/failed_assignment_changes/{attr}",
                        f"{when} raised {type(outcome).__name__} but {bad} changed: "
                        f"{obs[bad]!r} -> {new_obs[bad]!r}",
                    )
                )
            if problems:
                return problems, info
            obs = new_obs
            continue
        # successful assignment
        if breaks:
            return [Problem("C11/break_accepted", f"{when}: accepted although per-atom lengths disagree")], info
        if attr in ("nelec", "spinpol") and model.mo is not None:
            return [Problem("C11/mo/assign_accepted", f"{when}: accepted although orbitals are present")], info
        model.assign(attr, key)
        if info["reads"]:
            info["assign_after_read"] += 1
        problems += check_invariants(new_obs, model, "after " + when)
        rev_obs, rev_problems = observe(data, reverse=True)
        problems += rev_problems + check_invariants(rev_obs, model, "after " + when + " (reverse read order)")
        if attr in ("charge", "nelec", "spinpol") and val is not None and not same(rev_obs[attr], val):
            problems.append(
                Problem(f"C11/readback/{attr}", f"{when}: reads back {rev_obs[attr]!r} (reverse read order)")
            )
        if attr in ("charge", "nelec", "spinpol"):
            if val is not None and not same(new_obs[attr], val):
                problems.append(
                    Problem(f"C11/readback/{attr}", f"{when}: reads back {new_obs[attr]!r}")
                )
            if attr in ("nelec", "spinpol") and val is None and model.mo is None:
                # read first on a fresh copy: a later read of atcorenums / charge may legitimately
                # re-derive the electron count from a stored charge (lazy default core charges)
                direct = getattr(copy.deepcopy(data), attr)
                if direct is not None:
                    problems.append(
                        Problem(f"C11/clear_readback/{attr}", f"{when}: {attr} was cleared but reads back {direct!r}")
                    )
            if attr == "charge" and val is None and model.mo is None and new_obs["charge"] is not None:
                # clearing the charge is a successful assignment too; without orbitals nothing can
                # re-derive a charge, so it must read back as cleared
                core_kind = "explicit_core" if model.core is not None else ("default_core" if model.atnums is not None else "no_core")
                problems.append(
                    Problem(f"C11/clear_readback/charge/{core_kind}", f"{when}: charge was cleared but reads back {new_obs['charge']!r}")
                )
            if not same(new_obs["atcorenums"], obs["atcorenums"]):
                problems.append(
                    Problem(f"C11/core_changed_by/{attr}", f"{when}: atcorenums {obs['atcorenums']!r} -> {new_obs['atcorenums']!r}")
                )
        elif attr in ("atcoords", "atmasses", "atgradient", "atfrozen", "atnums"):
            if not same(new_obs[attr], val):
                problems.append(Problem(f"C11/readback/{attr}", f"{when}: reads back {new_obs[attr]!r}"))
        if problems:
            return problems, info
        obs = new_obs
    return [], info


# ----------------------------------------------------------------------------------------------
# exhaustive enumeration over a reduced alphabet
# ----------------------------------------------------------------------------------------------

REDUCED = {
    "atnums": [None, "A2", "B2", "A3"],
    "atcorenums": [None, "C2", "C3"],
    "charge": [None, "1", "0.5"],
    "nelec": [None, "2", "9.5"],
    "spinpol": [None, "1"],
    "mo": [None, "M"],
    "atcoords": [None, "X2", "X3"],
    "atmasses": [None, "m2"],
}
CTORS = [
    {},
    {"atnums": "A2"},
    {"atnums": "A2", "charge": "1"},
    {"atnums": "A2", "nelec": "9.5"},
    {"atcorenums": "C2", "nelec": "2"},
    {"charge": "1"},
    {"nelec": "2", "charge": "0.5"},
    {"mo": "M"},
    {"atnums": "A2", "mo": "M"},
    {"atnums": "A2", "atcoords": "X3"},
    {"atnums": "A2", "atcorenums": "C2", "charge": "0", "atcoords": "X2", "atmasses": "m2"},
    {"atnums": "A3", "atcorenums": "C2"},
    {"atnums": "A2", "spinpol": "1", "charge": "-1"},
]


def reduced_ops():
    ops = [["set", attr, key] for attr, keys in REDUCED.items() for key in keys]
    ops += [["read", "atcorenums"], ["read", "charge"]]
    return ops


def shard_enumerate(ctx, part, nparts, depth):
    ops = reduced_ops()
    firsts = [(ic, i0) for ic in range(len(CTORS)) for i0 in range(len(ops))]
    for idx, (ic, i0) in enumerate(firsts):
        if idx % nparts != part:
            continue
        ctor = CTORS[ic]
        if i0 == 0:
            spec = {"ctor": ctor, "ops": []}
            problems, info = run_program(spec)
            ctx.record(spec, False, ["enum:depth=0"])
            ctx.report(spec, problems)
        for d in range(1, depth + 1):
            for rest in itertools.product(ops, repeat=d - 1):
                spec = {"ctor": ctor, "ops": [ops[i0]] + [list(o) for o in rest]}
                problems, info = run_program(spec)
                ctx.record(spec, info["assign_after_read"] > 0, [f"enum:depth={d}"])
                ctx.report(spec, problems, size=d * 100 + len(ctor))


# ----------------------------------------------------------------------------------------------
# Hypothesis state machine
# ----------------------------------------------------------------------------------------------

SET_OPS = [("set", attr, key) for attr, table in VALUES.items() for key in [None] + list(table)]
READ_OPS = [("read", name) for name in READS]


class IODataMachine(RuleBasedStateMachine):
    ctx = None
    last_failure = None

    def __init__(self):
        super().__init__()
        self.spec = None

    @initialize(
        ctor=st.dictionaries(
            st.sampled_from(list(VALUES)), st.integers(0, 5), max_size=5
        )
    )
    def construct(self, ctor):
        chosen = {}
        for attr, idx in ctor.items():
            keys = list(VALUES[attr])
            chosen[attr] = keys[idx % len(keys)]
        self.spec = {"ctor": chosen, "ops": []}
        self.evaluate()

    @rule(op=st.sampled_from(SET_OPS))
    def assign(self, op):
        self.spec["ops"].append(list(op))
        self.evaluate()

    @rule(op=st.sampled_from(READ_OPS))
    def read(self, op):
        self.spec["ops"].append(list(op))
        self.evaluate()

    def evaluate(self):
        spec = {"ctor": dict(self.spec["ctor"]), "ops": [list(o) for o in self.spec["ops"]]}
        problems, info = run_program(spec)
        labels = [f"machine:len={min(len(spec['ops']) // 5 * 5, 40)}"]
        if info.get("ctor_refused"):
            labels.append("machine:ctor_refused")
        self.ctx.record(spec, info["assign_after_read"] > 0, labels)
        unknown = self.ctx.filter(spec, problems, labels)
        if unknown:
            type(self).last_failure = (spec, unknown[0], labels)
            raise _fail_type(unknown[0]["bucket"])(unknown[0]["message"])


def shard_machine(ctx, max_examples, steps):
    drive_machine(ctx, IODataMachine, max_examples, steps, name="iodata_machine")


def shards(tier, seed):
    big = tier == "thorough"
    out = []
    nparts = 12
    for part in range(nparts):
        out.append((f"enum{part}", "shard_enumerate", {"part": part, "nparts": nparts, "depth": 4 if big else 3}))
    for i in range(4):
        out.append((f"machine{i}", "shard_machine", {"max_examples": 1500 if big else 100, "steps": 40}))
    return out


def replay(entry):
    return run_program(entry["spec"])[0]
