"""C03 - loaded values are exactly what the file says under the format's layout.

Files come from the independent spec writers (oracle W, ivp/oracles/specwriters): a random
molecular model is written following the published layout of the format; iodata's reader must
return what the writer says the file states.
"""

from __future__ import annotations

import importlib
import os
import warnings

import numpy as np

from ..oracles.specwriters import selftest as WSELF
from ..runner import Problem, drive

ID = "C03"
LEVEL = "exploration"
RULE = (
    "For every format with a spec writer (see coverage.formats_covered / formats_not_covered) "
    "Hypothesis draws a molecular model with sizes and magnitudes from boundary classes (counts "
    "99/100/101/999/1000/9999/10000, coordinates filling or crossing the field width, optional "
    "sections absent, alternative legal orders / spellings); the spec writer produces the file "
    "from the published layout and the values a correct reader must return. Oracle: load_one "
    "returns each stated attribute (labels, indices, counts exactly; reals within half a unit of "
    "the last digit in the file plus 2e-9 relative slack for unit constants). Non-trivial = the "
    "file loaded and exercises >= 1 boundary class or optional-section variant (labels of the "
    "writer); distinct by spec hash."
)
ASSUMPTIONS = [
    "the spec writers transcribe the public format descriptions (and, for program logs, the "
    "layout seen in the repository's fixtures); each is self-tested by an independent re-parser",
    "in the writer's extended (non-core) feature set a refusal (LoadError) is only counted",
]
UNIT_SLACK = 2e-9


def formats():
    have = WSELF.available()
    only = os.environ.get("IVP_ONLY_FORMATS")
    if only:
        have = [f for f in have if f in only.split(",")]
    return have


def selftest():
    for fmt in formats():
        WSELF.run(fmt, nexample=25)


def walk(obj, path):
    cur = obj
    for part in path:
        if cur is None:
            return False, None
        if isinstance(cur, dict):
            if part not in cur:
                return False, None
            cur = cur[part]
        else:
            if not hasattr(cur, part):
                return False, None
            cur = getattr(cur, part)
    return cur is not None, cur


def compare_expected(fmt, exp, data):
    problems = []
    for path, (value, mode, tol) in exp.items():
        name = ".".join(str(p) for p in path)
        if mode == "wavefunction":
            problems += compare_wavefunction(fmt, value, tol, data)
            continue
        found, got = walk(data, path)
        if mode == "absent":
            if found:
                problems.append(Problem(f"C03/{fmt}/{name}/unexpected", f"{name} should be absent, got {str(got)[:80]}"))
            continue
        if not found:
            problems.append(Problem(f"C03/{fmt}/{name}/missing", f"{name} stated in the file but not loaded"))
            continue
        try:
            if mode == "exact":
                a, b = np.asarray(got), np.asarray(value)
                ok = a.shape == b.shape and bool(np.all(a == b))
            elif mode in ("abs", "rel"):
                a, b = np.asarray(got, dtype=float), np.asarray(value, dtype=float)
                if a.shape != b.shape:
                    ok = False
                else:
                    bound = (tol if mode == "abs" else tol * np.abs(b)) + UNIT_SLACK * np.abs(b)
                    ok = bool(np.all(np.abs(a - b) <= bound))
            elif mode == "set":
                a = {tuple(int(x) for x in row) for row in np.asarray(got).reshape(-1, np.asarray(value).shape[-1])}
                b = {tuple(int(x) for x in row) for row in np.asarray(value)}
                ok = a == b and len(np.asarray(got)) == len(np.asarray(value))
            else:
                raise ValueError(mode)
        except Exception as exc:
            problems.append(Problem(f"C03/{fmt}/{name}/uncomparable", f"{name}: {exc!r}"))
            continue
        if not ok:
            problems.append(Problem(f"C03/{fmt}/{name}", f"{name}: {describe(value, got)}"))
    return problems


def compare_wavefunction(fmt, truth, digits, data):
    """Compare the loaded nuclei / basis / orbitals with ``truth`` as functions of space."""
    from ..oracles import wfcompare as W

    try:
        got = W.truth_from_iodata(data)
    except Exception as exc:
        return [Problem(f"C03/{fmt}/wavefunction/unreadable", f"{exc!r}")]
    key = f"__c03_{fmt}"
    W.FORMAT_DIGITS[key] = digits
    mo = truth["mo"]
    ambiguous = bool(truth.get("ambiguous_spin"))
    del mo
    diffs = W.compare(truth, got, key, 11, "wavefunction", ambiguous_spin=ambiguous)
    return [Problem(f"C03/{fmt}/{bucket}", msg) for bucket, msg in diffs]


def describe(want, got):
    try:
        a, b = np.asarray(want), np.asarray(got)
        if a.shape != b.shape:
            return f"shape in file {a.shape}, loaded {b.shape}"
        if a.dtype.kind in "fiub" and b.dtype.kind in "fiub" and a.size:
            diff = np.abs(a.astype(float) - b.astype(float))
            idx = np.unravel_index(int(np.argmax(diff)), diff.shape) if diff.ndim else ()
            return f"file says {a[idx]!r}, loaded {b[idx]!r} at index {tuple(int(i) for i in idx)} ({int((diff > 0).sum())} elements differ)"
        bad = [i for i, (x, y) in enumerate(zip(a.ravel().tolist(), b.ravel().tolist())) if x != y]
        if bad:
            return f"file says {a.ravel()[bad[0]]!r}, loaded {b.ravel()[bad[0]]!r} at flat index {bad[0]}"
    except Exception:
        pass
    return f"file says {str(want)[:60]!r}, loaded {str(got)[:60]!r}"


def check_case(fmt, spec, tmpdir):
    from iodata import load_one
    from iodata.utils import LoadError

    mod = importlib.import_module(f"ivp.oracles.specwriters.{fmt}")
    model = mod.build(spec)
    text = mod.write(model)
    labels = [f"fmt:{fmt}"] + list(mod.labels(spec, model))
    core = mod.core(spec, model)
    path = os.path.join(tmpdir, mod.FILENAME)
    with open(path, "w") as fh:
        fh.write(text)
    kwargs = getattr(mod, "load_kwargs", lambda m: {})(model)
    try:
        with warnings.catch_warnings(record=True):
            warnings.simplefilter("always")
            try:
                data = load_one(path, **kwargs)
            except LoadError as exc:
                if core:
                    cause = type(exc.__cause__).__name__ if exc.__cause__ is not None else "LoadError"
                    return [
                        Problem(f"C03/{fmt}/refused/{cause}", f"well-formed file refused: {exc!r} caused by {exc.__cause__!r}")
                    ], labels, False
                return [], labels + ["refused_extended"], False
            except Exception as exc:
                return [Problem(f"C03/{fmt}/crash", f"{exc!r}")], labels, False
    finally:
        os.remove(path)
    problems = compare_expected(fmt, mod.expected(model), data)
    return problems, labels + ["core" if core else "extended"], True


def shard_format(ctx, fmt, max_examples):
    mod = importlib.import_module(f"ivp.oracles.specwriters.{fmt}")
    tmpdir = ctx.tmpdir

    def body(spec):
        problems, labels, loaded = check_case(fmt, spec, tmpdir)
        nontrivial = loaded and len(labels) > 2
        return problems, nontrivial, labels

    drive(ctx, mod.st_model(ctx.tier == "thorough").map(lambda s: dict(s, fmt=fmt)), body, max_examples, name=f"w_{fmt}")


ALL_MODULES = [
    "charmm", "chgcar", "cp2klog", "cube", "extxyz", "fchk", "fcidump", "gamess", "gaussianinput",
    "gaussianlog", "gromacs", "json_qcschema", "locpot", "mol2", "molden", "molekel", "mwfn",
    "orcalog", "pdb", "poscar", "qchemlog", "sdf", "wfn", "wfx", "xyz",
]


def shards(tier, seed):
    big = tier == "thorough"
    return [
        (f"w_{fmt}", "shard_format", {"fmt": fmt, "max_examples": 1500 if big else 100})
        for fmt in formats()
    ]


def coverage_extra(tier, results):
    have = formats()
    return {
        "formats_covered": have,
        "formats_not_covered": [f for f in ALL_MODULES if f not in have],
    }


def replay(entry):
    import shutil
    import tempfile

    spec = dict(entry["spec"])
    fmt = spec.get("fmt") or entry.get("kwargs", {}).get("fmt")
    tmpdir = tempfile.mkdtemp(prefix="ivp_c03_replay_")
    try:
        return check_case(fmt, spec, tmpdir)[0]
    finally:
        shutil.rmtree(tmpdir, ignore_errors=True)
