"""C16 - results depend only on the arguments, not on call history or interleaving."""

from __future__ import annotations

import json
import os
import subprocess
import sys
from concurrent.futures import ThreadPoolExecutor

from hypothesis import strategies as st

from ..runner import Problem, drive

ID = "C16"
LEVEL = "exploration"
RULE = (
    "A pool of ~110 API calls (load_one / load_many on corpus files of all 25 format modules, with "
    "an explicit format where the name does not select the module, e.g. extended XYZ; dump_one for "
    "all 13 formats incl. canary objects that read each module table - atomic number 0, every bond "
    "type, foreign basis conventions -, dump_many, write_input, conversions, overlap, failing "
    "calls). Reference = each call alone in a fresh interpreter (run twice with different "
    "PYTHONHASHSEED, which must agree). Pair sweeps: every dump-like call (thorough: every call) "
    "followed by the whole pool in one interpreter; adjacency sweeps: a, b1, a, b2, ... so that "
    "every call b runs immediately after a (quick: a = one load per format module; thorough: every a). Histories: Hypothesis draws sequences (with repetitions) of "
    "pool calls, each executed in one fresh interpreter; schedules: the same sequences distributed "
    "over 2-16 threads with a 1 microsecond switch interval, and every family of calls into one "
    "format module (and all users of the overlap code) running simultaneously in 4 and 8 threads. Oracle: every call's digest (SNAP of "
    "the result | hash of the bytes written | exception class + normalised message) equals its "
    "reference and no module-level table of any iodata module changes. Non-trivial = a history in "
    "which a dump precedes a call of a different format; distinct by spec hash."
)
ASSUMPTIONS = [
    "thread interleavings are sampled (GIL, 1 us switch interval), not enumerated",
    "warnings are not part of a call's result",
]

HERE = os.path.dirname(os.path.dirname(os.path.abspath(__file__)))


def run_worker(history, threads=0, hashseed="0"):
    env = dict(os.environ, PYTHONHASHSEED=str(hashseed), PYTHONWARNINGS="ignore")
    env["PYTHONPATH"] = HERE + os.pathsep + env.get("PYTHONPATH", "")
    cmd = [sys.executable, "-m", "ivp.c16_worker", "--history", ",".join(str(i) for i in history)]
    if threads:
        cmd += ["--threads", str(threads)]
    res = subprocess.run(cmd, capture_output=True, text=True, env=env, timeout=1200, cwd=HERE)
    if res.returncode != 0:
        raise RuntimeError(f"worker failed: {res.stderr[-800:]}")
    return json.loads(res.stdout.strip().splitlines()[-1])


def prepare(tier, seed):
    """Reference digests: every pool call alone in a fresh interpreter, twice."""
    env = dict(os.environ, PYTHONPATH=HERE + os.pathsep + os.environ.get("PYTHONPATH", ""))
    res = subprocess.run([sys.executable, "-m", "ivp.c16_worker", "--list"], capture_output=True, text=True, env=env, cwd=HERE, timeout=600)
    pool = json.loads(res.stdout.strip().splitlines()[-1])

    def ref(idx):
        a = run_worker([idx], hashseed="0")
        b = run_worker([idx], hashseed="12345")
        return idx, a, b

    with ThreadPoolExecutor(max_workers=16) as ex:
        results = list(ex.map(ref, range(len(pool))))
    reference, unstable, self_mod = {}, [], {}
    for idx, a, b in results:
        if a["digests"] != b["digests"]:
            unstable.append(idx)
            continue
        reference[str(idx)] = a["digests"][0]
        if a["table_changes"]:
            self_mod[str(idx)] = a["table_changes"][0]["diff"]
    return {"pool": pool, "reference": reference, "unstable": unstable, "self_modifying": self_mod}


def call_name(call):
    if call["op"] in ("load_one", "load_many", "convert", "overlap"):
        ext = call["file"].rsplit(".", 1)[-1] if "." in call["file"] else call["file"].split(".")[0]
        return f"{call['op']}:{ext}" + (f"->{call['fmt']}" if "fmt" in call else "")
    if call["op"] == "write_input":
        return f"write_input:{call['program']}"
    return f"{call['op']}:{call['fmt']}" + (f":{call['variant']}" if call.get("variant", "base") != "base" else "")


def table_name(diff):
    return diff.split(":")[0].split("[")[0]


def check_history(spec, prepared):
    pool, reference = prepared["pool"], prepared["reference"]
    history = [i for i in spec["history"] if str(i) in reference]
    if not history:
        return [], False, ["empty"]
    out = run_worker(history, spec.get("threads", 0))
    problems = []
    for pos, (idx, digest) in enumerate(zip(history, out["digests"])):
        if digest is None:
            digest = "none:the call did not return a result (its thread died)"
        if digest != reference[str(idx)]:
            earlier = [call_name(pool[j]) for j in history[:pos]]
            problems.append(
                Problem(
                    f"C16/result_depends_on_history/{call_name(pool[idx])}",
                    f"call #{pos} {pool[idx]} gives {digest[:120]!r}, alone in a fresh interpreter "
                    f"{reference[str(idx)][:120]!r}; earlier calls: {earlier[-6:]}",
                )
            )
    for change in out["table_changes"]:
        who = call_name(pool[change["call"]]) if change["call"] >= 0 else "threaded"
        problems.append(
            Problem(f"C16/table_modified/{table_name(change['diff'])}", f"by {who}: {change['diff'][:200]}")
        )
    fmts = []
    for idx in history:
        call = pool[idx]
        fmts.append((call["op"], call.get("fmt") or call.get("file", "").rsplit(".", 1)[-1]))
    nontrivial = any(
        a[0].startswith("dump") and b[1] != a[1] for i, a in enumerate(fmts) for b in fmts[i + 1 :]
    )
    labels = [f"len={min(len(history), 12)}", f"threads={spec.get('threads', 0)}"]
    return problems, nontrivial, labels


def shard_histories(ctx, max_examples, threads, prepared):
    n = len(prepared["pool"])
    strat = st.fixed_dictionaries(
        {
            "history": st.lists(st.integers(0, n - 1), min_size=2, max_size=12 if not threads else 24),
            "threads": st.sampled_from([2, 3, 4, 8, 16]) if threads else st.just(0),
        }
    )
    if ctx.shard.endswith("0") and not threads:
        ctx.extra["pool_size"] = n
        ctx.extra["unstable_calls_excluded"] = len(prepared["unstable"])
    drive(ctx, strat, lambda s: check_history(s, prepared), max_examples, name="histories")


def shard_pairs(ctx, part, nparts, prepared):
    """Every ordered pair (dump-like call, any call): the shortest interfering histories."""
    pool, reference = prepared["pool"], prepared["reference"]
    writers = [i for i, c in enumerate(pool) if c["op"] in ("dump_one", "dump_many", "write_input", "convert") and str(i) in reference]
    everything = [i for i in range(len(pool)) if str(i) in reference]
    firsts = writers
    if ctx.tier == "thorough":
        firsts = everything  # also every load-like call first (state leaking from one load to the next)
    else:
        # quick: loads with an explicitly given format (modules not reachable through a file name)
        firsts = writers + [i for i in everything if i not in writers and "fmt" in pool[i] and pool[i]["op"].startswith("load")]
    k = 0
    for a in firsts:
        k += 1
        if k % nparts != part:
            continue
        # one interpreter per writer: the writer first, then every call of the pool
        spec = {"history": [a] + everything, "threads": 0}
        problems, nontrivial, labels = check_history(spec, prepared)
        ctx.record({"kind": "pair_sweep", "first": pool[a]}, True, ["pair_sweep"])
        ctx.report({"history": spec["history"], "threads": 0}, problems)


def shard_adjacent(ctx, part, nparts, prepared):
    """Every ordered pair (a, b) with b immediately after a: one interpreter per ``a`` running
    a, b1, a, b2, ..., a, bn.  State that only the *next* call sees (a remembered last format, a
    cached last result) is invisible to 'a first, then the whole pool'."""
    pool, reference = prepared["pool"], prepared["reference"]
    everything = [i for i in range(len(pool)) if str(i) in reference]
    if ctx.tier == "thorough":
        firsts = everything
    else:
        # quick: one load by file name per format module (the first of each) and every explicit-format load
        seen = set()
        firsts = []
        for i in everything:
            call = pool[i]
            if not call["op"].startswith("load"):
                continue
            key = call.get("fmt") or call.get("file", "").rsplit(".", 1)[-1]
            if "fmt" in call or (call["op"], key) not in seen:
                seen.add((call["op"], key))
                firsts.append(i)
    for k, a in enumerate(firsts):
        if k % nparts != part:
            continue
        history = []
        for b in everything:
            history += [a, b]
        spec = {"history": history, "threads": 0}
        problems, _nontrivial, _labels = check_history(spec, prepared)
        ctx.record({"kind": "adjacent_sweep", "each_preceded_by": pool[a]}, True, ["adjacent_sweep"])
        # report the shortest reproduction: the failing call and its predecessor
        ctx.report({"history": spec["history"], "threads": 0}, problems)


def family_of(call):
    """Calls that go through the same format module (and therefore share its module-level state)."""
    if call["op"] in ("overlap",):
        return "overlap"
    key = call.get("fmt") or call.get("program") or call.get("file", "").rsplit(".", 1)[-1]
    return str(key).lower()


def shard_hot_threads(ctx, part, nparts, prepared):
    """Races are likeliest between simultaneous calls into the *same* module: for every family of
    pool calls (same format module; all users of the overlap code together) the family's calls
    run at the same time in 4 and in 8 threads, each call several times."""
    pool, reference = prepared["pool"], prepared["reference"]
    families = {}
    for i, call in enumerate(pool):
        if str(i) in reference:
            families.setdefault(family_of(call), []).append(i)
    # everything that computes overlap integrals: Molden / Molekel loads, conversions to them, overlap
    overlap_users = [i for fam in ("molden", "input", "mkl", "molekel", "overlap") for i in families.get(fam, [])]
    if overlap_users:
        families["overlap_users"] = overlap_users
    for k, (name, members) in enumerate(sorted(families.items())):
        if k % nparts != part:
            continue
        for nthreads in (4, 8):
            reps = max(2, -(-2 * nthreads // len(members)))
            history = (members * reps)[: max(2 * nthreads, len(members))]
            spec = {"history": history, "threads": nthreads}
            problems, _nt, _labels = check_history(spec, prepared)
            ctx.record({"kind": "hot_threads", "family": name, "threads": nthreads, "calls": len(history)}, len(members) > 0, ["hot_threads"])
            ctx.report(spec, problems)


def shard_selfmod(ctx, prepared):
    """A single call in a fresh interpreter must not change a module table either."""
    pool = prepared["pool"]
    for idx, diff in prepared["self_modifying"].items():
        call = pool[int(idx)]
        spec = {"history": [int(idx)], "threads": 0}
        ctx.record(spec, False, ["single_call"])
        ctx.report(spec, [Problem(f"C16/table_modified/{table_name(diff)}", f"by {call_name(call)}: {diff[:200]}")])
    for idx in prepared["unstable"]:
        ctx.inconclusive["unstable_reference"] += 1
    ctx.record({"kind": "reference_pool", "size": len(pool)}, False, ["reference"])


def shards(tier, seed):
    big = tier == "thorough"
    out = [("selfmod", "shard_selfmod", {})]
    for part in range(5):
        out.append((f"pairs{part}", "shard_pairs", {"part": part, "nparts": 5}))
    for part in range(5):
        out.append((f"adjacent{part}", "shard_adjacent", {"part": part, "nparts": 5}))
    for part in range(3):
        out.append((f"hot_threads{part}", "shard_hot_threads", {"part": part, "nparts": 3}))
    for i in range(6):
        out.append((f"histories{i}", "shard_histories", {"max_examples": 300 if big else 22, "threads": False}))
    for i in range(4):
        out.append((f"threads{i}", "shard_histories", {"max_examples": 120 if big else 10, "threads": True}))
    return out


def replay(entry):
    prepared = prepare(entry.get("tier", "quick"), entry.get("seed", 1))
    return check_history(entry["spec"], prepared)[0]
