"""Spec writer for MDL SD files (V2000 connection tables, "CTfile formats", BIOVIA/MDL).

Layout of one record (all fields fixed width, 1-based columns in the published description):

  line 1   molecule name (free text, may be blank)
  line 2   IIPPPPPPPPMMDDYYHHmmddSSssssssssssEEEEEEEEEEEERRRRRR   (user initials, program, date, ...)
  line 3   comment (free text, may be blank)
  counts   aaabbblllfffcccsssxxxrrrpppiiimmmvvvvvv
           aaa atoms, bbb bonds, lll atom lists, fff obsolete, ccc chiral flag, sss stext entries,
           xxx rrr ppp iii obsolete, mmm additional property lines (999), vvvvvv version " V2000"
  atom     xxxxx.xxxxyyyyy.yyyyzzzzz.zzzz aaaddcccssshhhbbbvvvHHHrrriiimmmnnneee
           three F10.4 coordinates (angstrom), one blank, symbol left-justified in 3 columns,
           dd mass difference (-3..4), ccc charge code (0..7), sss stereo parity (0..3),
           hhh hydrogen count + 1, bbb stereo care box, vvv valence, HHH H0 designator, rrr, iii
           unused, mmm atom-atom mapping number, nnn inversion/retention flag, eee exact change flag
  bond     111222tttsssxxxrrrccc
           first atom, second atom (1-based), ttt bond type (1 single, 2 double, 3 triple,
           4 aromatic, 5 single or double, 6 single or aromatic, 7 double or aromatic, 8 any),
           sss bond stereo, xxx unused, rrr topology, ccc reacting centre status
  props    "M  CHGnn8 aaa vvv ...", "M  ISOnn8 aaa vvv ...", ..., terminated by "M  END"
  data     "> <FIELD>" / value lines / blank line     (SD file data items, optional)
  "$$$$"   record delimiter

With 3-column counters an SD V2000 record holds at most 999 atoms and 999 bonds; counters of
three digits touch their neighbours ("100101  1"), and coordinates below -999.9999 or above
9999.9999 fill their ten columns so that x, y and z touch.
"""

from __future__ import annotations

import numpy as np
from hypothesis import strategies as st

from .. import units as U
from . import common as C

FORMAT = "sdf"
FILENAME = "model.sdf"
LOAD_MANY = True

# iodata's integer bond types (hand-copied table): 1:'1', 2:'2', 3:'3', 4:'ar', 5:'sd', 6:'sar',
# 7:'dar', 8:'un'; these coincide with the V2000 ttt codes 1..8, so the file value is stored as is.
SDF_BOND_TYPES = [1, 2, 3, 4, 5, 6, 7, 8]


def st_model(big):
    del big  # a V2000 record cannot hold more than 999 atoms: every class is reachable in the quick tier
    return st.fixed_dictionaries(
        {
            "natom": C.st_natom(999, False, extra=(98, 998)),
            "nbond": st.sampled_from([0, 0, "chain", "chain", "half", "double", 99, 100, 101, 998, 999]),
            "seed": st.integers(0, 2**32 - 1),
            "coord_cls": st.sampled_from(C.COORD_CLASSES),
            "title": st.one_of(C.st_title(1, 70), C.st_title(1, 70), st.just("")),
            "comment": st.one_of(C.st_title(1, 60), st.just("")),
            "program_line": st.booleans(),
            "atom_fields": st.sampled_from(["zeros", "zeros", "random"]),
            "bond_fields": st.sampled_from(["zeros", "zeros", "random"]),
            "bond_types": st.sampled_from(["single", "123", "all"]),
            "props": st.sampled_from(["none", "none", "chg", "chg_iso"]),
            "data_items": st.booleans(),
            "chiral": st.booleans(),
            "elements": st.sampled_from(["all", "light", "two_letter"]),
            "final_newline": st.sampled_from([True, True, True, True, False]),
        }
    )


def _atoms_needed(nbond):
    n = 2
    while n * (n - 1) // 2 < nbond:
        n += 1
    return n


def build(spec):
    rng = C.rng_of(spec)
    natom = int(spec["natom"])
    want = spec["nbond"]
    if want == "chain":
        nbond = natom - 1
    elif want == "half":
        nbond = natom // 2
    elif want == "double":
        nbond = min(999, 2 * natom)
    else:
        nbond = int(want)
    if nbond > 0:
        natom = max(natom, _atoms_needed(nbond))
    nbond = min(nbond, natom * (natom - 1) // 2, 999)
    types = {"single": [1], "123": [1, 2, 3], "all": SDF_BOND_TYPES}[spec["bond_types"]]
    atnums = C.atnums(rng, natom, spec["elements"])
    coords = C.coords(rng, natom, spec["coord_cls"], -9999.9999, 99999.9999, 4)
    bonds = C.bonds(rng, natom, nbond, types)
    if spec["atom_fields"] == "random":
        atom_extra = np.stack(
            [
                rng.integers(-3, 5, size=natom),  # dd
                rng.integers(0, 8, size=natom),  # ccc
                rng.integers(0, 4, size=natom),  # sss
                rng.integers(0, 5, size=natom),  # hhh
                rng.integers(0, 2, size=natom),  # bbb
                rng.choice([0, 1, 2, 3, 4, 15], size=natom),  # vvv
                rng.integers(0, 2, size=natom),  # HHH
                np.zeros(natom, int),  # rrr
                np.zeros(natom, int),  # iii
                rng.integers(0, natom + 1, size=natom),  # mmm
                rng.integers(0, 3, size=natom),  # nnn
                rng.integers(0, 2, size=natom),  # eee
            ],
            axis=1,
        )
    else:
        atom_extra = np.zeros((natom, 12), int)
    if spec["bond_fields"] == "random":
        bond_extra = np.stack(
            [
                rng.choice([0, 1, 4, 6], size=len(bonds)),  # sss
                np.zeros(len(bonds), int),  # xxx
                rng.integers(0, 3, size=len(bonds)),  # rrr
                rng.choice([0, 1, -1, 2, 4, 8, 12], size=len(bonds)),  # ccc
            ],
            axis=1,
        ).reshape(-1, 4)
    else:
        bond_extra = np.zeros((len(bonds), 4), int)
    nprop = 0 if spec["props"] == "none" else int(rng.integers(1, min(natom, 20) + 1))
    charged = sorted(int(i) for i in rng.choice(natom, size=nprop, replace=False)) if nprop else []
    return {
        "natom": natom,
        "title": spec["title"],
        "comment": spec["comment"],
        "program": "  -IVP-   0927261200" + ("3D" if rng.random() < 0.5 else "2D") if spec["program_line"] else "",
        "atnums": atnums,
        "coords": coords,
        "bonds": bonds,
        "atom_extra": atom_extra,
        "bond_extra": bond_extra,
        "chiral": int(spec["chiral"]),
        "chg": [(i, int(rng.choice([-2, -1, 1, 2]))) for i in charged],
        "iso": [(i, int(rng.integers(1, 300))) for i in charged] if spec["props"] == "chg_iso" else [],
        "data_items": [("IVP_ID", str(int(rng.integers(10**6)))), ("NOTE", "made for testing")]
        if spec["data_items"]
        else [],
        "final_newline": spec["final_newline"],
    }


def _prop_lines(tag, pairs):
    out = []
    for k in range(0, len(pairs), 8):
        chunk = pairs[k : k + 8]
        out.append(f"M  {tag}{len(chunk):3d}" + "".join(f" {i + 1:3d} {v:3d}" for i, v in chunk))
    return out


def frame_lines(model):
    natom, nbond = model["natom"], len(model["bonds"])
    lines = [model["title"], model["program"], model["comment"]]
    lines.append(f"{natom:3d}{nbond:3d}  0  0{model['chiral']:3d}  0  0  0  0  0999 V2000")
    for z, (x, y, zc), extra in zip(model["atnums"], model["coords"], model["atom_extra"]):
        sym = C.NUM2SYM[int(z)]
        line = f"{x:10.4f}{y:10.4f}{zc:10.4f} {sym:<3s}{int(extra[0]):2d}" + "".join(f"{int(v):3d}" for v in extra[1:])
        assert len(line) == 69, line
        lines.append(line)
    for (i, j, t), extra in zip(model["bonds"], model["bond_extra"]):
        line = f"{i + 1:3d}{j + 1:3d}{t:3d}" + "".join(f"{int(v):3d}" for v in extra)
        assert len(line) == 21, line
        lines.append(line)
    lines += _prop_lines("CHG", model["chg"])
    lines += _prop_lines("ISO", model["iso"])
    lines.append("M  END")
    for key, value in model["data_items"]:
        lines += [f"> <{key}>", value, ""]
    lines.append("$$$$")
    return lines


def write(model):
    text = "\n".join(frame_lines(model))
    return text + "\n" if model["final_newline"] else text


def write_many(models):
    return "".join("\n".join(frame_lines(m)) + "\n" for m in models)


def expected(model):
    half_digit = 0.5e-4 * U.angstrom
    return {
        ("title",): (model["title"].strip(), "exact", 0),
        ("atnums",): (np.asarray(model["atnums"]), "exact", 0),
        ("atcoords",): (model["coords"] * U.angstrom, "abs", half_digit),
        # the bond block is an ordered list: rows (first atom, second atom, type), zero-based atoms
        ("bonds",): (np.asarray(model["bonds"], dtype=int).reshape(-1, 3), "exact", 0),
    }


def _width10(model):
    return bool(np.any((model["coords"] <= -999.99995) | (model["coords"] >= 9999.99995)))


def labels(spec, model):
    out = [f"coords:{spec['coord_cls']}", f"bond_types:{spec['bond_types']}"]
    natom, nbond = model["natom"], len(model["bonds"])
    for bound in (100, 999):
        if natom >= bound:
            out.append(f"natom>={bound}")
        if nbond >= bound:
            out.append(f"nbond>={bound}")
    if natom >= 100 and nbond >= 100:
        out.append("counts_touch")
    if nbond == 0:
        out.append("no_bonds")
    elif int(model["bonds"][:, :2].min(axis=1).max()) >= 99:
        out.append("bond_atoms_touch")
    if _width10(model):
        out.append("coord_fills_column")
    if np.any(model["coords"][:, 1:] <= -999.99995) or np.any(model["coords"][:, 1:] >= 9999.99995):
        out.append("coords_touch")
    if spec["atom_fields"] == "random":
        out.append("atom_fields_nonzero")
    if spec["bond_fields"] == "random" and nbond:
        out.append("bond_fields_nonzero")
    if model["chg"]:
        out.append("M_CHG")
    if model["iso"]:
        out.append("M_ISO")
    if model["data_items"]:
        out.append("data_items")
    if not model["title"]:
        out.append("empty_title")
    if not model["final_newline"]:
        out.append("no_final_newline")
    return out


def core(spec, model):
    # a text file whose last line lacks the newline is legal but nothing iodata promises
    return bool(model["final_newline"])


def selfparse(text):
    lines = text.split("\n")
    counts = lines[3]
    natom, nbond = int(counts[0:3]), int(counts[3:6])
    atoms = []
    for line in lines[4 : 4 + natom]:
        atoms.append(
            (
                [float(line[0:10]), float(line[10:20]), float(line[20:30])],
                line[31:34].strip(),
                [int(line[34:36])] + [int(line[k : k + 3]) for k in range(36, 69, 3)],
            )
        )
    bonds = []
    for line in lines[4 + natom : 4 + natom + nbond]:
        bonds.append([int(line[k : k + 3]) for k in range(0, 21, 3)])
    rest = lines[4 + natom + nbond :]
    chg, iso = [], []
    for line in rest:
        if line[:6] in ("M  CHG", "M  ISO"):
            n = int(line[6:9])
            for k in range(n):
                pair = (int(line[9 + 8 * k : 13 + 8 * k]) - 1, int(line[13 + 8 * k : 17 + 8 * k]))
                (chg if line[3:6] == "CHG" else iso).append(pair)
    return {
        "title": lines[0], "program": lines[1], "comment": lines[2], "version": counts[33:39],
        "chiral": int(counts[12:15]), "natom": natom, "nbond": nbond, "atoms": atoms, "bonds": bonds,
        "chg": chg, "iso": iso, "m_end": "M  END" in rest, "delimiter": "$$$$" in rest,
        "delimiter_last": [r for r in rest if r][-1] == "$$$$",
    }


def selfcheck(model, parsed):
    out = []
    if parsed["natom"] != model["natom"] or len(parsed["atoms"]) != model["natom"]:
        return ["natom"]
    if parsed["nbond"] != len(model["bonds"]):
        return ["nbond"]
    for key in ("title", "program", "comment", "chiral", "chg", "iso"):
        if parsed[key] != model[key]:
            out.append(key)
    if parsed["version"] != " V2000" or not parsed["m_end"] or not parsed["delimiter_last"]:
        out.append("framing")
    for (xyz, sym, extra), z, xyz0, extra0 in zip(parsed["atoms"], model["atnums"], model["coords"], model["atom_extra"]):
        if sym != C.NUM2SYM[int(z)] or not np.allclose(xyz, xyz0, atol=1e-9, rtol=0) or extra != [int(v) for v in extra0]:
            out.append("atom")
            break
    for row, (i, j, t), extra0 in zip(parsed["bonds"], model["bonds"], model["bond_extra"]):
        if row != [i + 1, j + 1, t] + [int(v) for v in extra0]:
            out.append("bond")
            break
    return out


def numeric_fields(model):
    out = [(3, 0, 3, "natom"), (3, 3, 6, "nbond")]
    natom = model["natom"]
    for iatom in range(natom):
        out += [(4 + iatom, 0, 10, "x"), (4 + iatom, 10, 20, "y"), (4 + iatom, 20, 30, "z")]
    for ibond in range(len(model["bonds"])):
        line = 4 + natom + ibond
        out += [(line, 0, 3, "bond_atom1"), (line, 3, 6, "bond_atom2"), (line, 6, 9, "bond_type")]
    return out
