"""Spec writer for VASP 5 CHGCAR files (also hosts the grid helpers of locpot.py).

Layout (VASP manual, "CHGCAR file"): the structure in POSCAR layout, a blank line, one line with
the FFT grid dimensions NGX NGY NGZ, then NGX*NGY*NGZ reals, five per line in (1X,E17.11), written
as ``((rho(ix,iy,iz), ix=1,NGX), iy=1,NGY), iz=1,NGZ)`` -- x is the fastest index; the last line
may be shorter.  The numbers are rho(r) * V_cell, so the density per bohr^3 is value / V_cell with
V_cell in bohr^3.  PAW runs append "augmentation occupancies iatom n" blocks; spin-polarised runs
append a second grid (magnetisation density) after that.
"""

from __future__ import annotations

import numpy as np
from hypothesis import strategies as st

from . import common as C
from . import poscar as P

FORMAT = "chgcar"
FILENAME = "CHGCAR"
LOAD_MANY = False

DIMS = [1, 1, 2, 3, 4, 5, 6, 7, 10, 12]


def grid_fields(big):
    dims = st.sampled_from(DIMS + ([20, 24] if big else []))
    fields = P.header_fields(big)
    # grid files are written by VASP itself: keep the atom counts moderate
    fields["count_cls"] = st.sampled_from(["one", "small", "small", "mixed"])
    fields.update(
        {
            "nx": dims,
            "ny": dims,
            "nz": dims,
            "data_cls": st.sampled_from(["density", "density", "signed", "tiny", "huge", "zeros", "mixed"]),
            "data_style": st.sampled_from(["vasp", "vasp", "vasp", "1pe", "lower_e"]),
            "per_line": st.sampled_from([5, 5, 5, 5, 1, 3, 10]),
            "blank": st.sampled_from(["", "", " "]),
            "second_grid": st.booleans(),
            "end_newline": st.booleans(),
        }
    )
    return fields


def st_model(big):
    fields = grid_fields(big)
    fields["augmentation"] = st.booleans()
    return st.fixed_dictionaries(fields)


def grid_values(rng, cls, n):
    if cls == "density":
        vals = 10.0 ** rng.uniform(-2, 4, size=n)
    elif cls == "signed":
        vals = rng.normal(size=n) * 10.0 ** rng.uniform(-3, 3, size=n)
    elif cls == "tiny":
        vals = rng.normal(size=n) * 1e-30
    elif cls == "huge":
        vals = rng.normal(size=n) * 1e30
    elif cls == "zeros":
        vals = rng.normal(size=n) * (rng.random(size=n) < 0.5)
    else:
        vals = rng.normal(size=n) * 10.0 ** rng.integers(-40, 40, size=n)
    # eleven significant digits, as shown by E17.11
    return np.array([float(f"{v:.10E}") for v in vals]) + 0.0


def build_grid(spec):
    rng = C.rng_of(spec)
    model = P.build_header(spec, rng)
    shape = (spec["nx"], spec["ny"], spec["nz"])
    n = shape[0] * shape[1] * shape[2]
    model.update(
        {
            "shape": shape,
            # data[ix, iy, iz]
            "data": grid_values(rng, spec["data_cls"], n).reshape(shape),
            "data_style": spec["data_style"],
            "per_line": spec["per_line"],
            "blank": spec["blank"],
            "second_grid": spec["second_grid"],
            "second_data": grid_values(rng, "signed", n).reshape(shape),
            "end_newline": spec["end_newline"],
            "augmentation": False,
            "moments": np.round(rng.normal(size=model["natom"]), 7),
        }
    )
    return model


def build(spec):
    model = build_grid(spec)
    model["augmentation"] = spec["augmentation"]
    rng = C.rng_of(spec, 1)
    model["aug"] = [np.round(rng.normal(size=int(rng.choice([1, 5, 8, 33]))), 7) for _ in range(model["natom"])]
    return model


# ---------------------------------------------------------------------------------------------
# text
# ---------------------------------------------------------------------------------------------


def fortran_e(value, digits):
    """Fortran Ew.d without scale factor: mantissa in [0.1, 1); the leading zero is dropped for
    negative numbers, as VASP's E17.11 does: ' 0.78406017013E+04', ' -.43022261178E-01'."""
    value = float(value)
    if value == 0.0:
        return "0." + "0" * digits + "E+00"
    mant, exp = f"{abs(value):.{digits - 1}E}".split("E")
    exponent = int(exp) + 1
    body = "." + mant.replace(".", "") + "E" + ("-" if exponent < 0 else "+") + f"{abs(exponent):02d}"
    return ("-" if value < 0 else "0") + body


def _value(model, v):
    style = model["data_style"]
    if style == "vasp":
        return " " + fortran_e(v, 11)
    if style == "1pe":
        return f" {v:17.10E}"
    return f" {v:.10e}"


def grid_lines(model, data):
    # Fortran order: the first index runs fastest
    flat = [data[ix, iy, iz] for iz in range(data.shape[2]) for iy in range(data.shape[1]) for ix in range(data.shape[0])]
    lines = [" ".join(f"{n:4d}" for n in data.shape).rjust(15)]
    lines += C.wrap(flat, model["per_line"], lambda v: _value(model, v))
    return lines


def augmentation_lines(model):
    lines = []
    for iatom, occ in enumerate(model["aug"]):
        lines.append(f"augmentation occupancies{iatom + 1:4d}{len(occ):4d}")
        lines += C.wrap(occ, 5, lambda v: f" {v:14.7E}")
    return lines


def write(model):
    lines = P.header_lines(model)
    lines.append(model["blank"])
    lines += grid_lines(model, model["data"])
    if model["augmentation"]:
        lines += augmentation_lines(model)
    if model["second_grid"]:
        lines += grid_lines(model, model["second_data"])
        if model["augmentation"]:
            lines += augmentation_lines(model)
    return "\n".join(lines) + ("\n" if model["end_newline"] else "")


# ---------------------------------------------------------------------------------------------
# truth
# ---------------------------------------------------------------------------------------------


def data_half_digit(data):
    """Half a unit of the eleventh significant digit of every element."""
    mag = np.where(data == 0, 1.0, np.abs(data))
    return 0.5 * 10.0 ** (np.floor(np.log10(mag)) - 10)


def grid_expected(model, factor):
    exp = P.header_expected(model)
    cell, _mode, cell_tol = exp[("cellvecs",)]
    shape = np.array(model["shape"], dtype=float).reshape(3, 1)
    exp[("cube", "origin")] = (np.zeros(3), "abs", 1e-14)
    exp[("cube", "axes")] = (cell / shape, "abs", cell_tol / shape)
    exp[("cube", "data")] = (model["data"] * factor, "abs", data_half_digit(model["data"]) * abs(factor))
    return exp


def expected(model):
    volume = abs(np.linalg.det(P.cell_bohr(model)))
    exp = grid_expected(model, 1.0 / volume)
    # the driver grants 2e-9 relative slack for one unit constant; the volume holds angstrom cubed
    value, mode, tol = exp[("cube", "data")]
    exp[("cube", "data")] = (value, mode, tol + 4.5e-9 * np.abs(value))
    return exp


def grid_labels(spec, model):
    out = P.header_labels(spec, model)
    nx, ny, nz = model["shape"]
    total = nx * ny * nz
    out += [f"data:{spec['data_cls']}", f"data_style:{spec['data_style']}", f"per_line:{model['per_line']}"]
    out.append("ragged_last_line" if total % model["per_line"] else "full_last_line")
    if nx % model["per_line"]:
        out.append("x_rows_cross_lines")
    if total == 1:
        out.append("grid_1x1x1")
    if len({nx, ny, nz}) == 3:
        out.append("three_different_dims")
    if model["second_grid"]:
        out.append("second_grid")
    if not model["end_newline"]:
        out.append("no_final_newline")
    return out


def labels(spec, model):
    out = grid_labels(spec, model)
    if model["augmentation"]:
        out.append("augmentation_occupancies")
    return out


def grid_core(spec, model):
    # what VASP itself writes and the fixtures show: direct coordinates, no selective dynamics,
    # five E17.11 numbers per line
    return (
        not model["cartesian"]
        and model["selective_word"] is None
        and model["atom_suffix"] == ""
        and model["per_line"] == 5
        and model["data_style"] == "vasp"
    )


def core(spec, model):
    return grid_core(spec, model)


# ---------------------------------------------------------------------------------------------
# independent re-parser
# ---------------------------------------------------------------------------------------------


def parse_grid(text):
    lines = text.split("\n")
    parsed, pos = P.parse_header(lines)
    if lines[pos].strip():
        raise AssertionError("no blank line after the structure")
    nx, ny, nz = (int(w) for w in lines[pos + 1].split())
    words = []
    pos += 2
    while len(words) < nx * ny * nz:
        words += lines[pos].split()
        pos += 1
    if len(words) != nx * ny * nz:
        raise AssertionError("grid does not end at a line end")
    flat = np.array([float(w) for w in words])
    # first index fastest
    parsed["data"] = flat.reshape((nx, ny, nz), order="F")
    parsed["rest"] = lines[pos:]
    return parsed


def selfparse(text):
    return parse_grid(text)


def check_grid(model, parsed):
    out = P.check_header(model, parsed)
    if parsed["data"].shape != tuple(model["shape"]) or not np.array_equal(parsed["data"], model["data"]):
        out.append("data")
    rest = [line for line in parsed["rest"] if line.strip()]
    if bool(rest) != bool(model["second_grid"] or model["augmentation"]):
        out.append("trailing sections")
    return out


def selfcheck(model, parsed):
    return check_grid(model, parsed)


def numeric_fields(model):
    out = P.header_numeric_fields(model)
    start = len(P.header_lines(model)) + 1
    for k, line in enumerate(grid_lines(model, model["data"])):
        pos = 0
        for word in line.split():
            begin = line.index(word, pos)
            pos = begin + len(word)
            out.append((start + k, begin, pos, "dim" if k == 0 else "value"))
    return out
