"""Spec writer for Tripos MOL2 files ("Tripos Mol2 File Format", SYBYL 7.1, 2005).

A mol2 file is a sequence of data records, each introduced by a Record Type Indicator (RTI) line
"@<TRIPOS>NAME".  Data lines are free format (fields separated by white space); blank lines and
lines starting with '#' are comments.

  @<TRIPOS>MOLECULE
      mol_name
      num_atoms [num_bonds [num_subst [num_feat [num_sets]]]]
      mol_type                (SMALL, BIOPOLYMER, PROTEIN, NUCLEIC_ACID, SACCHARIDE)
      charge_type             (NO_CHARGES, DEL_RE, GASTEIGER, GAST_HUCK, HUCKEL, PULLMAN,
                               GAUSS80_CHARGES, AMPAC_CHARGES, MULLIKEN_CHARGES, DICT_CHARGES,
                               MMFF94_CHARGES, USER_CHARGES)
      [status_bits
      [mol_comment]]
  @<TRIPOS>ATOM
      atom_id atom_name x y z atom_type [subst_id [subst_name [charge [status_bit]]]]
      (x y z in angstrom; atom_type is the SYBYL atom type "C.3", "N.pl3", "Cl", ...: the element is
      the part in front of the dot; AMBER's antechamber writes GAFF types such as "c3" instead and
      relies on the atom name "C1", "Cl2" for the element)
  @<TRIPOS>BOND
      bond_id origin_atom_id target_atom_id bond_type [status_bits]
      bond_type: 1 2 3 am (amide) ar (aromatic) du (dummy) un (unknown) nc (not connected)
"""

from __future__ import annotations

import re

import numpy as np
from hypothesis import strategies as st

from .. import units as U
from . import common as C

FORMAT = "mol2"
FILENAME = "model.mol2"
LOAD_MANY = True

# iodata's integer bond types (hand-copied): 1:'1', 2:'2', 3:'3', 4:'ar', 5:'sd', 6:'sar', 7:'dar',
# 8:'un', 9:'am', 10:'du', 11:'nc'
NUM2BOND = {1: "1", 2: "2", 3: "3", 4: "ar", 8: "un", 9: "am", 10: "du", 11: "nc"}
BOND2NUM = {v: k for k, v in NUM2BOND.items()}

# SYBYL atom types (Tripos force field) per element
SYBYL = {
    "H": ["H", "H.spc", "H.t3p"],
    "C": ["C.3", "C.2", "C.1", "C.ar", "C.cat"],
    "N": ["N.3", "N.2", "N.1", "N.ar", "N.am", "N.pl3", "N.4"],
    "O": ["O.3", "O.2", "O.co2", "O.spc", "O.t3p"],
    "S": ["S.3", "S.2", "S.O", "S.O2"],
    "P": ["P.3"], "F": ["F"], "Cl": ["Cl"], "Br": ["Br"], "I": ["I"], "Li": ["Li"], "Na": ["Na"],
    "Mg": ["Mg"], "Al": ["Al"], "Si": ["Si"], "K": ["K"], "Ca": ["Ca"], "Cr": ["Cr.th", "Cr.oh"],
    "Mn": ["Mn"], "Fe": ["Fe"], "Co": ["Co.oh"], "Cu": ["Cu"], "Zn": ["Zn"], "Se": ["Se"],
    "Mo": ["Mo"], "Sn": ["Sn"],
}
GAFF = ["c3", "ca", "c", "c2", "hc", "ha", "ho", "hn", "oh", "o", "os", "n", "n3", "na", "cl", "br", "f", "s", "ss", "p5"]
# atom names as found in protein mol2 files (PDB nomenclature): first letter = element
PDB_NAMES = {
    "C": ["CA", "CB", "CG", "CD1", "CD2", "CE", "CE1", "CZ", "CH2", "C"],
    "H": ["HA", "HB1", "HG", "HD1", "HE", "HE1", "HH", "HZ1", "HO", "HN", "H"],
    "N": ["N", "NE", "ND1", "NH1", "NZ", "NE2"],
    "O": ["O", "OXT", "OG", "OD1", "OE1", "OH", "OS"],
    "S": ["SD", "SG"],
}


def st_model(big):
    return st.fixed_dictionaries(
        {
            "natom": C.st_natom(12000, big),
            "nbond_frac": st.sampled_from([0.0, 0.5, 1.0, 1.0, 2.0]),
            "seed": st.integers(0, 2**32 - 1),
            "coord_cls": st.sampled_from(C.COORD_CLASSES),
            "decimals": st.sampled_from([4, 4, 3, 6]),
            "charge_decimals": st.sampled_from([4, 4, 6]),
            "title": st.one_of(C.st_title(1, 60), C.st_title(1, 60), st.just("*****")),
            "atom_cols": st.sampled_from([9, 9, 9, 9, 6, 7, 8, 10]),
            "types": st.sampled_from(["sybyl", "sybyl", "gaff"]),
            "names": st.sampled_from(["elem_index", "elem_index", "elem_index", "upper_index", "pdb_like"]),
            "bond_types": st.sampled_from(["123", "all", "all"]),
            "bond_status": st.booleans(),
            "counts_cols": st.sampled_from([5, 5, 5, 5, 4, 4, 3, 3, 2, 2, 2, 1]),
            "header_comments": st.booleans(),
            "blank_style": st.sampled_from(["empty"] * 9 + ["spaces"]),
            "molecule_tail": st.sampled_from(["none", "status", "status_comment"]),
            "other_sections": st.booleans(),
            "section_order": st.sampled_from(["atom_bond"] * 14 + ["bond_atom"]),
            "sep": st.sampled_from(["aligned", "aligned", "single", "tab"]),
        }
    )


def build(spec):
    rng = C.rng_of(spec)
    natom = int(spec["natom"])
    types_cls = spec["types"]
    names_cls = spec["names"] if types_cls == "sybyl" or spec["names"] != "pdb_like" else "elem_index"
    if names_cls == "pdb_like":
        symbols = [str(s) for s in rng.choice(["C", "H", "N", "O", "S"], size=natom)]
    else:
        symbols = [str(s) for s in rng.choice(sorted(SYBYL), size=natom)]
    atnums = np.array([C.SYM2NUM[s] for s in symbols])
    names, attypes = [], []
    for i, sym in enumerate(symbols):
        if names_cls == "pdb_like":
            names.append(str(rng.choice(PDB_NAMES[sym])))
        elif names_cls == "upper_index":
            names.append(f"{sym.upper()}{i % 999 + 1}")
        else:
            names.append(f"{sym}{i % 999 + 1}")
        attypes.append(str(rng.choice(SYBYL[sym] if types_cls == "sybyl" else GAFF)))
    nbond = int(round(spec["nbond_frac"] * natom))
    counts_cols = int(spec["counts_cols"])
    if counts_cols == 1:
        nbond = 0  # the bond count cannot be stated
    bondnums = [1, 2, 3] if spec["bond_types"] == "123" else sorted(NUM2BOND)
    bonds = C.bonds(rng, natom, nbond, bondnums)
    nres = max(1, natom // 8)
    subst_ids = np.sort(rng.integers(1, nres + 1, size=natom))
    resnames = [C.token(rng, 3) for _ in range(nres)]
    style = rng.choice(["<0>", "XXX", "res"])
    subst_names = [style if style != "res" else f"{resnames[k - 1]}{k}" for k in subst_ids]
    cd = int(spec["charge_decimals"])
    return {
        "natom": natom,
        "title": spec["title"],
        "atnums": atnums,
        "names": names,
        "attypes": attypes,
        "names_cls": names_cls,
        "types_cls": types_cls,
        "coords": C.coords(rng, natom, spec["coord_cls"], -9999.9999, 99999.9999, int(spec["decimals"])),
        "decimals": int(spec["decimals"]),
        "charges": np.round(rng.normal(size=natom) * 0.5, cd),
        "charge_decimals": cd,
        "subst_ids": subst_ids,
        "subst_names": subst_names,
        "nsubst": nres,
        "atom_cols": int(spec["atom_cols"]),
        "atom_status": [str(rng.choice(["BACKBONE", "DICT", "BACKBONE|DICT|DIRECT", "WATER"])) for _ in range(natom)],
        "bonds": bonds,
        "bond_status": [str(rng.choice(["", "BACKBONE", "DICT|INTERRES"])) if spec["bond_status"] else "" for _ in range(len(bonds))],
        "counts_cols": counts_cols,
        "header_comments": spec["header_comments"],
        "blank": "" if spec["blank_style"] == "empty" else "   ",
        "molecule_tail": spec["molecule_tail"],
        "mol_type": str(rng.choice(["SMALL", "PROTEIN", "BIOPOLYMER"])),
        "charge_type": "NO_CHARGES" if int(spec["atom_cols"]) < 9 else str(rng.choice(["USER_CHARGES", "GASTEIGER", "MMFF94_CHARGES"])),
        "other_sections": spec["other_sections"],
        "section_order": spec["section_order"] if len(bonds) else "atom_bond",
        "sep": spec["sep"],
    }


def _join(model, fields, widths):
    if model["sep"] == "aligned":
        return " ".join(f"{f:>{w}s}" if w > 0 else f"{f:<{-w}s}" for f, w in zip(fields, widths)).rstrip()
    return ("\t" if model["sep"] == "tab" else " ").join(fields)


def atom_lines(model):
    d, cd = model["decimals"], model["charge_decimals"]
    out = []
    for i in range(model["natom"]):
        x, y, z = model["coords"][i]
        fields = [str(i + 1), model["names"][i], f"{x:.{d}f}", f"{y:.{d}f}", f"{z:.{d}f}", model["attypes"][i]]
        optional = [str(int(model["subst_ids"][i])), model["subst_names"][i], f"{model['charges'][i]:.{cd}f}", model["atom_status"][i]]
        fields += optional[: model["atom_cols"] - 6]
        out.append(_join(model, fields, [7, -8, 10 + d, 6 + d, 6 + d, -8, 4, -8, 6 + cd, -1]))
    return out


def bond_lines(model):
    out = []
    for k, (i, j, t) in enumerate(model["bonds"]):
        fields = [str(k + 1), str(i + 1), str(j + 1), NUM2BOND[int(t)]]
        if model["bond_status"][k]:
            fields.append(model["bond_status"][k])
        out.append(_join(model, fields, [6, 5, 5, -2, -1]))
    return out


def frame_lines(model):
    blank = model["blank"]
    lines = []
    if model["header_comments"]:
        lines += ["# Name: test molecule", "# written from the Tripos mol2 description", blank]
    lines.append("@<TRIPOS>MOLECULE")
    lines.append(model["title"])
    counts = [model["natom"], len(model["bonds"]), model["nsubst"] if model["other_sections"] else 0, 0, 0]
    lines.append(" " + " ".join(f"{c:5d}" for c in counts[: model["counts_cols"]]))
    lines.append(model["mol_type"])
    lines.append(model["charge_type"])
    if model["molecule_tail"] != "none":
        lines.append("****")
    if model["molecule_tail"] == "status_comment":
        lines.append("generated for a reader test")
    lines.append(blank)
    atom_block = ["@<TRIPOS>ATOM"] + atom_lines(model)
    bond_block = ["@<TRIPOS>BOND"] + bond_lines(model) if len(model["bonds"]) else []
    lines += atom_block + bond_block if model["section_order"] == "atom_bond" else bond_block + atom_block
    if model["other_sections"]:
        lines.append("@<TRIPOS>SUBSTRUCTURE")
        first = {}
        for i, k in enumerate(model["subst_ids"]):
            first.setdefault(int(k), i)
        for k in sorted(first):
            lines.append(f"{k:6d} {model['subst_names'][first[k]]:<8s} {first[k] + 1:6d} RESIDUE")
        lines.append(blank)
    return lines


def write(model):
    return "\n".join(frame_lines(model)) + "\n"


def write_many(models):
    return "".join(write(m) for m in models)


def expected(model):
    exp = {
        ("title",): (model["title"].strip(), "exact", 0),
        ("atnums",): (np.asarray(model["atnums"]), "exact", 0),
        ("atcoords",): (model["coords"] * U.angstrom, "abs", 0.5 * 10.0 ** -model["decimals"] * U.angstrom),
        ("atffparams", "attypes"): (np.array(model["attypes"]), "exact", 0),
    }
    if model["atom_cols"] >= 9:
        exp[("atcharges", "mol2charges")] = (model["charges"], "abs", 0.5 * 10.0 ** -model["charge_decimals"])
    if len(model["bonds"]):
        exp[("bonds",)] = (np.asarray(model["bonds"], dtype=int), "exact", 0)
    else:
        exp[("bonds",)] = (None, "absent", 0)
    return exp


def labels(spec, model):
    out = [
        f"coords:{spec['coord_cls']}", f"atom_cols:{model['atom_cols']}", f"types:{model['types_cls']}",
        f"names:{model['names_cls']}", f"counts_cols:{model['counts_cols']}", f"sep:{model['sep']}",
    ]
    natom = model["natom"]
    for bound in (100, 1000, 10000):
        if natom >= bound:
            out.append(f"natom>={bound}")
        if len(model["bonds"]) >= bound:
            out.append(f"nbond>={bound}")
    out.append("charge_column" if model["atom_cols"] >= 9 else "no_charge_column")
    if len(model["bonds"]):
        for t in sorted({int(t) for t in model["bonds"][:, 2]}):
            out.append(f"bondtype:{NUM2BOND[t]}")
        if any(model["bond_status"]):
            out.append("bond_status_bits")
    else:
        out.append("no_bond_record")
    if model["header_comments"]:
        out.append("header_comments")
    if model["blank"]:
        out.append("blank_lines_with_spaces")
    if model["other_sections"]:
        out.append("substructure_record")
    if model["section_order"] == "bond_atom":
        out.append("bond_record_before_atom_record")
    if model["molecule_tail"] != "none":
        out.append(f"molecule_tail:{model['molecule_tail']}")
    return out


def core(spec, model):
    return (
        model["atom_cols"] <= 9 and model["counts_cols"] >= 2 and model["section_order"] == "atom_bond"
        and not model["blank"] and model["names_cls"] != "pdb_like"
    )


RTI = re.compile(r"^@<TRIPOS>(\w+)\s*$")


def selfparse(text):
    records = []
    for raw in text.split("\n"):
        if raw.startswith("#"):
            continue
        m = RTI.match(raw)
        if m:
            records.append((m.group(1), []))
        elif records and (raw.strip() or records[-1][0] == "MOLECULE" and len(records[-1][1]) < 1):
            records[-1][1].append(raw)
    parsed = {"order": [name for name, _ in records], "atoms": [], "bonds": []}
    for name, body in records:
        if name == "MOLECULE":
            parsed["title"] = body[0]
            parsed["counts"] = [int(w) for w in re.findall(r"\d+", body[1])]
            parsed["mol_type"], parsed["charge_type"] = body[2].strip(), body[3].strip()
        elif name == "ATOM":
            for line in body:
                w = re.split(r"\s+", line.strip())
                parsed["atoms"].append((int(w[0]), w[1], [float(v) for v in w[2:5]], w[5], w[6:]))
        elif name == "BOND":
            for line in body:
                w = re.split(r"\s+", line.strip())
                parsed["bonds"].append((int(w[0]), int(w[1]), int(w[2]), w[3], w[4:]))
    return parsed


def selfcheck(model, parsed):
    out = []
    natom, nbond = model["natom"], len(model["bonds"])
    if parsed["title"] != model["title"]:
        out.append("title")
    counts = parsed["counts"]
    if len(counts) != model["counts_cols"] or counts[0] != natom or (len(counts) > 1 and counts[1] != nbond):
        out.append("counts")
    if len(parsed["atoms"]) != natom or len(parsed["bonds"]) != nbond:
        return out + ["record lengths"]
    want_order = ["MOLECULE", "ATOM"] + (["BOND"] if nbond else [])
    if model["section_order"] == "bond_atom":
        want_order = ["MOLECULE", "BOND", "ATOM"]
    if parsed["order"][: len(want_order)] != want_order:
        out.append("order")
    for i, (aid, name, xyz, attype, rest) in enumerate(parsed["atoms"]):
        ok = aid == i + 1 and name == model["names"][i] and attype == model["attypes"][i]
        ok = ok and np.allclose(xyz, model["coords"][i], atol=1e-9, rtol=0) and len(rest) == model["atom_cols"] - 6
        if ok and len(rest) >= 1:
            ok = int(rest[0]) == model["subst_ids"][i]
        if ok and len(rest) >= 2:
            ok = rest[1] == model["subst_names"][i]
        if ok and len(rest) >= 3:
            ok = abs(float(rest[2]) - model["charges"][i]) < 1e-9
        if ok and len(rest) >= 4:
            ok = rest[3] == model["atom_status"][i]
        # the element must be recoverable the way the format (or antechamber) defines it
        if ok and model["types_cls"] == "sybyl":
            ok = C.SYM2NUM[attype.split(".")[0]] == model["atnums"][i]
        if ok and model["names_cls"] != "pdb_like":
            ok = C.SYM2NUM[re.match(r"[A-Za-z]+", name).group(0).title()] == model["atnums"][i]
        if not ok:
            out.append(f"atom {i}")
            break
    for k, (bid, i, j, t, rest) in enumerate(parsed["bonds"]):
        i0, j0, t0 = model["bonds"][k]
        if (bid, i, j, BOND2NUM[t]) != (k + 1, i0 + 1, j0 + 1, t0) or rest != ([model["bond_status"][k]] if model["bond_status"][k] else []):
            out.append(f"bond {k}")
            break
    return out


def numeric_fields(model):
    out = []
    lines = frame_lines(model)
    section = None
    for iline, line in enumerate(lines):
        if line.startswith("@<TRIPOS>"):
            section = line[9:]
            if section == "MOLECULE":
                m = re.search(r"\d+", lines[iline + 2])
                out.append((iline + 2, m.start(), m.end(), "natom"))
            continue
        if section not in ("ATOM", "BOND") or not line.strip():
            continue
        names = {"ATOM": {2: "x", 3: "y", 4: "z", 8: "charge"}, "BOND": {1: "bond_atom1", 2: "bond_atom2"}}[section]
        for k, m in enumerate(re.finditer(r"\S+", line)):
            if k in names:
                out.append((iline, m.start(), m.end(), names[k]))
    return out
