"""Self-test of the spec writers: write -> independent re-parse -> model reproduced.

  python -m ivp.oracles.specwriters.selftest [format ...]
"""

from __future__ import annotations

import importlib
import pkgutil
import sys

from hypothesis import HealthCheck, given, seed, settings


def available():
    import ivp.oracles.specwriters as pkg

    skip = {"common", "selftest"}
    out = []
    for m in pkgutil.iter_modules(pkg.__path__):
        if m.name in skip:
            continue
        mod = importlib.import_module(f"ivp.oracles.specwriters.{m.name}")
        if hasattr(mod, "st_model") and hasattr(mod, "FORMAT"):
            out.append(m.name)
    return sorted(out)


def run(fmt, nexample=200, big=False):
    mod = importlib.import_module(f"ivp.oracles.specwriters.{fmt}")
    count = {"n": 0}

    @seed(20260927)
    @settings(max_examples=nexample, database=None, deadline=None, suppress_health_check=list(HealthCheck))
    @given(mod.st_model(big))
    def test(spec):
        model = mod.build(spec)
        text = mod.write(model)
        issues = mod.selfcheck(model, mod.selfparse(text))
        assert not issues, (issues, spec)
        mod.expected(model)
        mod.labels(spec, model)
        mod.core(spec, model)
        count["n"] += 1

    test()
    return count["n"]


def main(argv):
    fmts = argv or available()
    for fmt in fmts:
        n = run(fmt)
        print(f"{fmt}: {n} models written and re-parsed")


if __name__ == "__main__":
    main(sys.argv[1:])
