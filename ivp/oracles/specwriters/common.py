"""Helpers shared by the spec writers (no iodata imports)."""

from __future__ import annotations

import numpy as np
from hypothesis import strategies as st

SYMBOLS = (
    "H He Li Be B C N O F Ne Na Mg Al Si P S Cl Ar K Ca Sc Ti V Cr Mn Fe Co Ni Cu Zn Ga Ge As Se "
    "Br Kr Rb Sr Y Zr Nb Mo Tc Ru Rh Pd Ag Cd In Sn Sb Te I Xe Cs Ba La Ce Pr Nd Pm Sm Eu Gd Tb Dy "
    "Ho Er Tm Yb Lu Hf Ta W Re Os Ir Pt Au Hg Tl Pb Bi Po At Rn Fr Ra Ac Th Pa U Np Pu Am Cm Bk Cf "
    "Es Fm Md No Lr Rf Db Sg Bh Hs Mt Ds Rg Cn Nh Fl Mc Lv Ts Og"
).split()
assert len(SYMBOLS) == 118
NUM2SYM = {i + 1: s for i, s in enumerate(SYMBOLS)}
SYM2NUM = {s: i + 1 for i, s in enumerate(SYMBOLS)}

TITLE_ALPHABET = "abcdefghijklmnopqrstuvwxyzABCDEFGHIJKLMNOPQRSTUVWXYZ0123456789 _-+.,:;()*/"


def st_title(min_size=1, max_size=40):
    return (
        st.text(alphabet=TITLE_ALPHABET, min_size=min_size, max_size=max_size)
        .map(lambda s: s.strip())
        .filter(lambda s: len(s) >= min_size)
    )


def st_natom(maxatom, big, extra=()):
    """Atom counts: mostly small, with the boundary classes of fixed-width counters."""
    classes = [1, 2, 3, 9, 10, 11] + list(extra)
    for n in (99, 100, 101, 999, 1000, 1001, 9999, 10000, 10001, 12000, 99999, 100000):
        if n <= maxatom and (big or n <= 1200):
            classes.append(n)
    classes = sorted({c for c in classes if c <= maxatom})
    small = st.integers(1, min(12, maxatom))
    return st.one_of(small, small, st.sampled_from(classes))


def rng_of(spec, salt=0):
    return np.random.Generator(np.random.PCG64([int(spec["seed"]), salt]))


def atnums(rng, natom, cls="all"):
    if cls == "light":
        return rng.choice([1, 6, 7, 8, 9, 16, 17], size=natom)
    if cls == "two_letter":
        return rng.choice([2, 3, 11, 17, 20, 26, 35, 47, 79, 118], size=natom)
    return rng.integers(1, 119, size=natom)


def coords(rng, natom, cls, lo, hi, decimals):
    """Coordinates (native unit) inside [lo, hi], rounded to the decimals the file shows."""
    if cls == "small":
        arr = rng.normal(size=(natom, 3)) * 3
    elif cls == "negative":
        arr = -np.abs(rng.normal(size=(natom, 3))) * 20
    elif cls == "wide":
        arr = rng.uniform(lo, hi, size=(natom, 3))
    else:  # "boundary": a few values that fill the field
        arr = rng.normal(size=(natom, 3)) * 3
        idx = int(rng.integers(natom))
        arr[idx] = rng.choice([lo, hi, lo / 10, hi / 10], size=3)
    return np.round(np.clip(arr, lo, hi), decimals)


COORD_CLASSES = ["small", "small", "negative", "wide", "boundary"]


def token(rng, maxlen, first="ABCDEFGHIJKLMNOPQRSTUVWXYZ", rest="ABCDEFGHIJKLMNOPQRSTUVWXYZ0123456789"):
    n = int(rng.integers(1, maxlen + 1))
    return str(rng.choice(list(first))) + "".join(str(c) for c in rng.choice(list(rest), size=n - 1))


def bonds(rng, natom, nbond, types):
    """Distinct pairs (zero-based) with a type; rows (i, j, type)."""
    if natom < 2 or nbond <= 0:
        return np.zeros((0, 3), dtype=int)
    pairs = set()
    tries = 0
    while len(pairs) < nbond and tries < 30 * nbond:
        i, j = (int(x) for x in rng.integers(natom, size=2))
        tries += 1
        if i != j:
            pairs.add((min(i, j), max(i, j)))
    rows = []
    for i, j in sorted(pairs):
        if rng.random() < 0.3:
            i, j = j, i
        rows.append([i, j, int(rng.choice(types))])
    rows = np.array(rows, dtype=int).reshape(-1, 3)
    return rows[rng.permutation(len(rows))]


def wrap(values, per_line, fmt):
    """Format a flat sequence ``per_line`` items per line (ragged last line)."""
    lines = []
    values = list(values)
    for i in range(0, len(values), per_line):
        lines.append("".join(fmt(v) for v in values[i : i + per_line]))
    return lines


def fortran_e(value, width, digits, letter="E"):
    """Fortran-style E format: mantissa in [1, 10), two-digit exponent, e.g. ' 1.23456789E+01'."""
    text = f"{value:{width}.{digits}E}"
    return text.replace("E", letter)
