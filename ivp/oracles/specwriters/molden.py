"""Spec writer for the Molden format (https://www.theochem.ru.nl/molden/molden_format.html).

Layout transcribed from the format description:

    [Molden Format]
    [Title]
     title line
    [Atoms] (Angs|AU)
    element_name number atomic_number x y z
    [GTO]
    atom_sequence_number 0
    shell_label number_of_primitives 1.00
    exponent_primitive contraction_coefficient (second coefficient for sp shells)
    <empty line after the last shell of an atom>
    [5D] | [5D7F] | [5D10F] | [7F] | [9G]      (absent: Cartesian 6d, 10f, 15g)
    [MO]
    Sym= label
    Ene= orbital energy
    Spin= (Alpha|Beta)
    Occup= occupation number
    ao_number mo_coefficient
    ...

* free format; Fortran ``D`` exponents occur in files written by Molden itself,
* shell labels s, p, d, f, sp, g (h is written by PSI4 / ORCA and flagged together with [9G]),
* contraction coefficients refer to normalised primitives,
* order of the functions in a shell
      5D: D 0, D+1, D-1, D+2, D-2              6D: xx, yy, zz, xy, xz, yz
      7F: F 0, F+1, F-1, ..., F+3, F-3        10F: xxx, yyy, zzz, xyy, xxy, xxz, xzz, yzz, yyz, xyz
      9G: G 0, G+1, G-1, ..., G+4, G-4        15G: xxxx yyyy zzzz xxxy xxxz yyyx yyyz zzzx zzzy
                                                   xxyy xxzz yyzz xxyz yyxz zzxy
  (+m: cos(m phi), -m: sin(m phi) real solid harmonics; p shells are always x, y, z),
* zero MO coefficients may be left out (the ao_number says which function a line refers to),
* [5D] = [5D7F]: 5 d and 7 f; [5D10F]: 5 d and 10 f; [7F]: 6 d and 7 f; [9G]: 9 g.

The third column of [Atoms] is the "atomic number"; PSI4 writes 0 there for ghost atoms and
programs with effective core potentials write the core charge, which is why a reader has to
take the element from the first column and the (core) charge from the third.

This module also hosts the wavefunction model shared with the Molekel writer and vendors.py
(`st_wf`, `build_wf`, `truth_of`): nothing here imports iodata.
"""

from __future__ import annotations

import re

import numpy as np
from hypothesis import strategies as st

from .. import overlap as O
from .. import units as U
from . import common as C

FORMAT = "molden"
FILENAME = "model.molden"
LOAD_MANY = False

LCHARS = "spdfgh"

# ----------------------------------------------------------------------------------------------
# order of the functions of a shell, transcribed from the format description (see docstring)
# ----------------------------------------------------------------------------------------------

_DOC_CART = {
    0: "1",
    1: "x y z",
    2: "xx yy zz xy xz yz",
    3: "xxx yyy zzz xyy xxy xxz xzz yzz yyz xyz",
    4: "xxxx yyyy zzzz xxxy xxxz yyyx yyyz zzzx zzzy xxyy xxzz yyzz xxyz yyxz zzxy",
}


def _canonical(label):
    """'yyyx' of the documentation is the monomial x y^3: label 'xyyy' of docs/basis.rst."""
    return label if label == "1" else "".join(sorted(label))


def file_conventions():
    conv = {}
    for ell, text in _DOC_CART.items():
        conv[(ell, "c")] = [_canonical(w) for w in text.split()]
    for ell in range(2, 6):
        labels = ["c0"]  # "D 0"
        for m in range(1, ell + 1):
            labels += [f"c{m}", f"s{m}"]  # "D+m", "D-m"
        conv[(ell, "p")] = labels
    return conv


CONVENTIONS = file_conventions()


def nfunc(ell, kind):
    return (ell + 1) * (ell + 2) // 2 if kind == "c" else 2 * ell + 1


# ----------------------------------------------------------------------------------------------
# number formats (used by build to round the model to what the file shows, and by write)
# ----------------------------------------------------------------------------------------------


def fortran_0d(value, ndig, letter="D", drop_zero=False):
    """Fortran 'E'/'D' edit descriptor: mantissa in [0.1, 1), e.g. 0.9046000000D+04."""
    text = f"{abs(value):.{ndig - 1}E}"
    mant, expo = text.split("E")
    digits = mant.replace(".", "")
    power = int(expo) + 1 if float(mant) != 0.0 else 0
    body = f"0.{digits}{letter}{power:+03d}"
    if value < 0 or (value == 0 and str(value).startswith("-")):
        return ("-" + body[1:]) if drop_zero else ("-" + body)
    return body


def fmt_real(value, style, boost=False):
    """Exponents, contraction coefficients, coordinates."""
    if style == "D":  # Molden's own files
        return fortran_0d(value, 16 if boost else 10, "D").rjust(24 if boost else 18)
    if style == "E0":  # Turbomole: 14 digits, no leading zero for negative numbers
        return fortran_0d(value, 16 if boost else 14, "E", drop_zero=True).rjust(21)
    if style == "E":
        return f"{value:.{15 if boost else 11}E}".rjust(24 if boost else 19)
    if style == "fixed":  # PSI4, ORCA
        return f"{value:.{16 if boost else 10}f}".rjust(26 if boost else 20)
    raise ValueError(style)


def fmt_mo(value, style, boost=False):
    if style == "fixed":
        return f"{value:.{16 if boost else 12}f}".rjust(22 if boost else 20)
    if style == "exp":
        return f"{value: .{15 if boost else 13}E}"
    if style == "plain":  # Molpro: index and number separated by one blank, no alignment
        return f"{value:.15f}"
    raise ValueError(style)


def shown(text):
    """The number a reader gets from a printed field."""
    return float(text.strip().replace("D", "E").replace("d", "e"))


# ----------------------------------------------------------------------------------------------
# wavefunction model shared by molden.py, molekel.py and vendors.py
# ----------------------------------------------------------------------------------------------


def st_wf(big, allow_sp=True, allow_h=True, integer_electrons=False):
    lcodes = [0, 0, 0, 0, 1, 1, 1, 2, 2, 2, 3, 3, 4]
    if allow_h:
        lcodes.append(5)
    if allow_sp:
        lcodes += [-1]  # -1: sp shell
    shell = st.tuples(st.sampled_from(lcodes), st.sampled_from([1, 1, 1, 2, 3, 3, 4 if not big else 8]))
    filled = st.lists(shell.map(list), min_size=1, max_size=4)
    atom = st.one_of(filled, filled, filled, filled, st.lists(shell.map(list), min_size=0, max_size=1))
    atoms = st.lists(atom, min_size=1, max_size=5).filter(lambda a: any(len(x) for x in a))
    return st.fixed_dictionaries(
        {
            "atoms": atoms,
            "pure": st.lists(st.booleans(), min_size=3, max_size=3),
            "max_nbasis": st.just(70 if big else 40),
            "geom": st.sampled_from(["compact", "compact", "spread", "far"]),
            "elements": st.sampled_from(["all", "light", "two_letter"]),
            "mo_kind": st.sampled_from(["restricted", "unrestricted"]),
            "norb": st.sampled_from(["full", "full", "partial", "occupied"]),
            "occ": st.sampled_from(["integer", "integer", "fractional"]),
            "nocc_frac": st.sampled_from([0.25, 0.5, 0.75]),
            "nopen": st.integers(0, 2),
            "sparse": st.sampled_from([False, False, False, False, True]),
            "integer_electrons": st.just(bool(integer_electrons)),
        }
    )


def _place_atoms(rng, natom, geom):
    spacing = {"compact": 1.7, "spread": 5.0, "far": 45.0}[geom]
    pts = []
    while len(pts) < natom:
        trial = rng.normal(size=3) * spacing * max(1.0, natom ** (1 / 3))
        if all(np.linalg.norm(trial - p) >= 0.8 * spacing for p in pts):
            pts.append(trial)
    return np.array(pts)


def _exponent_ladders(rng, shells_of_atom):
    """Exponents per shell: one geometric ladder per (atom, label) so that no two are close."""
    groups = {}
    for ish, (lcode, nprim) in enumerate(shells_of_atom):
        groups.setdefault(lcode, []).append((ish, nprim))
    out = {}
    for lcode, members in groups.items():
        total = sum(n for _i, n in members)
        first = np.exp(rng.uniform(np.log(0.09), np.log(0.5))) * (1.35 if lcode == -1 else 1.0)
        ratios = rng.uniform(2.1, 3.6, size=total)
        ladder = first * np.cumprod(np.concatenate([[1.0], ratios[:-1]]))
        ladder = ladder[rng.permutation(total)]
        pos = 0
        for ish, nprim in members:
            out[ish] = np.sort(ladder[pos : pos + nprim])[::-1]
            pos += nprim
    return out


def contraction_norm(exps, coefs, ell):
    """Norm of sum_k d_k g_k for L2-normalised primitives g_k of angular momentum ell."""
    exps = np.asarray(exps, dtype=float)
    pair = (2 * np.sqrt(np.outer(exps, exps)) / np.add.outer(exps, exps)) ** (ell + 1.5)
    return float(np.sqrt(np.asarray(coefs) @ pair @ np.asarray(coefs)))


def _components(olp, thresh=1e-9):
    n = len(olp)
    seen, comps = set(), []
    for start in range(n):
        if start in seen:
            continue
        comp, stack = [], [start]
        seen.add(start)
        while stack:
            i = stack.pop()
            comp.append(i)
            for j in np.nonzero(np.abs(olp[i]) > thresh)[0]:
                if int(j) not in seen:
                    seen.add(int(j))
                    stack.append(int(j))
        comps.append(sorted(comp))
    return comps


def _orbitals(olp, rng, sparse):
    """Complete set of orbitals orthonormal w.r.t. ``olp`` (columns)."""
    n = len(olp)
    if not sparse:
        q, _ = np.linalg.qr(rng.normal(size=(n, n)))
        return O.inv_sqrt(olp) @ q
    out = np.zeros((n, n))
    col = 0
    for comp in _components(olp):
        k = len(comp)
        q, _ = np.linalg.qr(rng.normal(size=(k, k)))
        out[np.ix_(comp, range(col, col + k))] = O.inv_sqrt(olp[np.ix_(comp, comp)]) @ q
        col += k
    return out[:, rng.permutation(n)]


def plain_basis(wf):
    """The basis of the model in the plain-data form of ivp.oracles.gaussians."""
    return {
        "centers": np.array(wf["centers"], dtype=float),
        "shells": [
            {
                "icenter": int(sh["iatom"]),
                "angmoms": list(sh["ls"]),
                "kinds": list(sh["kinds"]),
                "exponents": np.array(sh["exponents"], dtype=float),
                "coeffs": np.array(sh["coeffs"], dtype=float),
            }
            for sh in wf["shells"]
        ],
        "conventions": CONVENTIONS,
    }


def shell_functions(wf):
    """[(ishell, icon, ell, kind, label)] for every basis function, in file order."""
    out = []
    for ish, sh in enumerate(wf["shells"]):
        for icon, (ell, kind) in enumerate(zip(sh["ls"], sh["kinds"])):
            for label in CONVENTIONS[(ell, kind)]:
                out.append((ish, icon, ell, kind, label))
    return out


def build_wf(spec, seed, fmt_con, fmt_coef, fmt_occ, fmt_ene, round_centers, blocks=None):
    """spec (from st_wf) -> wavefunction model; every number already rounded as printed.

    ``fmt_*`` are callables value -> printed text; ``round_centers`` maps raw centres (bohr) to
    (native coordinates as printed, centres in bohr); ``blocks`` = [(iatom, None | [shell positions])] is the
    order in which the file lists the shells of the atoms (the basis functions follow that order;
    default: one block per atom in sequence).
    """
    best = None
    for attempt in range(8):
        rng = np.random.Generator(np.random.PCG64([int(seed), 17, attempt]))
        wf = _build_wf_once(spec, rng, fmt_con, fmt_coef, fmt_occ, fmt_ene, round_centers, blocks)
        if best is None or wf["condition"] > best["condition"]:
            best = wf
        if wf["condition"] > 2e-5:
            break
    return best


def _build_wf_once(spec, rng, fmt_con, fmt_coef, fmt_occ, fmt_ene, round_centers, blocks):
    pure_d, pure_f, pure_g = (bool(x) for x in spec["pure"])
    kind_of = {0: "c", 1: "c", 2: "p" if pure_d else "c", 3: "p" if pure_f else "c",
               4: "p" if pure_g else "c", 5: "p"}
    natom = len(spec["atoms"])
    native, centers = round_centers(_place_atoms(rng, natom, "far" if spec["sparse"] else spec["geom"]))
    shells = []
    nbasis = 0
    if blocks is None:
        blocks = [(iatom, None) for iatom in range(natom)]
    all_ladders = [_exponent_ladders(rng, shells_of_atom) for shells_of_atom in spec["atoms"]]
    for iblock, (iatom, positions) in enumerate(blocks):
        shells_of_atom = spec["atoms"][iatom]
        ladders = all_ladders[iatom]
        for ish, (lcode, nprim) in enumerate(shells_of_atom):
            if positions is not None and ish not in positions:
                continue
            lcode = int(lcode)
            if lcode == 5 and not pure_g:
                lcode = 4  # h functions exist only together with pure g ([9G])
            ls = [0, 1] if lcode == -1 else [lcode]
            kinds = [kind_of[ell] for ell in ls]
            size = sum(nfunc(ell, k) for ell, k in zip(ls, kinds))
            if nbasis + size > spec["max_nbasis"] and shells:
                continue
            nbasis += size
            exps = np.array([shown(fmt_con(a)) for a in ladders[ish]])
            raw = rng.uniform(0.2, 1.0, size=(nprim, len(ls))) * rng.choice([-1.0, 1.0], size=(nprim, len(ls)))
            raw[0] = np.abs(raw[0])
            cols = []
            for icon, ell in enumerate(ls):
                col = raw[:, icon] / contraction_norm(exps, raw[:, icon], ell)
                cols.append([shown(fmt_con(c)) for c in col])
            shells.append(
                {"iatom": iatom, "block": iblock, "ls": ls, "kinds": kinds, "exponents": exps,
                 "coeffs": np.array(cols).T}
            )
    wf = {"centers": centers, "native": native, "shells": shells, "natom": natom}
    olp = O.overlap(plain_basis(wf))
    evals = np.linalg.eigvalsh(olp)
    wf["condition"] = float(evals.min() / evals.max())
    nbasis = len(olp)
    wf["nbasis"] = nbasis
    sparse = bool(spec["sparse"])

    def rounded(mat, fmt):
        return np.array([[shown(fmt(x)) for x in row] for row in mat]).reshape(mat.shape)

    def norb_for(nocc):
        if spec["norb"] == "full":
            return nbasis
        if spec["norb"] == "occupied":
            return max(nocc, 1)
        return max(nocc, min(nbasis, nocc + 1 + (nbasis - nocc) // 2), 1)

    ndocc = max(0, int(round(spec["nocc_frac"] * nbasis)) - 1)
    nopen = min(int(spec["nopen"]), nbasis - ndocc)
    if ndocc + nopen == 0:
        ndocc = 1

    def fractional(norb, top):
        occs = np.sort(rng.uniform(0.03 * top, 0.97 * top, size=norb))[::-1]
        occs = np.array([shown(fmt_occ(x)) for x in occs])
        if spec["integer_electrons"]:
            want = max(1.0, np.round(occs.sum()))
            rest = want - occs[:-1].sum()
            if not 0.0 <= rest <= top:
                return None
            occs[-1] = shown(fmt_occ(rest))
            if abs(occs.sum() - want) > 1e-9:
                return None
        return occs

    wf["kind"] = spec["mo_kind"]
    sets = []
    if spec["mo_kind"] == "restricted":
        nocc = ndocc + nopen
        norb = norb_for(nocc)
        occs = fractional(norb, 2.0) if spec["occ"] == "fractional" else None
        if occs is None:
            occs = np.array([2.0] * ndocc + [1.0] * nopen + [0.0] * (norb - nocc))
        sets.append(("Alpha", norb, occs))
    else:
        na, nb = ndocc + nopen, ndocc
        norba, norbb = norb_for(na), norb_for(max(nb, 1))
        if spec["norb"] == "partial" and nopen == 1 and norbb > 1:
            norbb -= 1
        occsa = fractional(norba, 1.0) if spec["occ"] == "fractional" else None
        occsb = fractional(norbb, 1.0) if spec["occ"] == "fractional" else None
        if occsa is None or occsb is None:
            occsa = np.array([1.0] * na + [0.0] * (norba - na))
            occsb = np.array([1.0] * nb + [0.0] * (norbb - nb))
        sets.append(("Alpha", norba, occsa))
        sets.append(("Beta", norbb, occsb))
    symbols = ["A1", "A2", "B1", "B2", "Ag", "B3u", "a1g", "1.1", "2.1", "A'"]
    wf["spins"] = []
    for spin, norb, occs in sets:
        coeffs = rounded(_orbitals(olp, rng, sparse)[:, :norb], fmt_coef)
        if sparse:
            coeffs[np.abs(coeffs) < 1e-8] = 0.0
        energies = np.array([shown(fmt_ene(x)) for x in np.sort(rng.normal(size=norb) * 2 - 1)])
        syms = [str(rng.choice(symbols)) for _ in range(norb)]
        wf["spins"].append({"spin": spin, "coeffs": coeffs, "occs": occs, "energies": energies, "syms": syms})
    return wf


def truth_of(wf, atnums, atcorenums):
    spins = wf["spins"]
    mo = {
        "kind": wf["kind"],
        "norba": spins[0]["coeffs"].shape[1],
        "norbb": spins[-1]["coeffs"].shape[1],
        "occs": np.concatenate([s["occs"] for s in spins]),
        "coeffs": np.concatenate([s["coeffs"] for s in spins], axis=1),
        "energies": np.concatenate([s["energies"] for s in spins]),
        "irreps": None,
        "occs_aminusb": None,
    }
    return {
        "atnums": np.asarray(atnums, dtype=int),
        "atcorenums": np.asarray(atcorenums, dtype=float),
        "centers": np.array(wf["centers"], dtype=float),
        "basis": plain_basis(wf),
        "mo": mo,
        "one_rdms": {},
        "ambiguous_spin": False,
    }


def wf_labels(wf):
    out = [wf["kind"]]
    ls = {ell for sh in wf["shells"] for ell in sh["ls"]}
    kinds = {(ell, k) for sh in wf["shells"] for ell, k in zip(sh["ls"], sh["kinds"])}
    out.append(f"lmax={max(ls)}")
    for ell, k in sorted(kinds):
        if ell >= 2:
            out.append(f"{'pure' if k == 'p' else 'cart'}_{LCHARS[ell]}")
    if any(len(sh["ls"]) == 2 for sh in wf["shells"]):
        out.append("sp_shell")
    used = {sh["iatom"] for sh in wf["shells"]}
    if len(used) < wf["natom"]:
        out.append("atom_without_shells")
    norbs = [s["coeffs"].shape[1] for s in wf["spins"]]
    if max(norbs) >= 6:
        out.append("norb>=6")
    if any(n < wf["nbasis"] for n in norbs):
        out.append("partial_orbital_set")
    if len(norbs) == 2 and norbs[0] != norbs[1]:
        out.append("norba!=norbb")
    occs = np.concatenate([s["occs"] for s in wf["spins"]])
    if np.any(occs != np.round(occs)):
        out.append("fractional_occupations")
    if wf["kind"] == "restricted" and np.any(occs == 1.0):
        out.append("restricted_open_shell")
    if any((s["coeffs"] == 0).any() for s in wf["spins"]):
        out.append("zero_coefficients")
    if any(sh["exponents"].size > 1 for sh in wf["shells"]):
        out.append("contracted")
    return out


# ----------------------------------------------------------------------------------------------
# the Molden spec writer
# ----------------------------------------------------------------------------------------------


def st_model(big):
    return st.fixed_dictionaries(
        {
            "seed": st.integers(0, 2**32 - 1),
            "wf": st_wf(big),
            "unit": st.sampled_from(["AU", "Angs"]),
            "atoms_header": st.sampled_from(["plain", "plain", "paren", "upper"]),
            "symbol_case": st.sampled_from(["title", "title", "lower", "upper"]),
            "corenum": st.sampled_from(["z", "z", "z", "ecp", "ghost"]),
            "title": st.sampled_from(["text", "text", "none", "empty", "text_blank"]),
            "title_text": C.st_title(1, 50),
            "flags_pos": st.sampled_from(["before_gto", "after_gto", "top"]),
            "flag_style": st.sampled_from(["upper", "upper", "lower", "long"]),
            "numstyle": st.sampled_from(["D", "fixed", "E0", "E"]),
            "coord_style": st.sampled_from(["fixed", "fixed", "E0"]),
            "mo_keys": st.sampled_from(["sym_first", "ene_first", "no_sym"]),
            "mo_style": st.sampled_from(["fixed", "exp", "plain"]),
            "occ_text": st.sampled_from(["real", "real", "short"]),
            "omit_zeros": st.sampled_from([False, False, True]),
            "order": st.sampled_from(["normal", "normal", "normal", "normal", "normal", "gto_first"]),
            "gto_atom_order": st.sampled_from(["sequential"] * 4 + ["permuted", "split"]),
            "empty_block": st.sampled_from([False, False, True]),
            "spin_order": st.sampled_from(["blocks", "blocks", "blocks", "interleaved"]),
            "extra_sections": st.booleans(),
            "gto_end_blank": st.sampled_from([1, 2]),
        }
    )


def _fmt_coord(x, style):
    if style == "E0":
        return fortran_0d(x, 14, "E", drop_zero=True).rjust(21)
    return f"{x:.10f}".rjust(20)


def _fmt_occ(x):
    return f"{x:.6f}"


def _fmt_ene(x):
    return f"{x:.10f}"


def build(spec):
    factor = 1.0 if spec["unit"] == "AU" else U.angstrom
    cstyle = spec["coord_style"]

    def round_centers(raw):
        native = np.array([[shown(_fmt_coord(x / factor, cstyle)) for x in row] for row in raw])
        return native, native * factor

    rng = C.rng_of(spec, 5)
    natom = len(spec["wf"]["atoms"])
    order = list(range(natom))
    if spec["gto_atom_order"] == "permuted":
        order = [int(i) for i in rng.permutation(natom)]
    blocks = [(iatom, None) for iatom in order]
    if spec["gto_atom_order"] == "split" and natom >= 2:
        # the shells of one atom in two blocks, with the blocks of the other atoms in between
        rich = [i for i in order if len(spec["wf"]["atoms"][i]) >= 2]
        if rich:
            nsh = len(spec["wf"]["atoms"][rich[0]])
            first = list(range(nsh // 2))
            blocks = ([(rich[0], first)] + [(i, None) for i in order if i != rich[0]]
                      + [(rich[0], [k for k in range(nsh) if k not in first])])
    wf = build_wf(
        spec["wf"], spec["seed"],
        lambda x: fmt_real(x, spec["numstyle"]),
        lambda x: fmt_mo(x, spec["mo_style"]),
        _fmt_occ, _fmt_ene, round_centers, blocks,
    )
    atnums = np.minimum(C.atnums(rng, natom, spec["wf"]["elements"]), 103)
    corenums = atnums.astype(float)
    if spec["corenum"] == "ecp":
        for i, z in enumerate(atnums):
            if z > 10:
                corenums[i] = float(z - rng.choice([2, 10]))
    elif spec["corenum"] == "ghost":
        corenums[int(rng.integers(natom))] = 0.0
    omit = bool(spec["omit_zeros"]) and any((s["coeffs"] == 0).any() for s in wf["spins"])
    return {
        "wf": wf, "atnums": atnums, "corenums": corenums, "unit": spec["unit"],
        "atoms_header": spec["atoms_header"], "symbol_case": spec["symbol_case"],
        "title": spec["title"], "title_text": spec["title_text"], "flags_pos": spec["flags_pos"],
        "flag_style": spec["flag_style"], "numstyle": spec["numstyle"], "coord_style": cstyle,
        "mo_keys": spec["mo_keys"], "mo_style": spec["mo_style"], "occ_text": spec["occ_text"],
        "omit_zeros": omit, "order": spec["order"], "gto_blocks": [b[0] for b in blocks],
        "empty_block": bool(spec["empty_block"]), "spin_order": spec["spin_order"],
        "extra_sections": bool(spec["extra_sections"]), "gto_end_blank": spec["gto_end_blank"],
        "boost": False,
    }


def _symbol(model, z):
    sym = C.NUM2SYM[int(z)]
    return {"title": sym, "lower": sym.lower(), "upper": sym.upper()}[model["symbol_case"]]


def _flag_lines(model):
    kinds = {}
    for sh in model["wf"]["shells"]:
        for ell, k in zip(sh["ls"], sh["kinds"]):
            kinds[ell] = k
    pure_d, pure_f, pure_g = (kinds.get(ell) == "p" for ell in (2, 3, 4))
    if 5 in kinds:
        pure_g = True
    # shells that do not occur may be flagged either way; keep them Cartesian (no flag)
    flags = []
    if pure_d and pure_f:
        flags.append("[5D7F]" if model["flag_style"] == "long" else "[5D]")
    elif pure_d:
        # [5D] alone means 5d *and* 7f: only legal when no Cartesian f shell is present
        flags.append("[5D]" if (3 not in kinds and model["flag_style"] != "long") else "[5D10F]")
    elif pure_f:
        flags.append("[7F]")
    if pure_g:
        flags.append("[9G]")
    if model["flag_style"] == "lower":
        flags = [f.lower() for f in flags]
    return flags


def _atoms_lines(model):
    head = {"plain": "[Atoms] {u}", "paren": "[Atoms] ({u})", "upper": "[ATOMS] {u}"}[model["atoms_header"]]
    lines = [head.format(u=model["unit"])]
    for i, (z, q, xyz) in enumerate(zip(model["atnums"], model["corenums"], model["wf"]["native"])):
        lines.append(
            f"{_symbol(model, z):<2s} {i + 1:5d} {int(q):4d} " + " ".join(_fmt_coord(x, model["coord_style"]) for x in xyz)
        )
    return lines


def _gto_lines(model):
    wf = model["wf"]
    lines = ["[GTO]"]
    for iblock, iatom in enumerate(model["gto_blocks"]):
        if not (model["empty_block"] or any(sh["block"] == iblock for sh in wf["shells"])):
            continue
        lines.append(f"{iatom + 1:5d} 0")
        for sh in wf["shells"]:
            if sh["block"] != iblock:
                continue
            label = "sp" if len(sh["ls"]) == 2 else LCHARS[sh["ls"][0]]
            lines.append(f" {label:<2s} {len(sh['exponents']):4d} 1.00")
            for a, row in zip(sh["exponents"], sh["coeffs"]):
                lines.append(" ".join(fmt_real(v, model["numstyle"], model["boost"]) for v in [a, *row]))
        lines.append("")
    if model["gto_end_blank"] == 2:
        lines.append("")
    return lines


def _mo_lines(model):
    wf = model["wf"]
    lines = ["[MO]"]
    entries = []
    for s in wf["spins"]:
        entries.append([(s, i) for i in range(s["coeffs"].shape[1])])
    if model["spin_order"] == "interleaved" and len(entries) == 2:
        seq = []
        for k in range(max(len(e) for e in entries)):
            for e in entries:
                if k < len(e):
                    seq.append(e[k])
    else:
        seq = [x for e in entries for x in e]
    for s, i in seq:
        occ = s["occs"][i]
        if model["occ_text"] == "short" and occ == round(occ):
            occ_text = f"{int(occ):4d}"
        else:
            occ_text = _fmt_occ(occ).rjust(12)
        keys = {
            "Sym": f" Sym= {s['syms'][i]}",
            "Ene": f" Ene= {_fmt_ene(s['energies'][i]).rjust(20)}",
            "Spin": f" Spin= {s['spin']}",
            "Occup": f" Occup= {occ_text}",
        }
        order = {"sym_first": ["Sym", "Ene", "Spin", "Occup"], "ene_first": ["Ene", "Sym", "Spin", "Occup"],
                 "no_sym": ["Ene", "Spin", "Occup"]}[model["mo_keys"]]
        lines += [keys[k] for k in order]
        for ibasis, c in enumerate(s["coeffs"][:, i]):
            if model["omit_zeros"] and c == 0:
                continue
            if model["mo_style"] == "plain":
                lines.append(f"{ibasis + 1} {fmt_mo(c, 'plain', model['boost'])}")
            else:
                lines.append(f"{ibasis + 1:4d} {fmt_mo(c, model['mo_style'], model['boost'])}")
    return lines


def write(model):
    lines = ["[Molden Format]"]
    flags = _flag_lines(model)
    if model["title"] != "none":
        lines.append("[Title]")
        lines.append("" if model["title"] == "empty" else " " + model["title_text"])
        if model["title"] == "text_blank":
            lines.append("")
    if model["extra_sections"]:
        lines += ["[Molpro variables]", "_NUMVAR=  785.0000000000000", "_BOLTZ= 0.1380658000000000E-22"]
    if model["flags_pos"] == "top":
        lines += flags
    atoms, gto = _atoms_lines(model), _gto_lines(model)
    if model["flags_pos"] == "before_gto":
        gto = flags + gto
    elif model["flags_pos"] == "after_gto":
        gto = gto + flags
    lines += (gto + atoms) if model["order"] == "gto_first" else (atoms + gto)
    lines += _mo_lines(model)
    if model["extra_sections"]:
        lines += ["[SCFCONV]", "scf-first    1 THROUGH    2", "    -43.556806", "    -43.637843"]
    return "\n".join(lines) + "\n"


DIGITS = {
    "coord": 1e-12, "coord_rel": 2e-9, "exp_rel": 1e-13, "exp_abs": 0.0, "con_abs": 1e-13,
    "coef_rel": 1e-13, "coef_abs": 1e-14, "occ": 1e-12, "ene": 1e-11, "ene_rel": 0.0,
    "core": 1e-12, "core_rel": 0.0,
}


def expected(model):
    truth = truth_of(model["wf"], model["atnums"], model["corenums"])
    exp = {("__wavefunction__",): (truth, "wavefunction", dict(DIGITS))}
    if model["title"] in ("text", "text_blank"):
        exp[("title",)] = (model["title_text"].strip(), "exact", 0)
    elif model["title"] == "none":
        exp[("title",)] = (None, "absent", 0)
    if model["mo_keys"] != "no_sym":
        exp[("mo", "irreps")] = (np.array([x for s in model["wf"]["spins"] for x in s["syms"]]), "exact", 0)
    return exp


def labels(spec, model):
    out = wf_labels(model["wf"])
    out += [f"unit:{model['unit']}", f"numbers:{model['numstyle']}", f"mo_numbers:{model['mo_style']}",
            f"title:{model['title']}", f"flags:{model['flags_pos']}", f"atoms_header:{model['atoms_header']}"]
    if model["numstyle"] == "D":
        out.append("fortran_D_exponents")
    flags = _flag_lines(model)
    out += [f"flag{f.upper()}" for f in flags]
    if not flags:
        out.append("no_pure_flag")
    if model["omit_zeros"]:
        out.append("zero_coefficients_omitted")
    if model["order"] == "gto_first":
        out.append("gto_before_atoms")
    present = [b for k, b in enumerate(model["gto_blocks"]) if any(sh["block"] == k for sh in model["wf"]["shells"])]
    if len(set(present)) < len(present):
        out.append("gto_atom_in_two_blocks")
    elif present != sorted(present):
        out.append("gto_atom_order_permuted")
    if model["empty_block"] and "atom_without_shells" in out:
        out.append("empty_gto_block")
    if model["spin_order"] == "interleaved" and model["wf"]["kind"] == "unrestricted":
        out.append("spins_interleaved")
    if model["extra_sections"]:
        out.append("other_sections")
    if (model["corenums"] != model["atnums"]).any():
        out.append("corenum!=atnum")
    if model["symbol_case"] != "title":
        out.append(f"symbols:{model['symbol_case']}")
    if any(sh["ls"] == [5] for sh in model["wf"]["shells"]):
        out.append("h_shell")
    del spec
    return out


def core(spec, model):
    """False for legal variants that neither the fixtures nor iodata's documentation cover."""
    labs = set(labels(spec, model))
    extended = {"sp_shell", "zero_coefficients_omitted", "gto_before_atoms", "gto_atom_order_permuted",
                "gto_atom_in_two_blocks",
                "empty_gto_block", "spins_interleaved"}
    return not (labs & extended)


# ----------------------------------------------------------------------------------------------
# independent re-parser (regular expressions on the whole text; shares no code with write)
# ----------------------------------------------------------------------------------------------

_SECTION = re.compile(r"^\s*\[([^\]]+)\]\s*(.*?)\s*$")
_NUMBER = re.compile(r"^[+-]?(\d+\.?\d*|\.\d+)([EeDd][+-]?\d+)?$")


def _tofloat(word):
    if not _NUMBER.match(word):
        raise ValueError(word)
    return float(word.upper().replace("D", "E"))


def selfparse(text):
    rows = text.split("\n")
    if rows[0].strip() != "[Molden Format]":
        raise ValueError("header")
    sections = []  # (name lower, argument, body lines)
    for row in rows[1:]:
        m = _SECTION.match(row)
        if m:
            sections.append((m.group(1).strip().lower(), m.group(2), []))
        elif sections:
            sections[-1][2].append(row)
    out = {"flags": [], "title": None, "order": [name for name, _a, _b in sections]}
    for name, arg, body in sections:
        if name in ("5d", "5d7f", "5d10f", "7f", "9g"):
            out["flags"].append(name)
        elif name == "title":
            out["title"] = body[0] if body else ""
        elif name == "atoms":
            out["unit"] = arg.strip("()").lower()
            atoms = []
            for row in body:
                words = row.split()
                if len(words) != 6:
                    break
                atoms.append((words[0], int(words[1]), int(words[2]), [_tofloat(w) for w in words[3:]]))
            out["atoms"] = atoms
        elif name == "gto":
            blocks, cur, k = [], None, 0
            while k < len(body):
                words = body[k].split()
                if cur is None:
                    if not words:
                        k += 1
                        continue
                    if len(words) == 2 and words[1] == "0" and words[0].isdigit():
                        cur = (int(words[0]), [])
                        blocks.append(cur)
                        k += 1
                        continue
                    break
                if not words:
                    cur = None
                    k += 1
                    continue
                label, nprim = words[0].lower(), int(words[1])
                prims = [[_tofloat(w) for w in body[k + 1 + j].split()] for j in range(nprim)]
                cur[1].append((label, prims))
                k += 1 + nprim
            out["gto"] = blocks
        elif name == "mo":
            mos, cur = [], None
            for row in body:
                if "=" in row:
                    key, value = row.split("=")
                    if cur is None or cur["coefs"]:
                        cur = {"coefs": {}}
                        mos.append(cur)
                    cur[key.strip().lower()] = value.strip()
                else:
                    words = row.split()
                    if len(words) == 2 and cur is not None:
                        cur["coefs"][int(words[0])] = _tofloat(words[1])
            out["mo"] = mos
    return out


def selfcheck(model, parsed):
    wf = model["wf"]
    out = []
    if parsed.get("unit") != model["unit"].lower():
        out.append("unit")
    atoms = parsed.get("atoms", [])
    if len(atoms) != wf["natom"]:
        return out + ["natom"]
    for i, (sym, idx, q, xyz) in enumerate(atoms):
        if (C.SYM2NUM.get(sym.title()) != model["atnums"][i] or idx != i + 1 or q != model["corenums"][i]
                or not np.array_equal(np.array(xyz), wf["native"][i])):
            out.append(f"atom {i}")
    pure = set()
    for flag in parsed["flags"]:
        pure |= {"5d": {2, 3}, "5d7f": {2, 3}, "5d10f": {2}, "7f": {3}, "9g": {4, 5}}[flag]
    for sh in wf["shells"]:
        for ell, kind in zip(sh["ls"], sh["kinds"]):
            if ell >= 2 and (kind == "p") != (ell in pure):
                out.append(f"flag for l={ell}")
    want_blocks = []
    for iblock, iatom in enumerate(model["gto_blocks"]):
        members = [sh for sh in wf["shells"] if sh["block"] == iblock]
        if members or model["empty_block"]:
            want_blocks.append((iatom + 1, members))
    got_blocks = parsed.get("gto", [])
    if [b[0] for b in got_blocks] != [b[0] for b in want_blocks]:
        out.append("gto blocks")
    else:
        flat_got = [s for b in got_blocks for s in b[1]]
        flat_want = [s for b in want_blocks for s in b[1]]
        if len(flat_got) != len(wf["shells"]) or [id(s) for s in flat_want] != [id(s) for s in wf["shells"]]:
            out.append("shell order")
        for (label, prims), sh in zip(flat_got, flat_want):
            want_label = "sp" if len(sh["ls"]) == 2 else LCHARS[sh["ls"][0]]
            table = np.column_stack([sh["exponents"], sh["coeffs"]])
            if label != want_label or np.array(prims).shape != table.shape or not np.array_equal(np.array(prims), table):
                out.append("shell")
                break
    # orbitals
    want = []
    per_spin = [[(s, i) for i in range(s["coeffs"].shape[1])] for s in wf["spins"]]
    if model["spin_order"] == "interleaved" and len(per_spin) == 2:
        for k in range(max(len(e) for e in per_spin)):
            want += [e[k] for e in per_spin if k < len(e)]
    else:
        want = [x for e in per_spin for x in e]
    mos = parsed.get("mo", [])
    if len(mos) != len(want):
        return out + [f"norb {len(mos)} != {len(want)}"]
    for mo, (s, i) in zip(mos, want):
        col = np.zeros(wf["nbasis"])
        for idx, val in mo["coefs"].items():
            col[idx - 1] = val
        ok = (
            mo.get("spin", "").lower() == s["spin"].lower()
            and float(mo["ene"]) == s["energies"][i]
            and float(mo["occup"]) == s["occs"][i]
            and np.array_equal(col, s["coeffs"][:, i])
            and (model["mo_keys"] == "no_sym" or mo.get("sym") == s["syms"][i])
            and (model["omit_zeros"] or len(mo["coefs"]) == wf["nbasis"])
        )
        if not ok:
            out.append(f"orbital {s['spin']} {i}")
            break
    if model["title"] == "none":
        if parsed["title"] is not None:
            out.append("title")
    elif (parsed["title"] or "").strip() != ("" if model["title"] == "empty" else model["title_text"].strip()):
        out.append("title")
    pos = {name: k for k, name in reversed(list(enumerate(parsed["order"])))}
    if (pos["gto"] < pos["atoms"]) != (model["order"] == "gto_first"):
        out.append("section order")
    return out
