"""Spec writer for the output of the CP2K ATOM code (``*.cp2k.out``).

There is no published format description for a program log; the text below is a template
transcribed from the fixtures written by CP2K 2.4 / 2.6 (``/repo/iodata/test/data/*.cp2k.out``,
input sections ATOM%PRINT%{POTENTIAL,BASIS_SET,ORBITALS}), every number being a slot filled from
the model in the column format seen in those files:

    " Atomic Energy Calculation" + name "[Sy]" at col 40 + "Atomic number:" + I5     (1-based cols)
    " All Electron Basis" / " Pseudopotential Basis", each followed by either
        " ***... Uncontracted Gaussian Type Orbitals ...***"
        " s Exponents:" I21, F46.8   /   continuation lines I34, F46.8    (one block per l)
      or
        " ***... Contracted Gaussian Type Orbitals ...***"
        " s Functions"
        F15.6 (exponent), then the contraction coefficients from column 21 in F10.6
    " METHOD    | (Restricted|Unrestricted) Kohn-Sham Calculation"
    GTH pseudopotential block with "          Core Charge" + F?.1 ending in column 80
    (all-electron runs: " ***** All Electron Potential *****" without a core charge)
    " Electronic structure" ... occupations per l
    " Energy components [Hartree]           Total Energy ::" F25.12
    " Orbital energies  State     L     Occupation   Energy[a.u.]          Energy[eV]"
        rows I24, I6, F15.3, F15.6, F20.6            (restricted)
    " Orbital energies  State     Spin  L     Occupation   Energy[a.u.]    Energy[eV]"
        rows I24, A9, I3, F15.3, F15.6, F14.6        (unrestricted: per l all alpha, then all beta)
    " Atomic orbital expansion coefficients []" / "[Alpha]" / "[Beta]"
        "    ORBITAL      L = 0      State =   1" followed by one ES29.15 per radial function of l

Meaning of the numbers (CP2K's atom code, cf. the comments in iodata's reader and verified on
the fixtures: with these definitions the printed orbitals are orthonormal to 1e-6):
the radial basis functions of angular momentum l are R_j(r) = sum_i cm_ij r^l exp(-a_i r^2)
(uncontracted: one raw primitive r^l exp(-a r^2) per exponent), multiplied by a unit-normalised
real spherical harmonic.  In the language of docs/basis.rst (L2-normalised pure primitives
N(a,l) C_lm exp(-a r^2), Racah-normalised C_lm) the contraction coefficient is
D_ij = cm_ij / Nrad(a_i, l) with Nrad^2 = 2^(l+2) (2a)^(l+3/2) / (sqrt(pi) (2l+1)!!).

The file lists ONE radial orbital per (l, state) with the total occupation of the 2l+1
degenerate orbitals; it does not say in which order a reader should enumerate the m components.
The truth stated here enumerates them as x, y, z for p and m = 0, +1, -1, ... (cos, sin) for
l >= 2, each with occupation occ / (2l+1): a difference that is only a permutation inside a
degenerate multiplet is not a defect.

Everything that the fixtures do not show is labelled and non-core.
"""

from __future__ import annotations

import math
import re

import numpy as np
from hypothesis import strategies as st

from . import common as C

FORMAT = "cp2klog"
FILENAME = "model.cp2k.out"
LOAD_MANY = False

LCHARS = "spdfgh"
EV = 27.2113838565563  # "[a.u.] -> [eV]" printed in the header of the fixtures (CODATA 2006)

NAMES = (
    "Hydrogen Helium Lithium Beryllium Boron Carbon Nitrogen Oxygen Fluorine Neon Sodium Magnesium "
    "Aluminium Silicon Phosphorus Sulfur Chlorine Argon Potassium Calcium Scandium Titanium Vanadium "
    "Chromium Manganese Iron Cobalt Nickel Copper Zinc Gallium Germanium Arsenic Selenium Bromine "
    "Krypton Rubidium Strontium Yttrium Zirconium Niobium Molybdenum Technetium Ruthenium Rhodium "
    "Palladium Silver Cadmium Indium Tin Antimony Tellurium Iodine Xenon"
).split()
assert len(NAMES) == 54

CONVENTIONS = {(0, "c"): ["1"], (1, "c"): ["x", "y", "z"]}
for _l in range(2, 6):
    CONVENTIONS[(_l, "p")] = ["c0"] + [f"{cs}{m}" for m in range(1, _l + 1) for cs in "cs"]


def fac2(n):
    out = 1
    while n > 1:
        out *= n
        n -= 2
    return out


def nrad(alpha, ell):
    """Norm constant of the radial primitive r^l exp(-alpha r^2): int r^2 (Nrad r^l e^..)^2 = 1."""
    return math.sqrt(2 ** (ell + 2) * (2 * alpha) ** (ell + 1.5) / (math.sqrt(math.pi) * fac2(2 * ell + 1)))


def radial_overlap(exps, cm, ell):
    """Overlap of the radial functions sum_i cm_ij r^l exp(-a_i r^2)."""
    psum = np.add.outer(exps, exps)
    prim = fac2(2 * ell + 1) * math.sqrt(math.pi) / (2 ** (ell + 2) * psum ** (ell + 1.5))
    return cm.T @ prim @ cm


# ----------------------------------------------------------------------------------------------
# strategy / model
# ----------------------------------------------------------------------------------------------


def st_basis_spec():
    return st.fixed_dictionaries(
        {
            "type": st.sampled_from(["contracted", "uncontracted"]),
            "nprim": st.lists(st.integers(1, 7), min_size=5, max_size=5),
            "ncon": st.lists(st.integers(1, 4), min_size=5, max_size=5),
            "same_exponents": st.booleans(),
        }
    )


def st_model(big):
    del big
    return st.fixed_dictionaries(
        {
            "seed": st.integers(0, 2**32 - 1),
            "atnum": st.one_of(st.integers(1, 54), st.sampled_from([1, 2, 3, 6, 8, 14, 30])),
            "pseudo": st.booleans(),
            "zeff": st.sampled_from(["valence", "valence", "valence", "all"]),
            "restricted": st.booleans(),
            "method": st.sampled_from(["KS", "KS", "KS", "KS", "HF"]),
            "lmax_basis": st.sampled_from([0, 1, 2, 2, 2, 3, 3, 3, 4]),
            "lmax_orb": st.sampled_from([0, 1, 1, 1, 2, 3]),
            "gap": st.sampled_from([False] * 9 + [True]),
            "ae": st_basis_spec(),
            "pp": st_basis_spec(),
            "nstate": st.lists(st.integers(1, 3), min_size=4, max_size=4),
            "virtual": st.booleans(),
            "occ": st.sampled_from(["integer", "integer", "fractional"]),
            "fill_field": st.sampled_from([False] * 7 + [True]),
            "version": st.sampled_from(["2.6", "2.4 (Development Version)"]),
        }
    )


def _r(value, decimals):
    return float(f"{value:.{decimals}f}")


def _make_basis(rng, bspec, lmax, fill_field, gap):
    """Per l: None (no functions) or (exponents, cm) with cm of shape (nprim, nfunc)."""
    per_l = []
    shared = None
    for ell in range(lmax + 1):
        if gap and ell == 1 and lmax >= 2 and bspec["type"] == "contracted":
            per_l.append(None)
            continue
        nprim = bspec["nprim"][ell]
        if bspec["type"] == "uncontracted":
            if bspec["same_exponents"] and shared is not None:
                exps = shared
            else:
                first = math.exp(rng.uniform(math.log(0.05), math.log(0.3)))
                exps = first * np.cumprod(np.concatenate([[1.0], rng.uniform(1.9, 3.2, size=nprim - 1)]))
                exps = np.array([_r(a, 8) for a in exps])
                shared = exps
            per_l.append((exps, None))
            continue
        first = math.exp(rng.uniform(math.log(0.05), math.log(0.3)))
        exps = first * np.cumprod(np.concatenate([[1.0], rng.uniform(1.9, 3.2, size=nprim - 1)]))
        exps = np.array([_r(a, 6) for a in exps])[::-1].copy()  # tight exponents first
        ncon = min(bspec["ncon"][ell], nprim)
        cm = np.zeros((nprim, ncon))
        # first column: all primitives; further columns: one diffuse primitive each (as in the
        # fixtures) or a second general contraction
        cm[:, 0] = rng.uniform(0.05, 7.0, size=nprim) * rng.choice([-1.0, 1.0], size=nprim)
        for j in range(1, ncon):
            if rng.random() < 0.5:
                cm[:, j] = rng.uniform(0.05, 2.0, size=nprim) * rng.choice([-1.0, 1.0], size=nprim)
                cm[: nprim // 2, j] = 0.0 if rng.random() < 0.3 else cm[: nprim // 2, j]
            cm[nprim - ncon + j, j] = rng.uniform(0.2, 1.5)
            if rng.random() < 0.5:
                cm[nprim - ncon + j, 0] = 0.0
        if not np.any(cm[:, 0]):
            cm[0, 0] = 1.0
        if fill_field and ncon >= 2:
            cm[int(rng.integers(nprim)), int(rng.integers(1, ncon))] = -rng.uniform(10.0, 99.0)
        cm = np.array([[_r(x, 6) for x in row] for row in cm])
        if np.linalg.matrix_rank(cm) < ncon:
            cm[:ncon, :ncon] += np.eye(ncon)
        per_l.append((exps, cm))
    return per_l


def _nfunc(entry):
    if entry is None:
        return 0
    return len(entry[0]) if entry[1] is None else entry[1].shape[1]


def build(spec):
    rng = C.rng_of(spec)
    atnum = int(spec["atnum"])
    lmax = int(spec["lmax_basis"])
    ae = {"type": spec["ae"]["type"], "per_l": _make_basis(rng, spec["ae"], lmax, spec["fill_field"] and not spec["pseudo"], spec["gap"])}
    pp = {"type": spec["pp"]["type"], "per_l": _make_basis(rng, spec["pp"], lmax, spec["fill_field"] and spec["pseudo"], spec["gap"])}
    used = pp if spec["pseudo"] else ae
    restricted = bool(spec["restricted"])
    spins = ["none"] if restricted else ["alpha", "beta"]
    orb_ls = [ell for ell in range(min(int(spec["lmax_orb"]), lmax) + 1) if _nfunc(used["per_l"][ell]) > 0]
    # states and occupations
    table = {spin: [] for spin in spins}  # rows {"l", "state", "occ", "energy", "coeffs"}
    cap = 2.0 if restricted else 1.0
    for ell in orb_ls:
        entry = used["per_l"][ell]
        nfun = _nfunc(entry)
        nstate = min(int(spec["nstate"][ell]), nfun)
        exps = entry[0]
        cm = np.eye(len(exps)) if entry[1] is None else entry[1]
        olp = radial_overlap(exps, cm, ell)
        w, v = np.linalg.eigh(olp)
        good = w > 1e-10 * w.max()
        half = (v[:, good] / np.sqrt(w[good])) @ v[:, good].T
        for spin in spins:
            q, _ = np.linalg.qr(rng.normal(size=(nfun, nfun)))
            orbs = half @ q
            base = -abs(rng.normal()) * 3 / (ell + 1) - (0.1 if spin == "beta" else 0.2)
            for istate in range(nstate):
                full = cap * (2 * ell + 1)
                last = istate == nstate - 1
                if spec["occ"] == "integer":
                    occ = full if not last else float(rng.integers(0 if (spec["virtual"] or spin == "beta") else 1, int(full) + 1))
                else:
                    occ = full if not last else _r(rng.uniform(0.0, full), 3)
                table[spin].append(
                    {
                        "l": ell, "state": istate + 1, "occ": occ,
                        "energy": _r(base + 0.9 * istate * abs(base) / nstate + 0.01 * istate, 6),
                        "coeffs": np.array([float(f"{c:.15E}") for c in orbs[:, istate]]),
                    }
                )
    if not any(row["occ"] > 0 for rows in table.values() for row in rows):
        table[spins[0]][0]["occ"] = 1.0 if not restricted else 2.0
    if restricted and spec["occ"] == "integer" and rng.random() < 0.85:
        rows = table["none"]
        if int(round(sum(row["occ"] for row in rows))) % 2:
            row = rows[-1]
            row["occ"] += 1.0 if row["occ"] < cap * (2 * row["l"] + 1) else -1.0
    if restricted and spec["occ"] == "fractional":
        # make the electron count an even integer (in decimal arithmetic) whenever possible
        rows = table["none"]
        total = sum(int(round(row["occ"] * 1000)) for row in rows)
        row = rows[-1]
        want = (total // 2000) * 2000 + (2000 if total % 2000 else 0)
        new = int(round(row["occ"] * 1000)) + want - total
        if 0 <= new <= int(cap * (2 * row["l"] + 1) * 1000):
            row["occ"] = new / 1000.0
    nval = sum(row["occ"] for rows in table.values() for row in rows)
    if spec["pseudo"]:
        cores = [c for c in (2, 10, 18, 28, 36, 46) if c < atnum]
        zeff = atnum if (spec["zeff"] == "all" or not cores) else atnum - int(rng.choice(cores))
    else:
        zeff = atnum
    energy = _r(-abs(rng.normal()) * 10 ** rng.uniform(0, 3.5), 12)
    return {
        "atnum": atnum, "pseudo": bool(spec["pseudo"]), "zeff": float(zeff), "restricted": restricted,
        "method": spec["method"], "ae": ae, "pp": pp, "table": table, "orb_ls": orb_ls,
        "nval": nval, "energy": energy, "version": spec["version"],
        "components": [_r(x, 12) for x in rng.normal(size=10) * abs(energy)],
        "iterations": int(rng.integers(3, 9)),
    }


# ----------------------------------------------------------------------------------------------
# the text template
# ----------------------------------------------------------------------------------------------

HEADER = """\

  **** **** ******  **  PROGRAM STARTED AT               2016-05-11 12:03:17.804
 ***** ** ***  *** **   PROGRAM STARTED ON                              molmod55
 **    ****   ******    PROGRAM STARTED BY                                  toon
 ***** **    ** ** **   PROGRAM PROCESS ID                                  8008
  **** **  *******  **  PROGRAM STARTED IN /home/toon/univ/collaboration/mathieu
                                           _salanne/ean/wannier_hirshfeld_test/p
                                           be_molopt_sv_sr/atoms/testing

 CP2K| version string:{version:>58s}
 CP2K| source code revision number:                                    svn:15177
 CP2K| is freely available from                             http://www.cp2k.org/
 CP2K| Program compiled at                          Sun Aug 16 19:48:04 UTC 2015
 CP2K| Program compiled on                     buildvm-23.phx2.fedoraproject.org
 CP2K| Program compiled for                                Linux-x86-64-gfortran
 CP2K| Input file name                                                 model.inp

 GLOBAL| Method name                                                        ATOM
 GLOBAL| Project name                                                      MODEL
 GLOBAL| Preferred FFT library                                             FFTW3
 GLOBAL| Preferred diagonalization lib.                                       SL
 GLOBAL| Run type                                                   ENERGY_FORCE
 GLOBAL| All-to-all communication in single precision                          F
 GLOBAL| FFTs using library dependent lengths                                  F
 GLOBAL| Global print level                                               MEDIUM
 GLOBAL| Total number of message passing processes                             1
 GLOBAL| Number of threads for this process                                    4
 GLOBAL| This output is from process                                           0

 *** Conversion factors ***

 [u] -> [a.u.]                                              1.82288848426455E+03
 [Angstrom] -> [Bohr] = [a.u.]                              1.88972613288564E+00
 [a.u.] = [Bohr] -> [Angstrom]                              5.29177208590000E-01
 [a.u.] -> [eV]                                             2.72113838565563E+01

 DBCSR| Multiplication driver                                                SMM
 DBCSR| Multrec recursion limit                                              512
 DBCSR| Multiplication stack size                                           1000
 DBCSR| Multiplication size stacks                                             3



                           ****  ******  ****   ****
                          **  ** ****** **  ** ******
                          ******   **   **  ** **  **
                          **  **   **    ****  **  **

                             University of Zurich
                                 2009 - 2014

                                 Version 0.0


"""

FOOTER = """\

                             NORMAL TERMINATION OF

                           ****  ******  ****   ****
                          **  ** ****** **  ** ******
                          ******   **   **  ** **  **
                          **  **   **    ****  **  **


 -------------------------------------------------------------------------------
 -                                                                             -
 -                                DBCSR STATISTICS                             -
 -                                                                             -
 -------------------------------------------------------------------------------
 COUNTER                                      CPU                  ACC      ACC%
 number of processed stacks                     0                    0       0.0
 matmuls total                                  0                    0       0.0
 flops total                                    0                    0       0.0
 -------------------------------------------------------------------------------

  **** **** ******  **  PROGRAM ENDED AT                 2016-05-11 12:03:17.847
 ***** ** ***  *** **   PROGRAM RAN ON                                  molmod55
 **    ****   ******    PROGRAM RAN BY                                      toon
 ***** **    ** ** **   PROGRAM PROCESS ID                                  8008
  **** **  *******  **  PROGRAM STOPPED IN /home/toon/univ/collaboration/mathieu
                                           _salanne/ean/wannier_hirshfeld_test/p
                                           be_molopt_sv_sr/atoms/testing
"""

STARS = " " + "*" * 79
UNCONTRACTED = " ********************* Uncontracted Gaussian Type Orbitals *********************"
CONTRACTED = " ********************** Contracted Gaussian Type Orbitals **********************"
MULTIPLICITIES = ["singlet", "doublet", "triplet", "quartet", "quintet", "sextet", "septet", "octet",
                  "nonet", "decet", "undecet"]


def _basis_lines(title, basis):
    lines = [f" {title}", ""]
    if basis["type"] == "uncontracted":
        lines.append(UNCONTRACTED)
        for ell, entry in enumerate(basis["per_l"]):
            if entry is None:
                continue
            lines.append("")
            for i, a in enumerate(entry[0]):
                head = f" {LCHARS[ell]} Exponents:" if i == 0 else ""
                lines.append(f"{head}{i + 1:>{34 - len(head)}d}{a:46.8f}")
    else:
        lines.append(CONTRACTED)
        for ell, entry in enumerate(basis["per_l"]):
            if entry is None:
                continue
            lines.append(f" {LCHARS[ell]} Functions")
            for a, row in zip(*entry):
                lines.append(f"{a:15.6f}" + " " * 5 + "".join(f"{x:10.6f}" for x in row))
    lines.append(STARS)
    return lines


def _right(label, value):
    return f"{label}{value:>{80 - len(label)}s}"


def _structure_lines(model):
    nval = model["nval"]
    ncore = model["atnum"] - model["zeff"] if model["pseudo"] else 0.0
    lines = [" Electronic structure",
             _right("    Total number of core electrons", f"{ncore:.2f}"),
             _right("    Total number of valence electrons", f"{nval:.2f}"),
             _right("    Total number of electrons", f"{ncore + nval:.2f}")]

    def occ_lines(rows):
        out = []
        for ell in sorted({row["l"] for row in rows}):
            occs = [row["occ"] for row in rows if row["l"] == ell]
            out.append(f"    {LCHARS[ell].upper()}    " + "".join(f"{o:6.2f}" for o in occs))
        return out

    if model["restricted"]:
        lines.append(_right("    Multiplicity", "not specified"))
        lines += occ_lines(model["table"]["none"])
    else:
        na = sum(row["occ"] for row in model["table"]["alpha"])
        nb = sum(row["occ"] for row in model["table"]["beta"])
        mult = int(round(abs(na - nb)))
        lines.append(_right("    Multiplicity", MULTIPLICITIES[min(mult, len(MULTIPLICITIES) - 1)]))
        lines.append("    Alpha Electrons")
        lines += occ_lines(model["table"]["alpha"])
        lines.append("    Beta Electrons")
        lines += occ_lines(model["table"]["beta"])
    return lines


def _energy_lines(model):
    names = ["Band Energy", "Kinetic Energy", "Potential Energy", "Virial (-V/T)", "Core Energy",
             "XC Energy", "Coulomb Energy"]
    if model["pseudo"]:
        names += ["Total Pseudopotential Energy", "Local Pseudopotential Energy",
                  "Nonlocal Pseudopotential Energy"]
    head = " Energy components [Hartree]           Total Energy ::"
    lines = [_right(head, f"{model['energy']:.12f}")]
    for name, value in zip(names, model["components"]):
        lines.append(_right(f"{name + ' ::':>{len(head)}s}", f"{value:.12f}"))
    return lines


def _table_lines(model):
    lines = []
    if model["restricted"]:
        lines.append(" Orbital energies  State     L     Occupation   Energy[a.u.]          Energy[eV]")
        for ell in model["orb_ls"]:
            lines.append("")
            for row in model["table"]["none"]:
                if row["l"] == ell:
                    lines.append(f"{row['state']:24d}{ell:6d}{row['occ']:15.3f}{row['energy']:15.6f}{row['energy'] * EV:20.6f}")
    else:
        lines.append(" Orbital energies  State     Spin  L     Occupation   Energy[a.u.]    Energy[eV]")
        for ell in model["orb_ls"]:
            lines.append("")
            for spin in ("alpha", "beta"):
                for row in model["table"][spin]:
                    if row["l"] == ell:
                        lines.append(
                            f"{row['state']:24d}{spin:>9s}{ell:3d}{row['occ']:15.3f}{row['energy']:15.6f}{row['energy'] * EV:14.6f}"
                        )
    lines += ["", ""]
    return lines


def _coeff_lines(model):
    lines = []
    for spin, tag in (("none", ""), ("alpha", "Alpha"), ("beta", "Beta")):
        if spin not in model["table"]:
            continue
        lines.append(f" Atomic orbital expansion coefficients [{tag}]")
        lines.append("")
        for row in model["table"][spin]:
            lines.append(f"    ORBITAL      L = {row['l']}      State = {row['state']:3d}")
            lines += [f"{c:29.15E}" for c in row["coeffs"]]
            lines.append("")
    return lines


def write(model):
    z = model["atnum"]
    name = f"{NAMES[z - 1]} [{C.NUM2SYM[z]}]"
    lines = HEADER.format(version="CP2K version " + model["version"]).split("\n")
    lines.append(f" Atomic Energy Calculation             {name:<22s}Atomic number:{z:5d}")
    lines += ["", ""]
    lines += _basis_lines("All Electron Basis", model["ae"]) + [""]
    lines += _basis_lines("Pseudopotential Basis", model["pp"]) + [""]
    kind = "Restricted" if model["restricted"] else "Unrestricted"
    spin_tag = "LDA" if model["restricted"] else "LSD"
    if model["method"] == "KS":
        lines += [
            f" METHOD    | {kind} Kohn-Sham Calculation",
            " METHOD    | Nonrelativistic Calculation",
            " FUNCTIONAL| ROUTINE=NEW",
            " FUNCTIONAL| BECKE88:",
            f" FUNCTIONAL| A. Becke, Phys. Rev. A 38, 3098 (1988) {{{spin_tag} version}}",
            " FUNCTIONAL| LYP:",
            f" FUNCTIONAL| C. Lee, W. Yang, R.G. Parr, Phys. Rev. B, 37, 785 (1988) {{{spin_tag} versi",
            " FUNCTIONAL| on}",
        ]
    else:
        lines += [f" METHOD    | {kind} Hartree-Fock Calculation", " METHOD    | Nonrelativistic Calculation"]
    lines.append("")
    if model["pseudo"]:
        lines += [
            " ***************************** GTH Pseudopotential *****************************",
            _right("          Core Charge", f"{model['zeff']:.1f}"),
            _right("          Rc", "0.338066"),
            _right("          C1 C2 ...", "-9.136269    1.429260"),
            _right("          Angular momentum", "0"),
            _right("          Rcnl", "0.302322"),
            _right("          Nl", "1"),
            _right("          Hnl", "9.665512"),
            STARS,
        ]
    else:
        lines += [" **************************** All Electron Potential ***************************", STARS]
    lines.append("")
    lines += _structure_lines(model) + ["", ""]
    lines += [STARS, "                  Iteration          Convergence                     Energy [au]", STARS]
    for it in range(model["iterations"]):
        last = it == model["iterations"] - 1
        conv = f"{0.5 * 10.0 ** (-it):.6f}" if it < 2 else f"{0.37 * 10.0 ** (-it):.6E}".replace("E-0", "E-")
        value = model["energy"] if last else model["energy"] + 0.1 * 10.0 ** (-it)
        lines.append(f"{it + 1:27d}{conv:>16s}{value:37.12f}")
    lines.append("")
    lines += _energy_lines(model) + [""]
    lines += _table_lines(model)
    lines += _coeff_lines(model)
    return "\n".join(lines) + "\n" + FOOTER


# ----------------------------------------------------------------------------------------------
# truth
# ----------------------------------------------------------------------------------------------


def _truth(model):
    used = model["pp"] if model["pseudo"] else model["ae"]
    shells, offsets, nbasis = [], {}, 0
    for ell, entry in enumerate(used["per_l"]):
        if entry is None:
            continue
        kind = "c" if ell < 2 else "p"
        offsets[ell] = nbasis
        exps, cm = entry
        if cm is None:
            for a in exps:
                shells.append({"icenter": 0, "angmoms": [ell], "kinds": [kind], "exponents": np.array([a]),
                               "coeffs": np.array([[1.0 / nrad(a, ell)]])})
        else:
            norms = np.array([nrad(a, ell) for a in exps])
            shells.append({"icenter": 0, "angmoms": [ell] * cm.shape[1], "kinds": [kind] * cm.shape[1],
                           "exponents": np.array(exps), "coeffs": cm / norms[:, None]})
        nbasis += _nfunc(entry) * (2 * ell + 1)
    centers = np.zeros((1, 3))
    blocks = []
    for spin in (["none"] if model["restricted"] else ["alpha", "beta"]):
        cols, occs, enes = [], [], []
        for row in model["table"][spin]:
            ell = row["l"]
            for m in range(2 * ell + 1):
                col = np.zeros(nbasis)
                for j, c in enumerate(row["coeffs"]):
                    col[offsets[ell] + (2 * ell + 1) * j + m] = c
                cols.append(col)
                occs.append(row["occ"] / (2 * ell + 1))
                enes.append(row["energy"])
        blocks.append((np.array(cols).T.reshape(nbasis, -1), np.array(occs), np.array(enes)))
    mo = {
        "kind": "restricted" if model["restricted"] else "unrestricted",
        "norba": blocks[0][0].shape[1], "norbb": blocks[-1][0].shape[1],
        "occs": np.concatenate([b[1] for b in blocks]),
        "coeffs": np.concatenate([b[0] for b in blocks], axis=1),
        "energies": np.concatenate([b[2] for b in blocks]),
        "irreps": None, "occs_aminusb": None,
    }
    return {
        "atnums": np.array([model["atnum"]]), "atcorenums": np.array([model["zeff"]]), "centers": centers,
        "basis": {"centers": centers, "shells": shells, "conventions": CONVENTIONS},
        "mo": mo, "one_rdms": {}, "ambiguous_spin": False,
    }


DIGITS = {
    "coord": 1e-14, "exp_rel": 1e-13, "exp_abs": 0.0, "con_abs": 1e-13, "coef_rel": 1e-13,
    "coef_abs": 1e-14, "occ": 1e-12, "ene": 1e-12, "ene_rel": 0.0, "core": 1e-12, "core_rel": 0.0,
}


def expected(model):
    return {
        ("__wavefunction__",): (_truth(model), "wavefunction", dict(DIGITS)),
        ("energy",): (model["energy"], "abs", 1e-12),
        ("atnums",): (np.array([model["atnum"]]), "exact", 0),
        ("atcoords",): (np.zeros((1, 3)), "abs", 0.0),
    }


def labels(spec, model):
    out = ["restricted" if model["restricted"] else "unrestricted",
           "pseudopotential" if model["pseudo"] else "all_electron",
           f"ae_basis:{model['ae']['type']}", f"pp_basis:{model['pp']['type']}",
           f"lmax_basis={len(model['ae']['per_l']) - 1}", f"lmax_orb={max(model['orb_ls'])}"]
    used = model["pp"] if model["pseudo"] else model["ae"]
    if model["pseudo"] and model["zeff"] == model["atnum"]:
        out.append("core_charge==atomic_number")
    if any(e is None for e in used["per_l"]):
        out.append("basis_l_gap")
    rows = [row for rows in model["table"].values() for row in rows]
    if any(row["state"] > 1 for row in rows):
        out.append("several_states_per_l")
    if any(row["occ"] == 0 for row in rows):
        out.append("unoccupied_state")
    if any(row["occ"] != round(row["occ"]) for row in rows):
        out.append("fractional_occupations")
    if model["restricted"] and int(round(model["nval"] * 1000)) % 2000:
        out.append("restricted_not_even_electrons")
    if model["method"] == "HF":
        out.append("hartree_fock")
    if len(model["ae"]["per_l"]) - 1 >= 4:
        out.append("g_functions")
    for entry in used["per_l"]:
        if entry is not None and entry[1] is not None and (entry[1][:, 1:] <= -10).any():
            out.append("contraction_coefficient_fills_field")
            break
    if max(model["orb_ls"]) >= 2:
        out.append("d_or_f_orbitals")
    if model["atnum"] >= 10:
        out.append("atnum>=10")
    if any(_nfunc(e) > 0 and ell not in model["orb_ls"] for ell, e in enumerate(used["per_l"])):
        out.append("l_without_orbitals")
    del spec
    return out


def core(spec, model):
    labs = set(labels(spec, model))
    # the fixtures show Kohn-Sham runs, integer occupations, s..f basis functions without gaps
    extended = {"basis_l_gap", "restricted_not_even_electrons", "hartree_fock", "g_functions",
                "contraction_coefficient_fills_field", "fractional_occupations"}
    return not (labs & extended)


# ----------------------------------------------------------------------------------------------
# independent re-parser (column slices and regular expressions; no code shared with write)
# ----------------------------------------------------------------------------------------------

_ORB = re.compile(r"^    ORBITAL      L = (\d)      State =\s+(\d+)$")


def _parse_basis(rows, k):
    """rows[k] is the banner line; returns (type, per_l dict, index after the closing stars)."""
    per_l = {}
    if "Uncontracted" in rows[k]:
        kind = "uncontracted"
        k += 1
        ell = None
        while not rows[k].startswith(" ****"):
            row = rows[k]
            if row[3:13] == "Exponents:":
                ell = "spdfgh".index(row[1])
                per_l[ell] = []
            if row.strip():
                index, value = int(row[13:34]), float(row[34:80])
                if index != len(per_l[ell]) + 1:
                    raise ValueError("exponent index")
                per_l[ell].append(value)
            k += 1
    else:
        kind = "contracted"
        k += 1
        ell = None
        while not rows[k].startswith(" ****"):
            row = rows[k]
            if row[3:12] == "Functions":
                ell = "spdfgh".index(row[1])
                per_l[ell] = []
            else:
                exponent = float(row[:15])
                if row[15:20].strip():
                    raise ValueError("columns 16-20 must be blank")
                coefs = [float(row[c : c + 10]) for c in range(20, len(row), 10)]
                per_l[ell].append([exponent, *coefs])
            k += 1
    return kind, per_l, k + 1


def selfparse(text):
    rows = text.split("\n")
    out = {"orbitals": {}}
    k = 0
    spin = None
    while k < len(rows):
        row = rows[k]
        if row.startswith(" Atomic Energy Calculation"):
            out["atnum"] = int(row[75:80])
            out["symbol"] = row[row.index("[") + 1 : row.index("]")]
        elif row == " All Electron Basis":
            out["ae_type"], out["ae"], k = _parse_basis(rows, k + 2)
            continue
        elif row == " Pseudopotential Basis":
            out["pp_type"], out["pp"], k = _parse_basis(rows, k + 2)
            continue
        elif row.startswith(" METHOD    |") and "restricted" in row.lower():
            out["restricted"] = row.split("|")[1].split()[0] == "Restricted"
        elif row.startswith("          Core Charge"):
            out["zeff"] = float(row[22:80])
        elif row.startswith(" Energy components [Hartree]           Total Energy ::"):
            out["energy"] = float(row[54:80])
        elif row.startswith(" Orbital energies"):
            table = []
            k += 1
            blank = 0
            while blank < 2:
                k += 1
                if not rows[k].strip():
                    blank += 1
                    continue
                blank = 0
                r = rows[k]
                if "Spin" in row:
                    table.append((r[24:33].strip(), int(r[33:36]), int(r[:24]), float(r[36:51]), float(r[51:66]), float(r[66:80])))
                else:
                    table.append(("none", int(r[24:30]), int(r[:24]), float(r[30:45]), float(r[45:60]), float(r[60:80])))
            out["table"] = table
        elif row.startswith(" Atomic orbital expansion coefficients ["):
            spin = {"": "none", "Alpha": "alpha", "Beta": "beta"}[row[row.index("[") + 1 : row.index("]")]]
        elif _ORB.match(row):
            m = _ORB.match(row)
            coefs = []
            k += 1
            while rows[k].strip():
                if len(rows[k]) != 29:
                    raise ValueError("coefficient width")
                coefs.append(float(rows[k]))
                k += 1
            out["orbitals"][(spin, int(m.group(1)), int(m.group(2)))] = coefs
        k += 1
    return out


def selfcheck(model, parsed):
    out = []
    if parsed.get("atnum") != model["atnum"] or parsed.get("symbol") != C.NUM2SYM[model["atnum"]]:
        out.append("atnum")
    if parsed.get("restricted") != model["restricted"]:
        out.append("restricted")
    if parsed.get("zeff") != (model["zeff"] if model["pseudo"] else None):
        out.append("core charge")
    if parsed.get("energy") != model["energy"]:
        out.append("energy")
    for key in ("ae", "pp"):
        basis = model[key]
        if parsed.get(f"{key}_type") != basis["type"]:
            out.append(f"{key} type")
            continue
        want = {}
        for ell, entry in enumerate(basis["per_l"]):
            if entry is None:
                continue
            want[ell] = list(entry[0]) if entry[1] is None else np.column_stack([entry[0], entry[1]]).tolist()
        got = parsed[key]
        if sorted(got) != sorted(want) or any(not np.array_equal(np.array(got[ell]), np.array(want[ell])) for ell in want):
            out.append(f"{key} basis")
    want_rows = []
    for ell in model["orb_ls"]:
        for spin in (["none"] if model["restricted"] else ["alpha", "beta"]):
            for row in model["table"][spin]:
                if row["l"] == ell:
                    want_rows.append((spin, ell, row["state"], row["occ"], row["energy"]))
    got_rows = [r[:5] for r in parsed.get("table", [])]
    if got_rows != want_rows:
        out.append("orbital energies table")
    for r in parsed.get("table", []):
        if abs(r[5] - r[4] * EV) > 0.51e-6:
            out.append("eV column")
            break
    norb = 0
    for spin, rows in model["table"].items():
        for row in rows:
            norb += 1
            got = parsed["orbitals"].get((spin, row["l"], row["state"]))
            if got is None or not np.array_equal(np.array(got), row["coeffs"]):
                out.append(f"orbital {spin} {row['l']} {row['state']}")
    if norb != len(parsed["orbitals"]):
        out.append("number of orbitals")
    return out
