"""Spec writer for the XYZ format (the de-facto layout: count, comment, symbol x y z in angstrom)."""

from __future__ import annotations

import numpy as np
from hypothesis import strategies as st

from .. import units as U
from . import common as C

FORMAT = "xyz"
FILENAME = "model.xyz"
LOAD_MANY = True


def st_model(big):
    return st.fixed_dictionaries(
        {
            "natom": C.st_natom(12000, big),
            "seed": st.integers(0, 2**32 - 1),
            "coord_cls": st.sampled_from(C.COORD_CLASSES),
            "decimals": st.sampled_from([3, 5, 8, 10, 12]),
            "title": st.one_of(C.st_title(), st.just("")),
            "symbol_style": st.sampled_from(["symbol", "symbol", "upper", "lower", "number"]),
            "sep": st.sampled_from(["  ", " ", "\t", "      "]),
            "number_style": st.sampled_from(["fixed", "fixed", "exp", "plus"]),
            "trailing_blank": st.booleans(),
            "elements": st.sampled_from(["all", "light", "two_letter"]),
        }
    )


def build(spec):
    rng = C.rng_of(spec)
    natom = spec["natom"]
    return {
        "natom": natom,
        "title": spec["title"],
        "atnums": C.atnums(rng, natom, spec["elements"]),
        "coords": C.coords(rng, natom, spec["coord_cls"], -9999.0, 99999.0, spec["decimals"]),
        "decimals": spec["decimals"],
        "symbol_style": spec["symbol_style"],
        "sep": spec["sep"],
        "number_style": spec["number_style"],
        "trailing_blank": spec["trailing_blank"],
    }


def _symbol(model, z):
    sym = C.NUM2SYM[int(z)]
    style = model["symbol_style"]
    if style == "upper":
        return sym.upper()
    if style == "lower":
        return sym.lower()
    if style == "number":
        return str(int(z))
    return sym


def _number(model, x):
    d = model["decimals"]
    style = model["number_style"]
    if style == "exp":
        # enough mantissa digits to show the value exactly as rounded
        return f"{x:.{d + 6}e}"
    if style == "plus":
        return f"{x:+.{d}f}"
    return f"{x:.{d}f}"


def frame_lines(model):
    lines = [f"{model['natom']}", model["title"]]
    sep = model["sep"]
    for z, (x, y, zc) in zip(model["atnums"], model["coords"]):
        lines.append(sep.join([_symbol(model, z), _number(model, x), _number(model, y), _number(model, zc)]))
    return lines


def write(model):
    text = "\n".join(frame_lines(model)) + "\n"
    if model["trailing_blank"]:
        text += "\n"
    return text


def write_many(models):
    text = "".join("\n".join(frame_lines(m)) + "\n" for m in models)
    if models and models[-1]["trailing_blank"]:
        text += "\n"
    return text


def expected(model):
    d = model["decimals"]
    return {
        ("atnums",): (np.asarray(model["atnums"]), "exact", 0),
        ("atcoords",): (model["coords"] * U.angstrom, "abs", 1e-12 * U.angstrom * 10 ** max(0, 5 - d)),
        ("title",): (model["title"].strip(), "exact", 0),
    }


def labels(spec, model):
    out = [f"symbols:{spec['symbol_style']}", f"numbers:{spec['number_style']}", f"coords:{spec['coord_cls']}"]
    n = model["natom"]
    for bound in (100, 1000, 10000):
        if n >= bound:
            out.append(f"natom>={bound}")
    if spec["sep"] == "\t":
        out.append("tab_separated")
    if not model["title"]:
        out.append("empty_title")
    return out


def core(spec, model):
    # symbols / atomic numbers, free-format reals: all promised by the reader's documentation
    return spec["sep"] != "\t" or True


def selfparse(text):
    lines = text.split("\n")
    natom = int(lines[0].split()[0])
    title = lines[1]
    atoms = []
    for line in lines[2 : 2 + natom]:
        parts = line.replace("\t", " ").split()
        sym = parts[0]
        z = int(sym) if sym.isdigit() else C.SYM2NUM[sym[0].upper() + sym[1:].lower()]
        atoms.append((z, [float(p) for p in parts[1:4]]))
    return {"natom": natom, "title": title, "atoms": atoms}


def selfcheck(model, parsed):
    out = []
    if parsed["natom"] != model["natom"] or len(parsed["atoms"]) != model["natom"]:
        out.append("natom")
    if parsed["title"] != model["title"]:
        out.append("title")
    for (z, xyz), z0, xyz0 in zip(parsed["atoms"], model["atnums"], model["coords"]):
        if z != z0 or max(abs(a - b) for a, b in zip(xyz, xyz0)) > 1e-9 * (1 + abs(xyz0).max()):
            out.append("atom")
            break
    return out


def numeric_fields(model):
    """(line, col_start, col_end, name) of every numeric field of the single-frame file."""
    out = [(0, 0, len(str(model["natom"])), "natom")]
    for iatom, line in enumerate(frame_lines(model)[2:]):
        pos = 0
        parts = line.replace("\t", " ").split()
        for k, part in enumerate(parts):
            start = line.index(part, pos)
            pos = start + len(part)
            if k >= 1:
                out.append((2 + iatom, start, pos, "xyz"[k - 1]))
    return out
