"""Spec writer for Gaussian log files with printed integrals (template of a g03/g09 log).

Layout transcribed from the output Gaussian produces with
``scf(conventional) iop(3/33=5) extralinks=l316 iop(3/27=999)`` (see the two g03 logs in the
repository's fixtures):

* ``    NBasis =%4d  MinDer = 0  MaxDer = 0`` announces the number of basis functions,
* link 302 prints symmetric matrices under the headers `` *** Overlap ***``,
  `` *** Kinetic Energy ***``, `` ***** Potential Energy *****`` and
  `` ****** Core Hamiltonian ******`` as *lower triangles in blocks of five columns*:
  a column-header line (3X,5I14), then one line per row ``I7,5D14.6`` starting at the first row of
  the block (row r of block b shows columns 5b+1 .. min(r, 5b+5)); mantissas are Fortran style
  ``0.dddddd`` with a ``D`` exponent,
* link 316 dumps the non-zero symmetry-unique two-electron integrals (I>=J, K>=L, IJ>=KL) in
  chemists' notation (IJ|KL): `` I=%3d J=%3d K=%3d L=%3d Int=%20.12D`` after the header
  `` *** Dumping Two-Electron integrals ***`` and six more lines (three blank, ISMode, DBase,
  IntCnt/ITotal).  Integrals that are not listed are zero.

The matrix printed as "Potential Energy" is the one for which Core Hamiltonian = Kinetic Energy -
Potential Energy holds in the program's print-out (Gaussian prints the nuclear attraction with a
positive sign).  iodata files it as ``one_ints["na_ao"]``; the expectation below is the printed
matrix (sign as printed), see NA_SIGN.
"""

from __future__ import annotations

import re

import numpy as np
from hypothesis import strategies as st

from . import common as C

FORMAT = "gaussianlog"
FILENAME = "model.log"
LOAD_MANY = False

# +1: expect one_ints["na_ao"] exactly as printed under "Potential Energy" (what the file shows);
# -1 would be the physical nuclear-attraction operator (core = kin + na).
NA_SIGN = 1.0

STRIPPED = ["", "", "           ---===### Stripped irrelevant parts for the test. ###===---", "", ""]


def st_model(big):
    sizes = [1, 2, 4, 5, 6, 9, 10, 11, 13]
    if big:
        sizes += [15, 16, 20, 21, 24]
    return st.fixed_dictionaries(
        {
            "nbasis": st.one_of(st.integers(1, 13), st.sampled_from(sizes)),
            "seed": st.integers(0, 2**32 - 1),
            "value_cls": st.sampled_from(["unit", "unit", "negative", "wide_exponent"]),
            "trailing_space": st.booleans(),
            "eri_zero_fraction": st.sampled_from([0.0, 0.3, 0.6, 0.95]),
            "eri_order": st.sampled_from(["descending", "ascending", "shuffled", "shuffled"]),
            "sections": st.sampled_from(["all", "all", "all", "all", "no_two_electron", "only_two_electron", "no_core_hamiltonian"]),
            "multipole_matrices": st.booleans(),
            "nbasis_twice": st.booleans(),
        }
    )


def _round_sig(arr, ndigit):
    """Round to ``ndigit`` significant decimal digits (what a Dw.ndigit field can show)."""
    flat = [float(f"{float(x):.{ndigit - 1}e}") for x in np.asarray(arr, dtype=float).ravel()]
    return np.array(flat).reshape(np.shape(arr))


def _sym_matrix(rng, n, cls, diag):
    a = rng.uniform(-1, 1, size=(n, n))
    if cls == "negative":
        a = -np.abs(a) * 30
    elif cls == "wide_exponent":
        a = a * 10.0 ** rng.integers(-9, 4, size=(n, n))
    a = np.tril(a) + np.tril(a, -1).T
    if diag is not None:
        a[np.diag_indices(n)] = diag
    # sprinkle exact zeros as symmetry does in real logs
    mask = np.tril(rng.random((n, n)) < 0.2, -1)
    a[mask | mask.T] = 0.0
    return a


def canonical_quartets(n):
    """1-based (i, j, k, l) with i>=j, k>=l and pair(ij) >= pair(kl)."""
    out = []
    for i in range(1, n + 1):
        for j in range(1, i + 1):
            for k in range(1, i + 1):
                for l in range(1, k + 1):
                    if k < i or l <= j:
                        out.append((i, j, k, l))
    return out


def build(spec):
    rng = C.rng_of(spec)
    n = spec["nbasis"]
    cls = spec["value_cls"]
    olp = _round_sig(_sym_matrix(rng, n, "unit" if cls != "wide_exponent" else cls, 1.0), 6)
    kin = _round_sig(_sym_matrix(rng, n, cls, None) * 3, 6)
    pot = _round_sig(_sym_matrix(rng, n, cls, None) * 10, 6)
    core = _round_sig(kin - pot, 6)
    quartets = canonical_quartets(n)
    vals = rng.uniform(-1, 1, size=len(quartets))
    if cls == "negative":
        vals = -np.abs(vals) * 5
    elif cls == "wide_exponent":
        vals = vals * 10.0 ** rng.integers(-9, 3, size=len(quartets))
    vals = _round_sig(vals, 12)
    keep = rng.random(len(quartets)) >= spec["eri_zero_fraction"]
    if len(quartets) and not keep.any():
        keep[int(rng.integers(len(quartets)))] = True
    eri = [(q, float(v)) for q, v, k in zip(quartets, vals, keep) if k and v != 0.0]
    if spec["eri_order"] == "descending":
        eri = eri[::-1]
    elif spec["eri_order"] == "shuffled":
        eri = [eri[i] for i in rng.permutation(len(eri))]
    multipoles = [_round_sig(_sym_matrix(rng, n, "unit", None), 6) for _ in range(3)] if spec["multipole_matrices"] else []
    return {
        "nbasis": n,
        "olp": olp, "kin": kin, "pot": pot, "core": core, "eri": eri,
        "multipoles": multipoles,
        "trailing_space": spec["trailing_space"],
        "sections": spec["sections"],
        "nbasis_twice": spec["nbasis_twice"],
    }


# ---------------------------------------------------------------------------------------------
# writer


def fortran_d(value, width, digits):
    """Fortran ``Dwidth.digits``: mantissa 0.ddd, two-digit signed exponent."""
    value = float(value)
    if value == 0.0:
        mant, expo = "0" * digits, 0
    else:
        sci = f"{abs(value):.{digits - 1}e}"
        mant, expo = sci.split("e")
        mant = mant.replace(".", "")
        expo = int(expo) + 1
    sign = "-" if value < 0 else ""
    esign = "-" if expo < 0 else "+"
    text = f"{sign}0.{mant}D{esign}{abs(expo):02d}"
    assert len(text) <= width, (text, width)
    return " " * (width - len(text)) + text


def matrix_lines(mat):
    n = mat.shape[0]
    lines = []
    for start in range(0, n, 5):
        cols = range(start, min(start + 5, n))
        lines.append("   " + "".join(f"{c + 1:14d}" for c in cols))
        for row in range(start, n):
            shown = [c for c in cols if c <= row]
            lines.append(f"{row + 1:7d}" + "".join(fortran_d(mat[row, c], 14, 6) for c in shown))
    return lines


def _nbasis_line(n):
    return f"    NBasis ={n:4d}  MinDer = 0  MaxDer = 0"


def write(model):
    n = model["nbasis"]
    tail = " " if model["trailing_space"] else ""
    sec = model["sections"]
    out = list(STRIPPED)
    out += [
        " One-electron integrals computed using PRISM.",
        " Entering OneElI...",
        " OneElI was handed  6271371 working-precision words.",
        " Calculate overlap and kinetic energy integrals",
        _nbasis_line(n),
        " Requested accuracy = 0.1000D-12",
        " Overlap and Kinetic Integrals",
    ]
    out += STRIPPED
    out += [
        " Derivative Range = 0 to 2  Logicals = T F F F F F",
        "",
        "                   C37 =       0",
        "                   C38 =       0",
        " Prsmar:                       9      1     29      5821       840       324       412       624",
    ]
    if sec != "only_two_electron":
        out.append(" *** Overlap ***" + tail)
        out += matrix_lines(model["olp"])
        out.append(" *** Kinetic Energy ***" + tail)
        out += matrix_lines(model["kin"])
    out += [
        " Entering OneElI...",
        " OneElI was handed  6271371 working-precision words.",
        " Calculate potential energy integrals",
    ]
    if model["nbasis_twice"]:
        out.append(_nbasis_line(n))
    out += [
        " Requested accuracy = 0.1000D-12",
        " Nuclear Attraction Integrals",
        " The Coulomb operator will be used",
    ]
    out += STRIPPED
    out += [
        "                   C37 =      40",
        "                   C38 =      92",
        " Prsmar:                       9      1      1       450       314        27       228      1669",
    ]
    if sec != "only_two_electron":
        out.append(" ***** Potential Energy *****" + tail)
        out += matrix_lines(model["pot"])
        if sec != "no_core_hamiltonian":
            out.append(" ****** Core Hamiltonian ******" + tail)
            out += matrix_lines(model["core"])
    out += STRIPPED
    for ix, mat in enumerate(model["multipoles"]):
        out.append(f" Multipole matrices IBuc=  518 IX={ix + 1:5d} IJ=           1:")
        out += matrix_lines(mat)
    out += [" ReDoC1: IPurDI=1 IPurFI=1 IPurDO=0 IPurFO=0."]
    out += STRIPPED
    if sec != "no_two_electron":
        out += [
            "",
            " *** Dumping Two-Electron integrals ***",
            "",
            "",
            "",
            " ISMode= 1 Mode= 2 IBase=         1 IBasD=         1    131073",
            " DBase=     65537 DBasD=     65537    196609 IReset=         1         1",
            f" IntCnt=         0 ITotal={len(model['eri']):10d} NWIIB=    131072 ISym2E=0",
        ]
        for (i, j, k, l), v in model["eri"]:
            out.append(f" I={i:3d} J={j:3d} K={k:3d} L={l:3d} Int=" + fortran_d(v, 20, 12))
    out += [
        " Leave Link  316 at Tue Mar  6 13:48:04 2012, MaxMem=    6291456 cpu:       0.0",
        " (Enter /opt/gaussian/g03_D1_amd64/g03/l401.exe)",
        " Harris functional with IExCor=  205 diagonalized for initial guess.",
    ]
    out += STRIPPED
    out += [" Normal termination of Gaussian 03 at Tue Mar  6 13:48:05 2012."]
    return "\n".join(out) + "\n"


# ---------------------------------------------------------------------------------------------
# expectation


def full_eri_physicist(n, eri):
    chem = np.zeros((n, n, n, n))
    for (i, j, k, l), v in eri:
        a, b, c, d = i - 1, j - 1, k - 1, l - 1
        for p, q, r, s in (
            (a, b, c, d), (b, a, c, d), (a, b, d, c), (b, a, d, c),
            (c, d, a, b), (d, c, a, b), (c, d, b, a), (d, c, b, a),
        ):
            chem[p, q, r, s] = v
    # (pq|rs) = <pr|qs>
    return np.ascontiguousarray(chem.transpose(0, 2, 1, 3))


def expected(model):
    n = model["nbasis"]
    sec = model["sections"]
    exp = {}
    if sec != "only_two_electron":
        exp[("one_ints", "olp")] = (model["olp"], "rel", 1e-13)
        exp[("one_ints", "kin_ao")] = (model["kin"], "rel", 1e-13)
        exp[("one_ints", "na_ao")] = (NA_SIGN * model["pot"], "rel", 1e-13)
    else:
        for key in ("olp", "kin_ao", "na_ao"):
            exp[("one_ints", key)] = (None, "absent", 0)
    if sec != "no_two_electron":
        exp[("two_ints", "er_ao")] = (full_eri_physicist(n, model["eri"]), "rel", 1e-13)
    else:
        exp[("two_ints", "er_ao")] = (None, "absent", 0)
    return exp


def labels(spec, model):
    n = model["nbasis"]
    out = [f"values:{spec['value_cls']}", f"blocks:{(n + 4) // 5}", f"last_block_width:{(n - 1) % 5 + 1}"]
    if n % 5 == 0:
        out.append("nbasis_multiple_of_5")
    if n >= 10:
        out.append("row_index>=10")
    if spec["trailing_space"]:
        out.append("header_trailing_space")
    out.append(f"sections:{spec['sections']}")
    if model["sections"] != "no_two_electron":
        out.append(f"eri_order:{spec['eri_order']}")
        out.append(f"eri_zero_fraction:{spec['eri_zero_fraction']}")
        if any(len({i, j, k, l}) == 4 for (i, j, k, l), _v in model["eri"]):
            out.append("eri_four_distinct_indices")
    if model["multipoles"]:
        out.append("multipole_matrices_present")
    if not model["nbasis_twice"]:
        out.append("nbasis_line_once")
    return out


def core(spec, model):
    # both fixtures print all four matrices and the integral dump
    return model["sections"] == "all"


# ---------------------------------------------------------------------------------------------
# independent re-parser

_HEADERS = {
    "*** Overlap ***": "olp",
    "*** Kinetic Energy ***": "kin",
    "***** Potential Energy *****": "pot",
    "****** Core Hamiltonian ******": "core",
}
_ERI = re.compile(r"^ I=\s*(\d+) J=\s*(\d+) K=\s*(\d+) L=\s*(\d+) Int=\s*(\S+)\s*$")
_COLS = re.compile(r"^(\s+\d+)+$")
_NUM = re.compile(r"^-?0\.\d+D[+-]\d\d$")


def selfparse(text):
    lines = text.split("\n")
    nbasis = None
    mats = {}
    eri = []
    total = None
    i = 0
    while i < len(lines):
        line = lines[i]
        m = re.match(r"^    NBasis =\s*(\d+)", line)
        if m:
            nbasis = int(m.group(1))
        name = _HEADERS.get(line.strip())
        if name is not None:
            mat = np.full((nbasis, nbasis), np.nan)
            i += 1
            cols = None
            while i < len(lines):
                cur = lines[i]
                words = cur.split()
                if _COLS.match(cur) and all(w.isdigit() for w in words) and (cols is None or int(words[0]) == cols[-1] + 1):
                    cols = [int(w) for w in words]
                elif len(words) >= 2 and words[0].isdigit() and all(_NUM.match(w) for w in words[1:]):
                    row = int(words[0])
                    for c, w in zip(cols, words[1:]):
                        mat[row - 1, c - 1] = float(w.replace("D", "E"))
                        mat[c - 1, row - 1] = mat[row - 1, c - 1]
                else:
                    break
                i += 1
            mats[name] = mat
            continue
        m = re.search(r"ITotal=\s*(\d+)", line)
        if m:
            total = int(m.group(1))
        m = _ERI.match(line)
        if m:
            eri.append((tuple(int(g) for g in m.groups()[:4]), float(m.group(5).replace("D", "E"))))
        i += 1
    return {"nbasis": nbasis, "mats": mats, "eri": eri, "total": total}


def selfcheck(model, parsed):
    out = []
    if parsed["nbasis"] != model["nbasis"]:
        return ["nbasis"]
    want = []
    if model["sections"] != "only_two_electron":
        want = ["olp", "kin", "pot"] + ([] if model["sections"] == "no_core_hamiltonian" else ["core"])
    if sorted(parsed["mats"]) != sorted(want):
        out.append(f"matrices {sorted(parsed['mats'])}")
    for name in want:
        got = parsed["mats"].get(name)
        if got is None or np.isnan(got).any() or not np.allclose(got, model[name], rtol=1e-12, atol=0):
            out.append(name)
    if model["sections"] != "no_two_electron":
        if parsed["total"] != len(model["eri"]) or len(parsed["eri"]) != len(model["eri"]):
            out.append("eri count")
        for (q, v), (q0, v0) in zip(parsed["eri"], model["eri"]):
            if q != tuple(q0) or abs(v - v0) > 1e-12 * abs(v0):
                out.append(f"eri {q0}")
                break
    elif parsed["eri"]:
        out.append("unexpected eri")
    return out
