"""Spec writer for MolSSI QCSchema JSON files (qcschema_molecule / qcschema_input / qcschema_output).

Fields (MolSSI QCSchema, as summarised in the tables of the reader's module docstring):
  molecule: schema_name, schema_version, symbols (N), geometry (3N, bohr, flat: x1 y1 z1 x2 ...),
            molecular_charge (float), molecular_multiplicity (int), provenance {creator, version,
            routine} (or a list of those); optional: name, comment, masses (u), mass_numbers,
            atomic_numbers, real (false = ghost atom), atom_labels, connectivity [[i, j, order]]
            (zero-based), fragments / fragment_charges / fragment_multiplicities, fix_com,
            fix_orientation, fix_symmetry, validated, identifiers, id, extras
  input:    schema_name, schema_version, molecule, driver (energy|gradient|hessian|properties),
            model {method, basis}; optional: keywords, protocols, extras, id, provenance
  output:   the input fields + properties, return_result, success; optional: stdout, stderr, error,
            provenance, wavefunction
Documented mapping to IOData: symbols -> atnums, geometry -> atcoords, molecular_charge -> charge,
molecular_multiplicity -> spinpol (+1), real -> atcorenums (0 for ghosts), masses -> atmasses,
connectivity -> bonds, name -> title, model.method -> lot, model.basis -> obasis_name,
keywords.run_type -> run_type, properties.return_energy -> energy; every other field is kept in
``extra[<subschema>][<key>]``.
"""

from __future__ import annotations

import json

import numpy as np
from hypothesis import strategies as st

from .. import units as U
from . import common as C

FORMAT = "json_qcschema"
FILENAME = "model.json"
LOAD_MANY = False

MOL_OPTIONAL = [
    "name", "comment", "masses", "mass_numbers", "atomic_numbers", "atom_labels", "connectivity",
    "fragments", "fix_com", "fix_orientation", "fix_symmetry", "validated", "identifiers", "id", "extras",
]
CHARGES = ["0", "0", "0.0", "1", "-1", "2", "1.0", "-2.0", "0.5", "-0.25", "1e0"]
RUN_TYPES = ["energy", "energy_force", "opt", "scan", "freq", "Freq", "OPT", "single_point"]
METHODS = ["HF", "B3LYP", "CCSD(T)", "mp2", "PBE0-D3(BJ)", "gfn2-xtb"]
BASES = ["STO-3G", "6-31G*", "cc-pVDZ", "def2-TZVP", "aug-cc-pV(T+d)Z"]
ESCAPED_TEXTS = ['café "quoted" \\ back', "line1\nline2\ttab", "µ-oxo / α"]


def load_kwargs(model):
    return {"fmt": "json_qcschema"}


def st_model(big):
    flags = {key: st.sampled_from([False, False, True]) for key in MOL_OPTIONAL}
    return st.fixed_dictionaries(
        {
            "seed": st.integers(0, 2**32 - 1),
            "schema": st.sampled_from(["molecule", "molecule", "input", "output", "output"]),
            "natom": C.st_natom(1000 if big else 100, big),
            "elements": st.sampled_from(["all", "light", "two_letter"]),
            "symbol_case": st.sampled_from(["title"] * 6 + ["upper", "lower"]),
            "charge": st.sampled_from(CHARGES),
            "mult": st.sampled_from([1, 1, 1, 2, 3, 4]),
            "mult_present": st.sampled_from([True] * 7 + [False]),
            "charge_present": st.sampled_from([True] * 7 + [False]),
            "version": st.sampled_from(["2", "2", "2.0", "1"]),
            "geometry_style": st.sampled_from(["fixed6", "fixed6", "fixed10", "repr", "exp", "integers"]),
            "coord_cls": st.sampled_from(["small", "small", "negative", "wide"]),
            "real": st.sampled_from(["absent", "absent", "all_true", "some_ghost", "some_ghost", "all_ghost"]),
            "bond_orders": st.sampled_from(["int", "int", "float_integral", "fractional"]),
            "optional": st.fixed_dictionaries(flags),
            "mol_provenance": st.sampled_from(["dict", "dict", "list", "full", "absent"]),
            "absent_style": st.sampled_from(["omitted", "omitted", "omitted", "null"]),
            "text_cls": st.sampled_from(["plain", "plain", "plain", "escapes"]),
            "layout": st.sampled_from(["indent2", "indent4", "compact", "spaced_line"]),
            "key_order": st.sampled_from(["schema", "schema", "shuffled"]),
            # input
            "driver": st.sampled_from(["energy", "energy", "gradient", "hessian", "properties"]),
            "basis": st.sampled_from(["name", "name", "name", "empty", "absent"]),
            "keywords": st.sampled_from(["absent", "empty", "run_type", "run_type", "other"]),
            "run_type": st.sampled_from(RUN_TYPES),
            "protocols": st.sampled_from(["absent", "absent", "full"]),
            "in_extras": st.booleans(),
            "in_id": st.booleans(),
            "in_provenance": st.sampled_from(["dict", "dict", "dict", "list", "absent"]),
            # output
            "properties": st.sampled_from(["energy", "energy", "energy", "other", "many", "empty"]),
            "success": st.sampled_from([True, True, True, False]),
            "stdout": st.sampled_from(["absent", "text", "text"]),
            "stderr": st.sampled_from(["absent", "absent", "text"]),
        }
    )


# ---------------------------------------------------------------------------------------------
# model
# ---------------------------------------------------------------------------------------------


def _geometry(rng, spec, natom):
    style = spec["geometry_style"]
    if style == "integers":
        return rng.integers(-9, 10, size=(natom, 3)).astype(float), 0
    decimals = {"fixed6": 6, "fixed10": 10, "repr": 12, "exp": 8}[style]
    if style == "exp":
        raw = C.coords(rng, natom, spec["coord_cls"], -999.0, 9999.0, 12)
        return np.array([float(f"{x:.{decimals}e}") for x in raw.ravel()]).reshape(natom, 3) + 0.0, decimals
    return C.coords(rng, natom, spec["coord_cls"], -999.0, 9999.0, decimals) + 0.0, decimals


def _provenance(rng, kind):
    first = {"creator": "SpecWriter", "routine": "ivp.oracles.specwriters"}
    full = {"creator": "QCElemental", "version": "v0.2.6", "routine": "qcelemental.models.results"}
    if kind == "dict":
        return first
    if kind == "full":
        return full
    if kind == "list":
        return [full, first]
    return None


def build(spec):
    rng = C.rng_of(spec)
    natom = spec["natom"]
    atnums = C.atnums(rng, natom, spec["elements"]).astype(int)
    coords, decimals = _geometry(rng, spec, natom)
    opt = dict(spec["optional"])
    texts = ESCAPED_TEXTS if spec["text_cls"] == "escapes" else ["water dimer", "H6O3", "generated by a spec writer; no physics", "x"]

    # ghost atoms
    rcls = spec["real"]
    if rcls == "absent":
        real = None
    elif rcls == "all_true":
        real = [True] * natom
    elif rcls == "all_ghost":
        real = [False] * natom
    else:
        real = [bool(r) for r in rng.random(size=natom) < 0.5]
        real[int(rng.integers(natom))] = False
    zreal = int(sum(z for z, r in zip(atnums, real or [True] * natom) if r))

    # charge and multiplicity: a consistent pair where the charge is integral
    charge_text = spec["charge"] if spec["charge_present"] else "0"
    charge = float(charge_text)
    if zreal - charge < 0:
        charge_text, charge = "0", 0.0
    mult = spec["mult"] if spec["mult_present"] else 1
    if charge == int(charge) and spec["mult_present"]:
        nel = zreal - int(charge)
        if (mult - 1) % 2 != nel % 2:
            mult += 1
        if mult - 1 > nel:
            mult = 1 + nel % 2
    masses = np.round(np.array([2.0 * z + rng.uniform(-0.4, 0.6) for z in atnums]), 8)
    if real is not None:
        masses = np.where(np.array(real), masses, 0.0)
    nbond = int(rng.integers(1, 2 * natom)) if natom > 1 else 0
    bonds = C.bonds(rng, natom, nbond, [1, 2, 3]) if opt["connectivity"] and natom > 1 else None
    if opt["connectivity"] and bonds is None:
        opt["connectivity"] = False
    if bonds is not None and spec["bond_orders"] == "fractional":
        orders = [float(rng.choice([1.0, 1.5, 2.5, 0.5])) for _ in bonds]
        orders[0] = 1.5
    elif bonds is not None and spec["bond_orders"] == "float_integral":
        orders = [float(t) for t in bonds[:, 2]]
    elif bonds is not None:
        orders = [int(t) for t in bonds[:, 2]]
    else:
        orders = None
    # fragments: a partition of the atoms
    nfrag = int(rng.integers(1, min(natom, 3) + 1))
    cuts = sorted(rng.choice(np.arange(1, natom), size=nfrag - 1, replace=False)) if nfrag > 1 else []
    fragments = [list(range(a, b)) for a, b in zip([0, *cuts], [*cuts, natom])]
    fragments = [[int(i) for i in frag] for frag in fragments]

    model = {
        "schema": spec["schema"],
        "natom": natom,
        "atnums": atnums,
        "symbol_case": spec["symbol_case"],
        "coords": coords,
        "decimals": decimals,
        "geometry_style": spec["geometry_style"],
        "charge_text": charge_text,
        "charge": charge,
        "charge_present": spec["charge_present"],
        "mult": int(mult),
        "mult_present": spec["mult_present"],
        "version": spec["version"],
        "real": real,
        "optional": opt,
        "name": texts[0],
        "comment": texts[2 % len(texts)],
        "masses": masses,
        "mass_numbers": [int(round(m)) if m else int(2 * z) for m, z in zip(masses, atnums)],
        "atom_labels": [C.token(rng, 3) for _ in range(natom)],
        "bonds": bonds,
        "orders": orders,
        "fragments": fragments,
        "fragment_charges": [charge] + [0.0] * (len(fragments) - 1),
        "fragment_multiplicities": [int(mult)] + [1] * (len(fragments) - 1),
        "fix_com": bool(rng.integers(2)),
        "fix_orientation": bool(rng.integers(2)),
        "fix_symmetry": str(rng.choice(["c1", "c2v", "d2h"])),
        "validated": bool(rng.integers(2)),
        "identifiers": {"molecular_formula": "X" + str(natom), "smiles": "[" + C.NUM2SYM[int(atnums[0])] + "]"},
        "mol_id": C.token(rng, 12).lower(),
        "mol_extras": {"tag": texts[1], "rank": int(rng.integers(100)), "weights": [0.5, 1.25]},
        "mol_provenance": _provenance(rng, spec["mol_provenance"]),
        "absent_style": spec["absent_style"],
        "layout": spec["layout"],
        "key_order": spec["key_order"],
        "order_seed": int(rng.integers(2**31)),
        # input
        "driver": spec["driver"],
        "method": str(rng.choice(METHODS)),
        "basis_cls": spec["basis"],
        "basis": str(rng.choice(BASES)),
        "keywords_cls": spec["keywords"],
        "run_type": spec["run_type"],
        "protocols": spec["protocols"] == "full",
        "keep_wavefunction": str(rng.choice(["all", "orbitals_and_eigenvalues", "return_results", "none"])),
        "keep_stdout": bool(rng.integers(2)),
        "in_extras": {"project": texts[3 % len(texts)], "trial": int(rng.integers(10))} if spec["in_extras"] else None,
        "in_id": C.token(rng, 8) if spec["in_id"] else None,
        "in_provenance": _provenance(rng, spec["in_provenance"]),
        # output
        "properties_cls": spec["properties"],
        "energy": float(np.round(-rng.uniform(0.5, 3000.0), 9)),
        "nuclear_repulsion": float(np.round(rng.uniform(0.0, 500.0), 9)),
        "success": spec["success"],
        "stdout": "SCF converged\n  E = -1.0\n" if spec["stdout"] == "text" else None,
        "stderr": "warning: something" if spec["stderr"] == "text" else None,
        "gradient": np.round(rng.normal(size=3 * natom) * 0.01, 10),
    }
    return model


def _keywords(model):
    cls = model["keywords_cls"]
    if cls == "absent":
        return None
    if cls == "empty":
        return {}
    if cls == "run_type":
        return {"run_type": model["run_type"], "mem": "7GB", "nprocshared": 2}
    return {"scf_convergence": 1e-08, "guess": "core", "maxiter": 200, "tight": True}


def _properties(model):
    cls = model["properties_cls"]
    if cls == "empty":
        return {}
    props = {}
    if cls in ("energy", "many"):
        props["return_energy"] = model["energy"]
    if cls in ("other", "many"):
        props["nuclear_repulsion_energy"] = model["nuclear_repulsion"]
        props["calcinfo_natom"] = model["natom"]
        props["scf_iterations"] = 9
    if cls == "many":
        props["scf_total_energy"] = model["energy"]
        props["scf_dipole_moment"] = [0.0, -0.25, 1.5]
        props["calcinfo_nbasis"] = 14
    return props


def _return_result(model):
    if model["driver"] == "gradient":
        return [float(g) for g in model["gradient"]]
    if model["driver"] == "properties":
        return {"dipole": [0.0, 0.0, 1.5]}
    if model["driver"] == "hessian":
        n = 3 * model["natom"]
        return [0.0] * min(n * n, 36)
    return model["energy"]


# ---------------------------------------------------------------------------------------------
# text (own JSON serialiser: the numbers are written in the style the model asks for)
# ---------------------------------------------------------------------------------------------


class Raw(str):
    """Pre-formatted JSON token."""


def _escape(text):
    out = ['"']
    for ch in text:
        code = ord(ch)
        if ch == '"':
            out.append('\\"')
        elif ch == "\\":
            out.append("\\\\")
        elif ch == "\n":
            out.append("\\n")
        elif ch == "\t":
            out.append("\\t")
        elif code < 32 or code > 126:
            out.append(f"\\u{code:04x}")
        else:
            out.append(ch)
    out.append('"')
    return "".join(out)


def _serialise(obj, layout, level=0):
    if isinstance(obj, Raw):
        return str(obj)
    if obj is None:
        return "null"
    if obj is True:
        return "true"
    if obj is False:
        return "false"
    if isinstance(obj, str):
        return _escape(obj)
    if isinstance(obj, (int, np.integer)):
        return str(int(obj))
    if isinstance(obj, (float, np.floating)):
        return repr(float(obj))
    step = {"indent2": 2, "indent4": 4}.get(layout)
    if step is None:
        sep, colon = (",", ":") if layout == "compact" else (", ", ": ")
        if isinstance(obj, dict):
            return "{" + sep.join(_escape(k) + colon + _serialise(v, layout) for k, v in obj.items()) + "}"
        return "[" + sep.join(_serialise(v, layout) for v in obj) + "]"
    pad, inner = " " * (step * level), " " * (step * (level + 1))
    if isinstance(obj, dict):
        if not obj:
            return "{}"
        rows = [inner + _escape(k) + ": " + _serialise(v, layout, level + 1) for k, v in obj.items()]
        return "{\n" + ",\n".join(rows) + "\n" + pad + "}"
    if not obj:
        return "[]"
    if all(not isinstance(v, (dict, list, tuple)) for v in obj):
        # scalars: three per line, as hand-written geometry lists
        rows = [inner + ", ".join(_serialise(v, layout) for v in obj[i : i + 3]) for i in range(0, len(obj), 3)]
        return "[\n" + ",\n".join(rows) + "\n" + pad + "]"
    rows = [inner + _serialise(v, layout, level + 1) for v in obj]
    return "[\n" + ",\n".join(rows) + "\n" + pad + "]"


def _coordinate(model, x):
    style = model["geometry_style"]
    if style == "integers":
        return Raw(str(int(x)))
    if style == "exp":
        return Raw(f"{x:.{model['decimals']}e}")
    if style == "repr":
        return Raw(repr(float(x)))
    return Raw(f"{x:.{model['decimals']}f}")


def _symbol(model, z):
    sym = C.NUM2SYM[int(z)]
    return {"upper": sym.upper(), "lower": sym.lower()}.get(model["symbol_case"], sym)


def _version(model):
    return Raw(model["version"])


def _ordered(model, doc, salt):
    """Drop / null the absent keys and optionally shuffle the key order."""
    items = []
    for key, value in doc.items():
        if value is ABSENT:
            if model["absent_style"] == "null":
                items.append((key, None))
            continue
        items.append((key, value))
    if model["key_order"] == "shuffled":
        rng = np.random.Generator(np.random.PCG64([model["order_seed"], salt]))
        items = [items[i] for i in rng.permutation(len(items))]
    return dict(items)


ABSENT = object()


def molecule_document(model):
    opt = model["optional"]

    def when(flag, value):
        return value if flag else ABSENT

    doc = {
        "schema_name": "qcschema_molecule",
        "schema_version": _version(model),
        "validated": when(opt["validated"], model["validated"]),
        "symbols": [_symbol(model, z) for z in model["atnums"]],
        "geometry": [_coordinate(model, x) for x in model["coords"].ravel()],
        "name": when(opt["name"], model["name"]),
        "identifiers": when(opt["identifiers"], model["identifiers"]),
        "comment": when(opt["comment"], model["comment"]),
        "molecular_charge": when(model["charge_present"], Raw(model["charge_text"])),
        "molecular_multiplicity": when(model["mult_present"], model["mult"]),
        "masses": when(opt["masses"], [Raw(f"{m:.8f}") for m in model["masses"]]),
        "real": when(model["real"] is not None, model["real"]),
        "atom_labels": when(opt["atom_labels"], model["atom_labels"]),
        "atomic_numbers": when(opt["atomic_numbers"], [int(z) for z in model["atnums"]]),
        "mass_numbers": when(opt["mass_numbers"], model["mass_numbers"]),
        "connectivity": when(
            opt["connectivity"],
            [[int(i), int(j), o] for (i, j, _t), o in zip(model["bonds"], model["orders"])] if opt["connectivity"] else None,
        ),
        "fragments": when(opt["fragments"], model["fragments"]),
        "fragment_charges": when(opt["fragments"], model["fragment_charges"]),
        "fragment_multiplicities": when(opt["fragments"], model["fragment_multiplicities"]),
        "fix_com": when(opt["fix_com"], model["fix_com"]),
        "fix_orientation": when(opt["fix_orientation"], model["fix_orientation"]),
        "fix_symmetry": when(opt["fix_symmetry"], model["fix_symmetry"]),
        "provenance": when(model["mol_provenance"] is not None, model["mol_provenance"]),
        "id": when(opt["id"], model["mol_id"]),
        "extras": when(opt["extras"], model["mol_extras"]),
    }
    return _ordered(model, doc, 1)


def input_fields(model):
    def when(flag, value):
        return value if flag else ABSENT

    mdl = {"method": model["method"]}
    if model["basis_cls"] == "name":
        mdl["basis"] = model["basis"]
    elif model["basis_cls"] == "empty":
        mdl["basis"] = ""
    keywords = _keywords(model)
    return {
        "molecule": molecule_document(model),
        "driver": model["driver"],
        "model": mdl,
        "keywords": when(keywords is not None, keywords),
        "protocols": when(model["protocols"], {"wavefunction": model["keep_wavefunction"], "stdout": model["keep_stdout"]}),
        "extras": when(model["in_extras"] is not None, model["in_extras"]),
        "id": when(model["in_id"] is not None, model["in_id"]),
        "provenance": when(model["in_provenance"] is not None, model["in_provenance"]),
    }


def document(model):
    if model["schema"] == "molecule":
        return molecule_document(model)
    doc = {"schema_name": "qcschema_" + model["schema"], "schema_version": _version(model)}
    doc.update(input_fields(model))
    if model["schema"] == "output":
        doc["properties"] = _properties(model)
        doc["return_result"] = _return_result(model)
        doc["success"] = model["success"]
        doc["stdout"] = model["stdout"] if model["stdout"] is not None else ABSENT
        doc["stderr"] = model["stderr"] if model["stderr"] is not None else ABSENT
        doc["error"] = (
            {"error_type": "convergence_error", "error_message": "SCF did not converge"} if not model["success"] else ABSENT
        )
    return _ordered(model, doc, 2)


def write(model):
    return _serialise(document(model), model["layout"]) + "\n"


# ---------------------------------------------------------------------------------------------
# truth
# ---------------------------------------------------------------------------------------------


def expected(model):
    opt = model["optional"]
    natom = model["natom"]
    real = np.array(model["real"] if model["real"] is not None else [True] * natom, dtype=bool)
    atcorenums = np.where(real, model["atnums"], 0).astype(float)
    ctol = 0.5 * 10.0 ** (-model["decimals"]) if model["geometry_style"] != "exp" else 0.5e-8 * np.maximum(np.abs(model["coords"]), 1e-300)
    exp = {
        ("atnums",): (np.asarray(model["atnums"], dtype=int), "exact", 0),
        ("atcoords",): (model["coords"], "abs", ctol),
        ("atcorenums",): (atcorenums, "abs", 1e-12),
        ("extra", "schema_name"): ("qcschema_" + model["schema"], "exact", 0),
    }
    if model["charge_present"]:
        exp[("charge",)] = (model["charge"], "abs", 1e-12)
        exp[("nelec",)] = (float(atcorenums.sum()) - model["charge"], "abs", 1e-9)
    if model["mult_present"]:
        exp[("spinpol",)] = (model["mult"] - 1, "exact", 0)
    if opt["masses"]:
        exp[("atmasses",)] = (model["masses"] * U.amu, "abs", 0.5e-8 * U.amu)
    elif opt["mass_numbers"]:
        # a mass number names an isotope; its mass is the mass number in u within 0.1 u
        exp[("atmasses",)] = (np.array(model["mass_numbers"], dtype=float) * U.amu, "abs", 0.15 * U.amu)
    else:
        exp[("atmasses",)] = (None, "absent", 0)
    if opt["connectivity"]:
        if all(float(o) == int(o) for o in model["orders"]):
            rows = np.array([[int(i), int(j), int(o)] for (i, j, _t), o in zip(model["bonds"], model["orders"])])
            exp[("bonds",)] = (rows, "exact", 0)
    else:
        exp[("bonds",)] = (None, "absent", 0)
    if opt["name"]:
        exp[("title",)] = (model["name"], "exact", 0)
    else:
        exp[("title",)] = (None, "absent", 0)
    # fields without an IOData attribute: extra[<subschema>][<key>]
    for key, flag, value in [
        ("comment", opt["comment"], model["comment"]),
        ("fix_com", opt["fix_com"], model["fix_com"]),
        ("fix_orientation", opt["fix_orientation"], model["fix_orientation"]),
        ("identifiers", opt["identifiers"], model["identifiers"]),
        ("atom_labels", opt["atom_labels"], model["atom_labels"]),
        ("atomic_numbers", opt["atomic_numbers"], [int(z) for z in model["atnums"]]),
        ("id", opt["id"], model["mol_id"]),
        ("extras", opt["extras"], model["mol_extras"]),
        ("provenance", model["mol_provenance"] is not None, model["mol_provenance"]),
    ]:
        if flag:
            exp[("extra", "molecule", key)] = (value, "exact", 0)
    if model["schema"] == "molecule":
        return exp
    exp[("lot",)] = (model["method"], "exact", 0)
    if model["basis_cls"] == "name":
        exp[("obasis_name",)] = (model["basis"], "exact", 0)
    else:
        exp[("obasis_name",)] = (None, "absent", 0)
    exp[("extra", "input", "driver")] = (model["driver"], "exact", 0)
    keywords = _keywords(model)
    if keywords:
        exp[("extra", "input", "keywords")] = (keywords, "exact", 0)
    if keywords and "run_type" in keywords and model["run_type"].lower() in ("energy", "energy_force", "opt", "scan", "freq"):
        exp[("run_type",)] = (model["run_type"], "exact", 0)
    else:
        exp[("run_type",)] = (None, "absent", 0)
    if model["in_extras"] is not None:
        exp[("extra", "input", "extras")] = (model["in_extras"], "exact", 0)
    if model["in_id"] is not None:
        exp[("extra", "input", "id")] = (model["in_id"], "exact", 0)
    if model["schema"] == "input":
        return exp
    props = _properties(model)
    if "return_energy" in props:
        exp[("energy",)] = (model["energy"], "abs", 0.5e-9)
    else:
        exp[("energy",)] = (None, "absent", 0)
    if props:
        exp[("extra", "output", "properties")] = (props, "exact", 0)
    result = _return_result(model)
    if isinstance(result, float):
        exp[("extra", "output", "return_result")] = (result, "abs", 0.5e-9)
    else:
        exp[("extra", "output", "return_result")] = (result, "exact", 0)
    exp[("extra", "output", "success")] = (model["success"], "exact", 0)
    if model["stdout"] is not None:
        exp[("extra", "output", "stdout")] = (model["stdout"], "exact", 0)
    if model["stderr"] is not None:
        exp[("extra", "output", "stderr")] = (model["stderr"], "exact", 0)
    if not model["success"]:
        exp[("extra", "output", "error")] = (
            {"error_type": "convergence_error", "error_message": "SCF did not converge"}, "exact", 0,
        )
    return exp


def labels(spec, model):
    opt = model["optional"]
    out = [f"schema:{model['schema']}", f"geometry:{model['geometry_style']}", f"layout:{model['layout']}", f"real:{spec['real']}"]
    out += [f"with:{key}" for key in MOL_OPTIONAL if opt[key]]
    if not any(opt.values()):
        out.append("no_optional_molecule_keys")
    if opt["masses"] and opt["mass_numbers"]:
        out.append("masses_and_mass_numbers")
    if opt["mass_numbers"] and not opt["masses"]:
        out.append("mass_numbers_only")
    if model["charge"] != int(model["charge"]):
        out.append("fractional_charge")
    elif model["charge"] != 0:
        out.append("charged")
    if "." in model["charge_text"] or "e" in model["charge_text"]:
        out.append("charge_as_float")
    if not model["charge_present"]:
        out.append("no_molecular_charge")
    if not model["mult_present"]:
        out.append("no_molecular_multiplicity")
    if model["mult"] > 1:
        out.append("multiplicity>1")
    if model["symbol_case"] != "title":
        out.append(f"symbols:{model['symbol_case']}")
    if opt["connectivity"]:
        out.append(f"bond_orders:{spec['bond_orders']}")
    out.append(f"molecule_provenance:{spec['mol_provenance']}")
    if model["absent_style"] == "null":
        out.append("null_for_absent")
    if model["key_order"] == "shuffled":
        out.append("shuffled_keys")
    if spec["text_cls"] == "escapes":
        out.append("json_escapes")
    if model["version"] != "2":
        out.append(f"version:{model['version']}")
    if model["natom"] >= 100:
        out.append("natom>=100")
    if model["schema"] != "molecule":
        out += [f"driver:{model['driver']}", f"basis:{model['basis_cls']}", f"keywords:{model['keywords_cls']}", f"provenance:{spec['in_provenance']}"]
        if model["keywords_cls"] == "run_type":
            out.append(f"run_type:{model['run_type']}")
        if model["protocols"]:
            out.append("protocols")
        if model["in_extras"] is not None:
            out.append("input_extras")
        if model["in_id"] is not None:
            out.append("input_id")
    if model["schema"] == "output":
        out.append(f"properties:{model['properties_cls']}")
        if not model["success"]:
            out.append("failed_run_with_error")
        if model["stdout"] is not None:
            out.append("stdout")
        if model["stderr"] is not None:
            out.append("stderr")
    return out


def core(spec, model):
    # The docstring tables and its three minimal examples (output: "properties": {} and no top-level
    # provenance) are the promise.  Not promised: symbols in another case, a molecule without its
    # required provenance / charge / multiplicity, non-integral bond orders (IOData bonds are
    # integers), hessian/properties drivers with structured return values.
    return (
        model["symbol_case"] == "title"
        and model["mol_provenance"] is not None
        and model["charge_present"]
        and model["mult_present"]
        and not (model["optional"]["connectivity"] and spec["bond_orders"] == "fractional")
        and model["basis_cls"] != "absent"
        # the MolSSI schema requires a top-level provenance in qcschema_output
        and not (model.get("schema") == "output" and model.get("in_provenance") is None)
    )


# ---------------------------------------------------------------------------------------------
# independent re-parser: the standard library's JSON decoder
# ---------------------------------------------------------------------------------------------


def selfparse(text):
    return json.loads(text)


def _plain(obj):
    """The document with the pre-formatted tokens turned into numbers."""
    if isinstance(obj, Raw):
        return json.loads(obj)
    if isinstance(obj, dict):
        return {k: _plain(v) for k, v in obj.items()}
    if isinstance(obj, (list, tuple)):
        return [_plain(v) for v in obj]
    if isinstance(obj, np.integer):
        return int(obj)
    if isinstance(obj, np.floating):
        return float(obj)
    return obj


def selfcheck(model, parsed):
    out = []
    mol = parsed if model["schema"] == "molecule" else parsed["molecule"]
    if [C.SYM2NUM[s.title()] for s in mol["symbols"]] != [int(z) for z in model["atnums"]]:
        out.append("symbols")
    geometry = np.array(mol["geometry"], dtype=float).reshape(-1, 3)
    if geometry.shape != model["coords"].shape or not np.array_equal(geometry, model["coords"]):
        out.append("geometry")
    if model["charge_present"] and float(mol["molecular_charge"]) != model["charge"]:
        out.append("charge")
    if model["mult_present"] and mol["molecular_multiplicity"] != model["mult"]:
        out.append("multiplicity")
    if model["optional"]["masses"] and not np.array_equal(np.array(mol["masses"]), model["masses"]):
        out.append("masses")
    if (model["real"] is not None) and mol["real"] != model["real"]:
        out.append("real")
    if model["optional"]["connectivity"]:
        if [[int(i), int(j)] for i, j, _o in mol["connectivity"]] != [[int(i), int(j)] for i, j, _t in model["bonds"]]:
            out.append("connectivity")
        if [float(o) for _i, _j, o in mol["connectivity"]] != [float(o) for o in model["orders"]]:
            out.append("bond orders")
    for key in MOL_OPTIONAL:
        if (mol.get(key) is not None) != bool(model["optional"][key]):
            out.append(f"presence of {key}")
    if model["optional"]["name"] and mol["name"] != model["name"]:
        out.append("name")
    if model["optional"]["comment"] and mol["comment"] != model["comment"]:
        out.append("comment")
    if parsed.get("schema_name") != "qcschema_" + model["schema"]:
        out.append("schema_name")
    if model["schema"] != "molecule":
        if parsed["driver"] != model["driver"] or parsed["model"]["method"] != model["method"]:
            out.append("driver/model")
        if parsed["model"].get("basis") != {"name": model["basis"], "empty": "", "absent": None}[model["basis_cls"]]:
            out.append("basis")
        if (parsed.get("keywords") or None) != (_keywords(model) or None):
            out.append("keywords")
    if model["schema"] == "output":
        if parsed["properties"] != _properties(model) or parsed["success"] != model["success"]:
            out.append("properties")
        if parsed["return_result"] != _return_result(model):
            out.append("return_result")
        if parsed.get("stdout") != model["stdout"] or parsed.get("stderr") != model["stderr"]:
            out.append("stdout/stderr")
    if parsed != _plain(document(model)):
        out.append("document")
    return out


def numeric_fields(model):
    """Coordinates only: (line, start, end) of every geometry number in the indented layouts."""
    if model["layout"] not in ("indent2", "indent4"):
        return []
    lines = write(model).split("\n")
    out = []
    inside = False
    for iline, line in enumerate(lines):
        if '"geometry"' in line:
            inside = True
            continue
        if inside:
            if "]" in line:
                break
            pos = 0
            for word in line.replace(",", " ").split():
                begin = line.index(word, pos)
                pos = begin + len(word)
                out.append((iline, begin, pos, "coordinate"))
    return out
