"""Spec writer for AIMAll extended wavefunction files (WFX).

Layout (AIMAll "Format Specification for AIM Extended Wavefunction Files"): the file is a
sequence of tagged sections

    <Tag>
     data, free format, any number of lines
    </Tag>

Sections (R = required): <Title> R, <Keywords> R (GTO: 0 perturbations), <Number of Nuclei> R,
<Number of Primitives> R, <Number of Occupied Molecular Orbitals> R, <Number of Perturbations> R,
<Nuclear Names> R, <Atomic Numbers>, <Nuclear Charges> R (effective charges when core electrons
are modelled by an ECP), <Nuclear Cartesian Coordinates> R (bohr), <Net Charge> R, <Number of
Electrons> R, <Number of Alpha Electrons> R, <Number of Beta Electrons> R, <Electronic Spin
Multiplicity>, <Number of Core Electrons>, <Model>, <Primitive Centers> R, <Primitive Types> R
(numbering of the WFN format, see wfn.py), <Primitive Exponents> R, <Additional Electron Density
Function (EDF)> with its sub-sections (core density of ECP atoms), <Molecular Orbital Occupation
Numbers> R, <Molecular Orbital Energies> R, <Molecular Orbital Spin Types> R ("Alpha and Beta",
"Alpha", "Beta", one per line), <Molecular Orbital Primitive Coefficients> R with a <MO Number>
sub-section in front of the coefficients of every orbital, <Energy = T + Vne + Vee + Vnn> R,
<Virial Ratio (-V/T)> R, <Nuclear Cartesian Energy Gradients> (name gx gy gz per line),
<Nuclear Virial of Energy-Gradient-Based Forces on Nuclei, W>, <Full Virial Ratio, -(V - W)/T>.

As in WFN files the coefficients refer to un-normalised Cartesian primitives.
Number styles follow the fixtures: Gaussian (%20.12e, integers right-justified), AIMAll (E21.14
with three-digit exponents, left-justified) and AIMAll/GAMESS (E21.14, two-digit exponents).
"""

from __future__ import annotations

import numpy as np
from hypothesis import strategies as st

from . import common as C
from . import fchk as WF
from . import wfn as P

FORMAT = "wfx"
FILENAME = "model.wfx"
LOAD_MANY = False

NSIG = {"gaussian": 13, "aimall": 15, "aimall2": 15}
METHODS = ["HF", "B3LYP", "CI", "MP2", "CCSD"]
OPTIONAL = ["multiplicity", "ncore", "model", "gradient", "virial_w", "full_virial"]


def st_model(big):
    return st.fixed_dictionaries(
        {
            "seed": st.integers(0, 2**32 - 1),
            "wf": WF.st_wf(cart_lmax=5, pure_lmax=0, sp=True, ecp=True),
            "title": C.st_title(1, 70),
            "style": st.sampled_from(["gaussian", "aimall", "aimall2"]),
            "order": st.sampled_from(["gaussian", "aimall", "aimall", "shuffled"]),
            "prim_order": st.sampled_from(["function_major", "function_major", "primitive_major"]),
            "type_order": st.sampled_from(["aimpac", "gaussian", "gaussian", "lexical"]),
            "occupations": st.sampled_from(["scf", "scf", "natural"]),
            "optional": st.fixed_dictionaries(
                {name: (st.sampled_from([True, True, False]) if name == "gradient" else st.booleans()) for name in OPTIONAL}
            ),
            "partial_gradient": st.sampled_from([False] * 7 + [True]),
            "gradient_shuffled": st.sampled_from([True, False]),
            "rohf_virtuals": st.sampled_from([False] * 4 + [True]),
            "method": st.sampled_from(METHODS),
            "edf": st.sampled_from([False, False, False, True]),
            "closing_tag_spaces": st.sampled_from([False, False, True]),
            "blank_lines": st.sampled_from([False] * 7 + [True]),
            "chain": st.sampled_from([0] * 14 + [99]),
            "max_nbasis": st.sampled_from([45, 60] if big else [30, 40]),
        }
    )




def build(spec):
    nsig = NSIG[spec["style"]]
    rnd = lambda v: P.sig(v, nsig)  # noqa: E731
    wf = WF.build_wf(spec["wf"], spec["seed"], P.CONV, rnd, rnd, float, spec["max_nbasis"], chain=spec["chain"])
    rng = wf["rng"]
    kind = wf["kind"]
    na, nb = wf["na"], wf["nb"]
    norba, norbb = wf["norba"], wf["norbb"]
    opts = {name for name in OPTIONAL if spec["optional"][name]}
    if kind == "rohf" and not spec["rohf_virtuals"]:
        norba = norbb = na  # occupied orbitals only (the usual content of a WFX file)
    if kind == "uhf":
        if spec["wf"]["virtuals"] == "none":
            norbb = nb
        elif spec["wf"]["diff_ab"] and norbb - 1 >= max(nb, 1):
            norbb -= 1
        cmat = np.concatenate([wf["ca"][:, :norba], wf["cb"][:, :norbb]], axis=1)
        ene = np.concatenate([wf["ea"][:norba], wf["eb"][:norbb]])
        occ = np.concatenate([np.arange(norba) < na, np.arange(norbb) < nb]).astype(float)
        blocks = [(0, norba, na, 1.0), (norba, norba + norbb, nb, 1.0)]
        spins = ["Alpha"] * norba + ["Beta"] * norbb
    else:
        cmat = wf["ca"][:, :norba]
        ene = wf["ea"][:norba]
        occ = (np.arange(norba) < na).astype(float) + (np.arange(norba) < nb).astype(float)
        blocks = [(0, norba, nb, 2.0)]
        spins = ["Alpha" if v == 1.0 else "Alpha and Beta" for v in occ]
    natural = False
    if spec["occupations"] == "natural":
        # move a little occupation from occupied to virtual orbitals; the electron count stays
        for lo, hi, nocc, full in blocks:
            nvirt = hi - lo - nocc
            if kind == "rohf":
                nvirt = hi - lo - na
            for k in range(min(nocc, nvirt)):
                delta = round(float(rng.uniform(0.001, 0.2)) * full / 2, 6)
                occ[lo + k] -= delta
                occ[hi - 1 - k] += delta
                natural = True
    occ = np.array([rnd(v) for v in occ])
    ene = np.array([rnd(v) for v in ene])
    prims, printed, tbasis, tcoeffs = P.expand(wf, cmat, spec["prim_order"], spec["type_order"], nsig)
    natom = wf["natom"]
    ncore = int(round((wf["atnums"] - wf["atcore"]).sum()))
    nelec = int(round(occ.sum()))
    names = [f"{C.NUM2SYM[int(z)]}{i + 1}" for i, z in enumerate(wf["atnums"])]
    gradient = None
    if "gradient" in opts:
        gradient = np.array([[rnd(v) for v in row] for row in rng.normal(size=(natom, 3)) * 0.01])
    prefix = {"rhf": "Restricted", "rohf": "Restricted-Open", "uhf": "Unrestricted"}[kind]
    return {
        "wf": wf, "title": spec["title"], "style": spec["style"], "order": spec["order"], "opts": opts,
        "prim_order": spec["prim_order"], "type_order": spec["type_order"], "natural": natural,
        "kind": kind, "norba": norba, "norbb": norbb if kind == "uhf" else norba, "spins": spins,
        "occ": occ, "ene": ene, "prims": prims, "printed": printed, "tbasis": tbasis, "tcoeffs": tcoeffs,
        "names": names, "ncore": ncore, "nelec": nelec, "na": na, "nb": nb,
        "net_charge": int(round(wf["atcore"].sum())) - nelec,
        "model": f"{prefix} {spec['method']}", "gradient": gradient,
        "partial_gradient": bool(spec["partial_gradient"] and gradient is not None and natom >= 2),
        "energy": rnd(-abs(rng.normal()) * 120 - 0.4), "virial": rnd(2 + rng.normal() * 0.01),
        "virial_w": rnd(rng.normal() * 1e-3), "full_virial": rnd(2 + rng.normal() * 0.01),
        "edf": bool(spec["edf"] and ncore > 0), "closing_tag_spaces": spec["closing_tag_spaces"],
        "blank_lines": spec["blank_lines"], "seed": spec["seed"],
        "rohf_virtuals": kind == "rohf" and norba > na,
        "gradient_shuffled": bool(spec["gradient_shuffled"] and gradient is not None and natom >= 2),
    }


# ----------------------------------------------------------------------------------------------
# writing
# ----------------------------------------------------------------------------------------------


def _real(style, value):
    if style == "gaussian":
        return f"{value: .12e}"
    text = f"{value:.14E}"
    if style == "aimall":
        mant, expo = text.split("E")
        text = f"{mant}E{expo[0]}{int(expo[1:]):03d}"
    return text


def _reals(style, values, per_line):
    values = list(values)
    if style == "gaussian":
        return ["".join(" " + _real(style, v) for v in values[i : i + per_line]) for i in range(0, len(values), per_line)]
    if style == "aimall":
        return [" ".join(_real(style, v) for v in values[i : i + per_line]) for i in range(0, len(values), per_line)]
    return ["".join(f"{_real(style, v):>21s}  " for v in values[i : i + per_line])[:-1] for i in range(0, len(values), per_line)]


def _ints(style, values, per_line):
    values = [int(v) for v in values]
    if style == "gaussian":
        return ["".join(f"{v:20d}" for v in values[i : i + per_line]) for i in range(0, len(values), per_line)]
    tail = " " if style == "aimall2" else ""
    return [" ".join(str(v) for v in values[i : i + per_line]) + tail for i in range(0, len(values), per_line)]


def sections(model):
    """{tag: lines} of every section of the file."""
    wf = model["wf"]
    style = model["style"]
    opts = model["opts"]
    ind = " " if style == "gaussian" else ""
    prims = model["prims"]
    nmo = model["printed"].shape[1]
    sec = {}
    sec["Title"] = [ind + model["title"]]
    sec["Keywords"] = [ind + "GTO"]
    sec["Number of Nuclei"] = [f"{ind}{wf['natom']}"]
    sec["Number of Primitives"] = [f"{ind}{len(prims)}"]
    sec["Number of Occupied Molecular Orbitals"] = [f"{ind}{nmo}"]
    sec["Number of Perturbations"] = [f"{ind}0"]
    sec["Nuclear Names"] = [ind + (name.ljust(8) if style == "aimall2" else name) for name in model["names"]]
    sec["Atomic Numbers"] = [f"{ind}{int(z)}" for z in wf["atnums"]]
    sec["Nuclear Charges"] = _reals(style, wf["atcore"], 1)
    sec["Nuclear Cartesian Coordinates"] = _reals(style, wf["coords"].ravel(), 3)
    sec["Net Charge"] = [f"{ind}{model['net_charge']}"] if style == "gaussian" else _reals(style, [float(model["net_charge"])], 1)
    sec["Number of Electrons"] = [f"{ind}{model['nelec']}"]
    sec["Number of Alpha Electrons"] = [f"{ind}{model['na']}"]
    sec["Number of Beta Electrons"] = [f"{ind}{model['nb']}"]
    if "multiplicity" in opts:
        sec["Electronic Spin Multiplicity"] = [f"{ind}{model['na'] - model['nb'] + 1}"]
    if "ncore" in opts or model["ncore"] > 0:
        sec["Number of Core Electrons"] = [f"{ind}{model['ncore']}"]
    if "model" in opts:
        sec["Model"] = [ind + model["model"]]
    per = 5 if style == "gaussian" else 10
    sec["Primitive Centers"] = _ints(style, [p[0] + 1 for p in prims], per)
    sec["Primitive Types"] = _ints(style, [P.CODE_OF[p[1]] for p in prims], per)
    perr = 5 if style == "gaussian" else 4
    sec["Primitive Exponents"] = _reals(style, [p[2] for p in prims], perr)
    if model["edf"]:
        nedf = 3
        inner = []
        for tag, lines in (
            ("Number of EDF Primitives", [f"{ind}{nedf}"]),
            ("EDF Primitive Centers", _ints(style, [1] * nedf, per)),
            ("EDF Primitive Types", _ints(style, [1] * nedf, per)),
            ("EDF Primitive Exponents", _reals(style, [12.5, 3.25, 0.75], perr)),
            ("EDF Primitive Coefficients", _reals(style, [1.5, 0.5, 0.125], perr)),
        ):
            inner += [f"<{tag}>"] + lines + [f"</{tag}>"]
        sec["Additional Electron Density Function (EDF)"] = inner
    sec["Molecular Orbital Occupation Numbers"] = _reals(style, model["occ"], 1)
    sec["Molecular Orbital Energies"] = _reals(style, model["ene"], 1)
    sec["Molecular Orbital Spin Types"] = [ind + s for s in model["spins"]]
    body = []
    for imo in range(nmo):
        body += ["<MO Number>", f"{ind}{imo + 1}", "</MO Number>"] + _reals(style, model["printed"][:, imo], 4 if style != "aimall" else 5)
    sec["Molecular Orbital Primitive Coefficients"] = body
    sec["Energy = T + Vne + Vee + Vnn"] = _reals(style, [model["energy"]], 1)
    sec["Virial Ratio (-V/T)"] = _reals(style, [model["virial"]], 1)
    if model["gradient"] is not None:
        rows = []
        for i, name in enumerate(model["names"]):
            if model["partial_gradient"] and i == 0:
                continue
            gx, gy, gz = (_real(style, v) for v in model["gradient"][i])
            rows.append(f"{ind}{name} {gx} {gy} {gz}")
        if model["gradient_shuffled"]:
            # every line names its nucleus, so the lines may come in any order
            rng = np.random.Generator(np.random.PCG64([int(model["seed"]), 99]))
            rows = [rows[i] for i in rng.permutation(len(rows))]
        sec["Nuclear Cartesian Energy Gradients"] = rows
    if "virial_w" in opts:
        sec["Nuclear Virial of Energy-Gradient-Based Forces on Nuclei, W"] = _reals(style, [model["virial_w"]], 1)
    if "full_virial" in opts:
        sec["Full Virial Ratio, -(V - W)/T"] = _reals(style, [model["full_virial"]], 1)
    return sec


ORDER_GAUSSIAN = [
    "Title", "Keywords", "Number of Nuclei", "Number of Occupied Molecular Orbitals", "Number of Perturbations",
    "Net Charge", "Number of Electrons", "Number of Alpha Electrons", "Number of Beta Electrons",
    "Electronic Spin Multiplicity", "Number of Core Electrons", "Model", "Nuclear Names", "Atomic Numbers", "Nuclear Charges",
    "Nuclear Cartesian Coordinates", "Nuclear Cartesian Energy Gradients",
    "Nuclear Virial of Energy-Gradient-Based Forces on Nuclei, W", "Full Virial Ratio, -(V - W)/T",
    "Number of Primitives", "Primitive Centers", "Primitive Types", "Primitive Exponents",
    "Additional Electron Density Function (EDF)", "Molecular Orbital Occupation Numbers", "Molecular Orbital Energies",
    "Molecular Orbital Spin Types", "Molecular Orbital Primitive Coefficients", "Energy = T + Vne + Vee + Vnn",
    "Virial Ratio (-V/T)",
]
ORDER_AIMALL = [
    "Title", "Keywords", "Number of Nuclei", "Number of Primitives", "Number of Occupied Molecular Orbitals",
    "Number of Perturbations", "Nuclear Names", "Atomic Numbers", "Nuclear Charges", "Nuclear Cartesian Coordinates",
    "Net Charge", "Number of Electrons", "Number of Alpha Electrons", "Number of Beta Electrons",
    "Electronic Spin Multiplicity", "Number of Core Electrons", "Model", "Primitive Centers", "Primitive Types",
    "Primitive Exponents", "Additional Electron Density Function (EDF)", "Molecular Orbital Occupation Numbers",
    "Molecular Orbital Energies", "Molecular Orbital Spin Types", "Molecular Orbital Primitive Coefficients",
    "Energy = T + Vne + Vee + Vnn", "Virial Ratio (-V/T)", "Nuclear Cartesian Energy Gradients",
    "Nuclear Virial of Energy-Gradient-Based Forces on Nuclei, W", "Full Virial Ratio, -(V - W)/T",
]
assert sorted(ORDER_GAUSSIAN) == sorted(ORDER_AIMALL)


def write(model):
    sec = sections(model)
    order = ORDER_GAUSSIAN if model["order"] == "gaussian" else ORDER_AIMALL
    tags = [t for t in order if t in sec]
    if model["order"] == "shuffled":
        rng = np.random.Generator(np.random.PCG64([int(model["seed"]), 4242]))
        tags = [tags[i] for i in rng.permutation(len(tags))]
    lines = []
    for tag in tags:
        close = tag
        if model["closing_tag_spaces"] and tag.startswith("Energy"):
            close = "Energy  = T + Vne + Vee + Vnn"
        lines += [f"<{tag}>"] + sec[tag] + [f"</{close}>"]
        if model["blank_lines"]:
            lines.append("")
    return "\n".join(lines) + "\n"


# ----------------------------------------------------------------------------------------------
# what a reader must return
# ----------------------------------------------------------------------------------------------


def expected(model):
    wf = model["wf"]
    rel = 5.1 * 10.0 ** -NSIG[model["style"]]
    digits = {
        "coord_rel": rel, "coord": 0.0, "exp_rel": rel, "coef_rel": rel, "occ": 2 * rel, "ene_rel": rel, "ene": 0.0,
        "core_rel": rel, "core": 0.0,
    }
    # a restricted-open set without any doubly occupied ("Alpha and Beta") orbital is, in the
    # file, nothing but a set of alpha orbitals
    restricted = model["kind"] != "uhf" and "Alpha and Beta" in model["spins"]
    norbb = model["norbb"] if (restricted or model["kind"] == "uhf") else 0
    mo = {
        "kind": "restricted" if restricted else "unrestricted", "norba": model["norba"], "norbb": norbb,
        "occs": model["occ"], "coeffs": model["tcoeffs"], "energies": model["ene"], "irreps": None, "occs_aminusb": None,
    }
    truth = {
        "atnums": wf["atnums"], "atcorenums": wf["atcore"], "centers": wf["coords"], "basis": model["tbasis"], "mo": mo,
        "one_rdms": {}, "ambiguous_spin": False,
    }
    opts = model["opts"]
    exp = {
        ("__wavefunction__",): (truth, "wavefunction", digits),
        ("title",): (model["title"].strip(), "exact", 0),
        ("atnums",): (wf["atnums"], "exact", 0),
        ("atcoords",): (wf["coords"], "rel", rel),
        ("atcorenums",): (wf["atcore"], "rel", rel),
        ("energy",): (model["energy"], "rel", rel),
        ("charge",): (float(model["net_charge"]), "abs", 1e-8),
        ("extra", "keywords"): ("GTO", "exact", 0),
        ("extra", "num_perturbations"): (0, "exact", 0),
        ("extra", "virial_ratio"): (model["virial"], "rel", rel),
    }
    exp[("extra", "model_name")] = (model["model"], "exact", 0) if "model" in opts else (None, "absent", 0)
    exp[("extra", "spin_multi")] = (model["na"] - model["nb"] + 1, "exact", 0) if "multiplicity" in opts else (None, "absent", 0)
    if "ncore" in opts or model["ncore"] > 0:
        exp[("extra", "num_core_electrons")] = (model["ncore"], "exact", 0)
    else:
        exp[("extra", "num_core_electrons")] = (None, "absent", 0)
    exp[("extra", "nuc_viral")] = (model["virial_w"], "rel", rel) if "virial_w" in opts else (None, "absent", 0)
    exp[("extra", "full_virial_ratio")] = (model["full_virial"], "rel", rel) if "full_virial" in opts else (None, "absent", 0)
    if model["gradient"] is None:
        exp[("atgradient",)] = (None, "absent", 0)
    elif not model["partial_gradient"]:
        exp[("atgradient",)] = (model["gradient"], "rel", rel)
    return exp


def labels(spec, model):
    out = WF.wf_labels(spec["wf"], model["wf"])
    nprim = len(model["prims"])
    out += [f"numbers:{model['style']}", f"sections:{model['order']}", f"prims:{model['prim_order']}", f"types:{model['type_order']}"]
    if nprim > 20:
        out.append("nprim>20")
    if nprim > 99:
        out.append("nprim>99")
    if nprim % 5 or nprim % 4:
        out.append("ragged_last_line")
    if model["style"] == "aimall":
        out.append("three_digit_exponents")
    if model["natural"]:
        out.append("natural_occupations")
    if model["kind"] == "uhf" and model["norba"] != model["norbb"]:
        out.append("norba!=norbb")
    if model["wf"]["norba"] == model["wf"]["na"]:
        out.append("no_virtuals")
    for name in ("model", "multiplicity", "virial_w", "full_virial"):
        out.append(("with:" if name in model["opts"] else "without:") + name)
    if model["gradient"] is not None:
        out.append("gradients" if not model["partial_gradient"] else "gradients_for_some_nuclei")
    if model["gradient_shuffled"]:
        out.append("gradient_lines_in_other_order")
    if model["edf"]:
        out.append("edf_section")
    if model["closing_tag_spaces"]:
        out.append("closing_tag_spacing")
    if model["blank_lines"]:
        out.append("blank_lines_between_sections")
    if model["rohf_virtuals"]:
        out.append("rohf_with_virtuals")
    if model["wf"]["natom"] >= 100:
        out.append("natom>=100")
    return out


def core(spec, model):
    if model["type_order"] == "lexical" or model["edf"] or model["blank_lines"] or model["rohf_virtuals"]:
        return False
    if model["partial_gradient"]:
        return False
    return True


# ----------------------------------------------------------------------------------------------
# independent re-parser
# ----------------------------------------------------------------------------------------------


def selfparse(text):
    out = {}
    stack = []
    for raw in text.split("\n"):
        line = raw.strip()
        if not line:
            continue
        if line.startswith("</"):
            tag = stack.pop()
            assert line[2:-1].replace(" ", "") == tag.replace(" ", ""), (line, tag)
        elif line.startswith("<") and line.endswith(">"):
            stack.append(line[1:-1])
            out.setdefault("/".join(stack), [])
        else:
            out["/".join(stack)].append(line)
    assert not stack
    return out


def selfcheck(model, parsed):
    wf = model["wf"]
    out = []

    def floats(tag):
        return np.array([float(w) for row in parsed.get(tag, []) for w in row.split()])

    def ints(tag):
        return [int(w) for row in parsed.get(tag, []) for w in row.split()]

    def close(a, b):
        a, b = np.asarray(a, dtype=float).ravel(), np.asarray(b, dtype=float).ravel()
        return a.shape == b.shape and bool(np.all(np.abs(a - b) <= 1e-14 * np.abs(b)))

    prims = model["prims"]
    nmo = model["printed"].shape[1]
    if parsed["Title"] != [model["title"].strip()]:
        out.append("title")
    if ints("Number of Nuclei") != [wf["natom"]] or ints("Number of Primitives") != [len(prims)] or ints("Number of Occupied Molecular Orbitals") != [nmo]:
        out.append("counts")
    if [n.strip() for n in parsed["Nuclear Names"]] != model["names"]:
        out.append("names")
    if not close(floats("Nuclear Cartesian Coordinates"), wf["coords"]):
        out.append("coords")
    if not close(floats("Nuclear Charges"), wf["atcore"]):
        out.append("charges")
    if ints("Primitive Centers") != [p[0] + 1 for p in prims]:
        out.append("centers")
    if [P.TYPE_LABELS[t - 1] for t in ints("Primitive Types")] != [p[1] for p in prims]:
        out.append("types")
    if not close(floats("Primitive Exponents"), [p[2] for p in prims]):
        out.append("exponents")
    if not close(floats("Molecular Orbital Occupation Numbers"), model["occ"]):
        out.append("occupations")
    if parsed["Molecular Orbital Spin Types"] != model["spins"]:
        out.append("spin types")
    if not close(floats("Molecular Orbital Primitive Coefficients"), model["printed"].T):
        out.append("coefficients")
    if ints("Molecular Orbital Primitive Coefficients/MO Number") != list(range(1, nmo + 1)):
        out.append("mo numbers")
    if not close(floats("Energy = T + Vne + Vee + Vnn"), [model["energy"]]):
        out.append("energy")
    if ("Model" in parsed) != ("model" in model["opts"]):
        out.append("model presence")
    if (model["gradient"] is not None) != ("Nuclear Cartesian Energy Gradients" in parsed):
        out.append("gradient presence")
    return out
