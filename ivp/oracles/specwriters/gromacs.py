"""Spec writer for GROMACS .gro files (Gromos87 layout, GROMACS reference manual, "File formats / gro").

  line 1   title string (free format, optional time in ps after "t="); GROMACS itself writes
           "<title> t= %9.5f step= %d" for trajectory frames, older versions "<title>, t= <time>"
  line 2   number of atoms (free format integer)
  atoms    "%5d%-5s%5s%5d%8.3f%8.3f%8.3f%8.4f%8.4f%8.4f"
           residue number, residue name, atom name, atom number, position x y z in nm,
           velocity x y z in nm/ps (optional); numbers wrap at 99999 (100000 is written as 0).
           Any number of decimals n may be used, with field widths n+5: "%(n+5).(n)f" for
           positions and "%(n+5).(n+1)f" for velocities; a reader finds n from the distance
           between the decimal points.  Fields are fixed width and touch for x <= -100 nm or
           x >= 1000 nm; a field never starts before its column.
  last     box vectors (free format, nm): v1(x) v2(y) v3(z) [v1(y) v1(z) v2(x) v2(z) v3(x) v3(y)];
           GROMACS itself only supports v1(y) = v1(z) = v2(z) = 0.
"""

from __future__ import annotations

import re

import numpy as np
from hypothesis import strategies as st

from .. import units as U
from . import common as C

FORMAT = "gromacs"
FILENAME = "model.gro"
LOAD_MANY = True

F32_EPS = 2.0**-22  # two float32 ulps (parse + unit conversion are both rounded to float32)


def st_model(big):
    return st.fixed_dictionaries(
        {
            "natom": C.st_natom(100001, big),
            "seed": st.integers(0, 2**32 - 1),
            # the title is a free-format string and may be empty (also for a frame inside a trajectory)
            "title": st.one_of(C.st_title(1, 50), C.st_title(1, 50), C.st_title(1, 50), st.just("")),
            "time_style": st.sampled_from(["none", "comma", "comma", "step"]),
            "time_decimals": st.sampled_from([1, 3, 5]),
            "velocities": st.booleans(),
            "pos_cls": st.sampled_from(["small", "small", "le-10", "ge100", "le-100", "ge1000", "mixed"]),
            "vel_cls": st.sampled_from(["small", "small", "wide"]),
            "precision": st.sampled_from([3, 3, 3, 3, 4, 5]),
            "box": st.sampled_from(["3", "3", "9_gromacs", "9_general"]),
            "numbering": st.sampled_from(["one", "one", "wrap"]),
            "names": st.sampled_from(["short", "short", "full_width"]),
            "natom_style": st.sampled_from(["%5d", "%d", " %d"]),
        }
    )


def build(spec):
    rng = C.rng_of(spec)
    natom = int(spec["natom"])
    n = int(spec["precision"])
    # residues of 1..4 atoms
    resindex = np.cumsum(rng.random(natom) < 0.4)
    resindex -= resindex[0]
    nres = int(resindex[-1]) + 1
    wide = spec["names"] == "full_width"
    resname_of = [C.token(rng, 5) if not wide else (C.token(rng, 5) + "XXXX")[:5] for _ in range(nres)]
    atnames = [C.token(rng, 5) if not wide else (C.token(rng, 5) + "1234")[:5] for _ in range(natom)]
    if spec["numbering"] == "wrap":
        first_atom = 100000 - max(1, natom // 2)
        first_res = 100000 - max(1, nres // 2)
    else:
        first_atom, first_res = 1, 1
    pos = rng.uniform(0.0, 9.5, size=(natom, 3))
    cls = spec["pos_cls"]
    ranges = {"le-10": (-99.9, -10.0), "ge100": (100.0, 999.9), "le-100": (-999.9, -100.0), "ge1000": (1000.0, 9999.9)}
    for name, (lo, hi) in ranges.items():
        if cls in (name, "mixed"):
            mask = rng.random((natom, 3)) < (0.5 if natom < 20 else 0.15)
            mask[int(rng.integers(natom)), int(rng.integers(3))] = True
            pos = np.where(mask, rng.uniform(lo, hi, size=(natom, 3)), pos)
    if cls != "small":
        # the exact edges of the classes
        edge = {"le-10": -10.0, "ge100": 100.0, "le-100": -100.0, "ge1000": 1000.0, "mixed": -999.999}[cls]
        pos[int(rng.integers(natom)), int(rng.integers(3))] = edge
    vel = rng.normal(size=(natom, 3)) * 0.8
    if spec["vel_cls"] == "wide":
        mask = rng.random((natom, 3)) < 0.3
        mask[int(rng.integers(natom)), int(rng.integers(3))] = True
        vel = np.where(mask, rng.choice([-1.0, 1.0], size=(natom, 3)) * rng.uniform(10.0, 99.0, size=(natom, 3)), vel)
        vel[int(rng.integers(natom)), int(rng.integers(3))] = -99.9999
    box = np.zeros((3, 3))
    box[np.diag_indices(3)] = rng.uniform(1.0, 30.0, size=3)
    if spec["box"] == "9_gromacs":
        box[1, 0], box[2, 0], box[2, 1] = rng.uniform(-5.0, 5.0, size=3)
    elif spec["box"] == "9_general":
        off = rng.uniform(-5.0, 5.0, size=(3, 3))
        box = box + off - np.diag(np.diag(off))
    time = float(np.round(rng.choice([0.0, 1.0, rng.uniform(0, 1e4)]), int(spec["time_decimals"])))
    return {
        "natom": natom,
        "title": spec["title"],
        "time_style": spec["time_style"],
        "time": time,
        "time_decimals": int(spec["time_decimals"]),
        "step": int(rng.integers(0, 10**7)),
        "resnums": [(first_res + int(k)) % 100000 for k in resindex],
        "resnames": [resname_of[int(k)] for k in resindex],
        "atnames": atnames,
        "atomnumbers": [(first_atom + i) % 100000 for i in range(natom)],
        "pos": np.round(pos, n),
        "vel": np.round(vel, n + 1) if spec["velocities"] else None,
        "precision": n,
        "box": np.round(box, 5),  # rows are the box vectors v1, v2, v3
        "box_style": spec["box"],
        "natom_style": spec["natom_style"],
    }


def frame_lines(model):
    n = model["precision"]
    if model["time_style"] == "comma":
        first = f"{model['title']}, t= {model['time']:.{model['time_decimals']}f}"
    elif model["time_style"] == "step":
        first = f"{model['title']} t= {model['time']:9.{model['time_decimals']}f} step= {model['step']}"
    else:
        first = model["title"]
    lines = [first, model["natom_style"] % model["natom"]]
    w = n + 5
    for i in range(model["natom"]):
        line = f"{model['resnums'][i]:5d}{model['resnames'][i]:<5s}{model['atnames'][i]:>5s}{model['atomnumbers'][i]:5d}"
        line += "".join(f"{v:{w}.{n}f}" for v in model["pos"][i])
        if model["vel"] is not None:
            line += "".join(f"{v:{w}.{n + 1}f}" for v in model["vel"][i])
        assert len(line) == 20 + 3 * w * (1 if model["vel"] is None else 2), line
        lines.append(line)
    b = model["box"]
    numbers = [b[0, 0], b[1, 1], b[2, 2]]
    if model["box_style"] != "3":
        numbers += [b[0, 1], b[0, 2], b[1, 0], b[1, 2], b[2, 0], b[2, 1]]
    lines.append("".join(f"{v:10.5f}" for v in numbers))
    return lines


def write(model):
    return "\n".join(frame_lines(model)) + "\n"


def write_many(models):
    return "".join(write(m) for m in models)


def _f32_tol(values_au, half_digit_au):
    """Half a unit of the last printed digit plus one float32 ulp of the magnitude."""
    return half_digit_au + F32_EPS * np.abs(values_au)


def expected(model):
    n = model["precision"]
    pos = model["pos"] * U.nanometer
    box = model["box"] * U.nanometer
    exp = {
        ("title",): (model["title"], "exact", 0),
        ("atcoords",): (pos, "abs", _f32_tol(pos, 0.5 * 10.0**-n * U.nanometer)),
        ("atffparams", "attypes"): (np.array(model["atnames"]), "exact", 0),
        ("atffparams", "resnames"): (np.array(model["resnames"]), "exact", 0),
        ("atffparams", "resnums"): (np.array(model["resnums"]), "exact", 0),
        ("cellvecs",): (box, "abs", _f32_tol(box, 0.5e-5 * U.nanometer)),
    }
    if model["vel"] is not None:
        unit = U.nanometer / U.picosecond
        vel = model["vel"] * unit
        exp[("extra", "velocities")] = (vel, "abs", _f32_tol(vel, 0.5 * 10.0 ** -(n + 1) * unit))
    if model["time_style"] != "none":
        exp[("extra", "time")] = (model["time"] * U.picosecond, "abs", 0.5 * 10.0 ** -model["time_decimals"] * U.picosecond)
    return exp


def _touching(values, width, decimals):
    return bool(np.any([len(f"{v:.{decimals}f}") >= width for v in np.asarray(values).ravel()]))


def labels(spec, model):
    n = model["precision"]
    out = [f"pos:{spec['pos_cls']}", f"box:{model['box_style']}", f"time:{model['time_style']}", f"precision:{n}"]
    out.append("velocities" if model["vel"] is not None else "no_velocities")
    natom = model["natom"]
    for bound in (100, 1000, 10000, 100000):
        if natom >= bound:
            out.append(f"natom>={bound}")
    pos = model["pos"]
    if np.any(pos <= -10):
        out.append("pos<=-10nm")
    if np.any(pos >= 100):
        out.append("pos>=100nm")
    if np.any(pos[:, 0] <= -10) or np.any(pos[:, 0] >= 100):
        out.append("x_uses_first_columns")
    if _touching(pos[:, 1:], n + 5, n):
        out.append("pos_fields_touch")
    if _touching(pos[:, 0], n + 5, n):
        out.append("x_touches_atom_number")
    if model["vel"] is not None:
        if _touching(model["vel"], n + 5, n + 1):
            out.append("vel_fields_touch")
    if spec["numbering"] == "wrap":
        out.append("numbers_wrap_at_99999")
    if max(model["atomnumbers"]) >= 10000:
        out.append("atom_number_5_digits")
    if max(model["resnums"]) >= 10000:
        out.append("residue_number_5_digits")
    if spec["names"] == "full_width":
        out.append("names_fill_5_columns")
    if "," in model["title"]:
        out.append("comma_in_title")
    if model["title"] == "":
        out.append("empty_title")
    return out


def core(spec, model):
    # the Gromos87 layout as the GROMACS manual describes it: velocities optional, any precision,
    # both ways GROMACS writes the time; a general 9-number box is legal in the file but not
    # supported by GROMACS itself
    return model["box_style"] != "9_general"


TIME = re.compile(r"t=\s*([-+0-9.eE]+)")


def selfparse(text):
    lines = text.split("\n")
    natom = int(lines[1].strip())
    m = TIME.search(lines[0])
    atoms = []
    # find the precision from the distance between the first two decimal points
    first = lines[2]
    dots = [k for k, ch in enumerate(first) if ch == "." and k >= 20]
    w = dots[1] - dots[0]
    for line in lines[2 : 2 + natom]:
        reals = [float(line[k : k + w]) for k in range(20, len(line), w)]
        atoms.append((int(line[0:5]), line[5:10].strip(), line[10:15].strip(), int(line[15:20]), reals))
    return {
        "first": lines[0], "time": float(m.group(1)) if m else None, "natom": natom, "width": w,
        "atoms": atoms, "box": [float(v) for v in lines[2 + natom].split()],
        "nline": len([ln for ln in lines if ln]),
    }


def selfcheck(model, parsed):
    out = []
    natom = model["natom"]
    if parsed["natom"] != natom or len(parsed["atoms"]) != natom or parsed["nline"] != natom + 3:
        return ["natom"]
    if not parsed["first"].startswith(model["title"]):
        out.append("title")
    if (parsed["time"] is None) != (model["time_style"] == "none"):
        out.append("time presence")
    elif parsed["time"] is not None and abs(parsed["time"] - model["time"]) > 1e-9:
        out.append("time")
    if parsed["width"] != model["precision"] + 5:
        out.append("precision")
    for i, (resnum, resname, atname, number, reals) in enumerate(parsed["atoms"]):
        want = list(model["pos"][i]) + (list(model["vel"][i]) if model["vel"] is not None else [])
        ok = (resnum, resname, atname, number) == (model["resnums"][i], model["resnames"][i], model["atnames"][i], model["atomnumbers"][i])
        if not ok or len(reals) != len(want) or not np.allclose(reals, want, atol=1e-9, rtol=0):
            out.append(f"atom {i}")
            break
    b = model["box"]
    want = [b[0, 0], b[1, 1], b[2, 2]]
    if model["box_style"] != "3":
        want += [b[0, 1], b[0, 2], b[1, 0], b[1, 2], b[2, 0], b[2, 1]]
    if len(parsed["box"]) != len(want) or not np.allclose(parsed["box"], want, atol=1e-9, rtol=0):
        out.append("box")
    return out


def numeric_fields(model):
    n = model["precision"]
    w = n + 5
    lines = frame_lines(model)
    m = re.search(r"\d+", lines[1])
    out = [(1, m.start(), m.end(), "natom")]
    nreal = 3 if model["vel"] is None else 6
    for i in range(model["natom"]):
        out.append((2 + i, 0, 5, "resnum"))
        for k in range(nreal):
            out.append((2 + i, 20 + k * w, 20 + (k + 1) * w, "xyz"[k] if k < 3 else "v" + "xyz"[k - 3]))
    for k, m in enumerate(re.finditer(r"\S+", lines[-1])):
        out.append((len(lines) - 1, m.start(), m.end(), f"box{k}"))
    return out
