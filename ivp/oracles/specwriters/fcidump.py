"""Spec writer for Molpro FCIDUMP files (Knowles & Handy, Comput. Phys. Commun. 54 (1989) 75).

Layout:
  a Fortran namelist   &FCI NORB=n,NELEC=n,MS2=n,
                        ORBSYM=s1,s2,...,sn,
                        ISYM=1,
                       &END            (Molpro 2012 and later, and the Fortran 90 standard: "/")
  then one record per line, "value i j k l" (Molpro: format (E23.16,4I4) after one blank):
    i j k l all non-zero : two-electron integral (ij|kl) in chemists' notation, orbital indices
                           count from 1; only one of the (up to) eight equivalent index orders
                           (ij|kl)=(ji|kl)=(ij|lk)=(ji|lk)=(kl|ij)=(lk|ij)=(kl|ji)=(lk|ji) is listed
    k = l = 0            : one-electron integral h_ij (one of (i,j), (j,i))
    j = k = l = 0        : orbital energy of orbital i (written by newer programs only)
    i = j = k = l = 0    : core (nuclear repulsion + frozen core) energy
  integrals that vanish are normally left out.
"""

from __future__ import annotations

import numpy as np
from hypothesis import strategies as st

from . import common as C

FORMAT = "fcidump"
FILENAME = "model.FCIDUMP"
LOAD_MANY = False


def st_model(big):
    return st.fixed_dictionaries(
        {
            "seed": st.integers(0, 2**32 - 1),
            "norb": st.sampled_from([1, 2, 2, 3, 3, 4, 5, 6] + ([8, 10] if big else [])),
            "nelec_cls": st.sampled_from(["closed", "closed", "open", "empty", "full"]),
            "sparsity": st.sampled_from([0.0, 0.0, 0.3, 0.7, 1.0]),
            "explicit_zeros": st.sampled_from([False, False, False, True]),
            "index_order": st.sampled_from(["molpro", "molpro", "lower_swapped", "random_equivalent", "random_equivalent"]),
            "sections": st.sampled_from(["molpro", "molpro", "molpro", "one_first", "core_first", "shuffled"]),
            "end": st.sampled_from(["&END", "/"]),
            "end_indent": st.sampled_from([" ", " ", "", "  "]),
            "header": st.sampled_from(["molpro"] * 5 + ["compact"] * 2 + ["uhf_key", "one_line", "one_line", "key_per_line", "spaced", "lowercase"]),
            "value_style": st.sampled_from(["molpro", "molpro", "molpro", "1pe", "g16", "fixed", "D"]),
            "value_cls": st.sampled_from(["normal", "normal", "tiny", "huge", "negative"]),
            "core_energy": st.sampled_from(["present", "present", "present", "absent", "zero"]),
            "orbital_energies": st.sampled_from([False] * 5 + [True]),
            "index_width": st.sampled_from([4, 4, 3, 6]),
            "end_newline": st.sampled_from([True, True, False]),
        }
    )


def _values(rng, cls, n):
    base = rng.normal(size=n)
    if cls == "tiny":
        base = base * 1e-12
    elif cls == "huge":
        base = base * 1e8
    elif cls == "negative":
        base = -np.abs(base)
    # ten significant digits: every decimal text below represents these doubles exactly
    out = np.array([float(f"{v:.9E}") for v in base]) + 0.0
    out[out == 0.0] = 1.0
    return out


def build(spec):
    rng = C.rng_of(spec)
    n = spec["norb"]
    cls = spec["nelec_cls"]
    if cls == "closed":
        nelec = 2 * int(rng.integers(0, n + 1))
        ms2 = 0
    elif cls == "open":
        nelec = int(rng.integers(1, 2 * n + 1))
        nopen = min(nelec, 2 * n - nelec)
        ms2 = int(rng.choice([m for m in range(nelec % 2, nopen + 1, 2)]))
    elif cls == "empty":
        nelec, ms2 = 0, 0
    else:
        nelec, ms2 = 2 * n, 0
    # one-electron integrals: symmetric matrix
    one = np.zeros((n, n))
    pairs = [(i, j) for i in range(n) for j in range(i + 1)]
    keep = rng.random(size=len(pairs)) >= spec["sparsity"]
    for (i, j), v, k in zip(pairs, _values(rng, spec["value_cls"], len(pairs)), keep):
        if k:
            one[i, j] = one[j, i] = v
    # two-electron integrals (ij|kl), chemists' notation, eight-fold symmetry
    eri = np.zeros((n, n, n, n))
    quads = [(i, j, k, l) for (i, j) in pairs for (k, l) in pairs if (i, j) >= (k, l)]
    keep = rng.random(size=len(quads)) >= spec["sparsity"]
    for (i, j, k, l), v, kp in zip(quads, _values(rng, spec["value_cls"], len(quads)), keep):
        if kp:
            for a, b, c, d in _equivalent(i, j, k, l):
                eri[a, b, c, d] = v
    if spec["core_energy"] == "present":
        core_energy = float(_values(rng, "normal", 1)[0])
    else:
        core_energy = 0.0
    return {
        "norb": n,
        "nelec": nelec,
        "ms2": ms2,
        "orbsym": [int(s) for s in rng.integers(1, 9, size=n)],
        "one": one,
        "eri": eri,
        "core_energy": core_energy,
        "core_line": spec["core_energy"] != "absent",
        "orbital_energies": _values(rng, "normal", n) if spec["orbital_energies"] else None,
        "explicit_zeros": spec["explicit_zeros"],
        "index_order": spec["index_order"],
        "sections": spec["sections"],
        "end": spec["end"],
        "end_indent": spec["end_indent"],
        "header": spec["header"],
        "value_style": spec["value_style"],
        "index_width": spec["index_width"],
        "end_newline": spec["end_newline"],
        "order_seed": int(rng.integers(2**31)),
    }


def _equivalent(i, j, k, l):
    return [(i, j, k, l), (j, i, k, l), (i, j, l, k), (j, i, l, k), (k, l, i, j), (l, k, i, j), (k, l, j, i), (l, k, j, i)]


# ---------------------------------------------------------------------------------------------
# text
# ---------------------------------------------------------------------------------------------


def _real(model, v):
    style = model["value_style"]
    v = float(v)
    if style in ("molpro", "D"):
        # E23.16 without scale factor: 0.6527679278914691E+00, preceded by one blank
        if v == 0.0:
            text = "0.0000000000000000E+00"
        else:
            mant, exp = f"{abs(v):.15E}".split("E")
            exponent = int(exp) + 1
            text = ("-" if v < 0 else "") + "0." + mant.replace(".", "") + "E" + ("-" if exponent < 0 else "+") + f"{abs(exponent):02d}"
        if style == "D":
            text = text.replace("E", "D")
        return f" {text:>23s}"
    if style == "1pe":
        return f" {v:23.15E}"
    if style == "g16":
        return f"{v:24.16g}"
    return f" {v:.30f}"


def _record(model, v, i, j, k, l):
    w = model["index_width"]
    return _real(model, v) + "".join(f"{n:{w}d}" for n in (i, j, k, l))


def header_lines(model):
    n, ne, ms2 = model["norb"], model["nelec"], model["ms2"]
    orbsym = ",".join(str(s) for s in model["orbsym"])
    style = model["header"]
    end = model["end"]
    if style == "compact":
        return [f" &FCI NORB={n},NELEC={ne},MS2={ms2},", f"  ORBSYM={orbsym},", "  ISYM=1,", " " + end.strip()]
    if style == "uhf_key":
        return [f" &FCI NORB={n:4d},NELEC={ne:3d},MS2={ms2:2d},", "  UHF=.FALSE.,", f"  ORBSYM={orbsym},", "  ISYM=1,", " " + end.strip()]
    if style == "one_line":
        return [f" &FCI NORB={n:3d},NELEC={ne:3d},MS2={ms2:2d},ORBSYM={orbsym},ISYM=1, {end.strip()}"]
    if style == "key_per_line":
        return [f" &FCI NORB={n:3d},", f"  NELEC={ne:3d},", f"  MS2={ms2:2d},", f"  ORBSYM={orbsym},", "  ISYM=1,", " " + end.strip()]
    if style == "spaced":
        return [f" &FCI  NORB = {n} , NELEC = {ne} , MS2 = {ms2} ,", f"  ORBSYM = {orbsym} ,", "  ISYM = 1 ,", " " + end.strip()]
    if style == "lowercase":
        return [f" &fci norb={n:3d},nelec={ne:3d},ms2={ms2:2d},", f"  orbsym={orbsym},", "  isym=1,", " " + end.strip().lower()]
    return [f" &FCI NORB={n:3d},NELEC={ne:3d},MS2={ms2:2d},", f"  ORBSYM={orbsym},", "  ISYM=1,", model["end_indent"] + end]


def _two_electron_records(model):
    n = model["norb"]
    eri = model["eri"]
    rng = np.random.Generator(np.random.PCG64(model["order_seed"]))
    out = []
    for i in range(n):
        for j in range(i + 1):
            for k in range(i + 1):
                for l in range(k + 1):
                    if (i, j) < (k, l):
                        continue
                    v = eri[i, j, k, l]
                    if v == 0.0 and not model["explicit_zeros"]:
                        continue
                    idx = (i, j, k, l)
                    if model["index_order"] == "lower_swapped":
                        idx = (j, i, l, k)
                    elif model["index_order"] == "random_equivalent":
                        idx = _equivalent(i, j, k, l)[int(rng.integers(8))]
                    out.append(_record(model, v, *(x + 1 for x in idx)))
    return out


def _one_electron_records(model):
    n = model["norb"]
    rng = np.random.Generator(np.random.PCG64([model["order_seed"], 1]))
    out = []
    for i in range(n):
        for j in range(i + 1):
            v = model["one"][i, j]
            if v == 0.0 and not model["explicit_zeros"]:
                continue
            a, b = i, j
            if model["index_order"] == "lower_swapped" or (model["index_order"] == "random_equivalent" and rng.random() < 0.5):
                a, b = j, i
            out.append(_record(model, v, a + 1, b + 1, 0, 0))
    return out


def record_lines(model):
    two = _two_electron_records(model)
    one = _one_electron_records(model)
    eps = []
    if model["orbital_energies"] is not None:
        eps = [_record(model, e, i + 1, 0, 0, 0) for i, e in enumerate(model["orbital_energies"])]
    core_rec = [_record(model, model["core_energy"], 0, 0, 0, 0)] if model["core_line"] else []
    order = model["sections"]
    if order == "one_first":
        return one + two + eps + core_rec
    if order == "core_first":
        return core_rec + two + one + eps
    lines = two + one + eps + core_rec
    if order == "shuffled":
        rng = np.random.Generator(np.random.PCG64([model["order_seed"], 2]))
        lines = [lines[i] for i in rng.permutation(len(lines))]
    return lines


def write(model):
    lines = header_lines(model) + record_lines(model)
    return "\n".join(lines) + ("\n" if model["end_newline"] else "")


# ---------------------------------------------------------------------------------------------
# truth
# ---------------------------------------------------------------------------------------------


def expected(model):
    # physicists' notation <pq|rs> = (pr|qs)
    phys = model["eri"].transpose(0, 2, 1, 3)
    exp = {
        ("nelec",): (model["nelec"], "exact", 0),
        ("spinpol",): (model["ms2"], "exact", 0),
        ("one_ints", "core_mo"): (model["one"], "exact", 0),
        ("two_ints", "two_mo"): (phys, "exact", 0),
    }
    if model["core_line"]:
        exp[("core_energy",)] = (model["core_energy"], "exact", 0)
    return exp


def labels(spec, model):
    out = [
        f"norb:{model['norb']}", f"nelec:{spec['nelec_cls']}", f"index_order:{spec['index_order']}",
        f"sections:{spec['sections']}", f"end:{spec['end'].strip()}", f"header:{spec['header']}",
        f"values:{spec['value_style']}/{spec['value_cls']}", f"core_energy:{spec['core_energy']}",
    ]
    if model["ms2"] > 0:
        out.append("ms2>0")
    nzero = int((model["eri"] == 0).sum())
    if nzero and not model["explicit_zeros"]:
        out.append("zero_integrals_omitted")
    if nzero and model["explicit_zeros"]:
        out.append("explicit_zeros")
    if not model["eri"].any() and not model["one"].any():
        out.append("all_integrals_zero")
    if model["orbital_energies"] is not None:
        out.append("orbital_energies")
    if model["index_width"] != 4:
        out.append(f"index_width:{model['index_width']}")
    if model["end_indent"] != " " and model["header"] == "molpro":
        out.append(f"end_indent:{len(model['end_indent'])}")
    if not model["end_newline"]:
        out.append("no_final_newline")
    return out


def core(spec, model):
    # Molpro's own layout (fixtures): the namelist on four lines closed by "&END" or "/", records
    # in the order two-electron, one-electron, core energy, E23.16 numbers
    return (
        model["header"] in ("molpro", "compact")
        and model["end"].strip() in ("&END", "/")
        and model["sections"] == "molpro"
        and model["value_style"] in ("molpro", "1pe", "g16")
        and model["orbital_energies"] is None
    )


# ---------------------------------------------------------------------------------------------
# independent re-parser
# ---------------------------------------------------------------------------------------------


def selfparse(text):
    lines = text.split("\n")
    header = []
    pos = 0
    while True:
        line = lines[pos]
        pos += 1
        header.append(line)
        tail = line.strip().upper()
        if tail.endswith("&END") or tail.endswith("/"):
            break
    # namelist: KEY = value(s), keys are case-insensitive
    body = " ".join(header).upper().replace("&FCI", " ").replace("&END", " ").replace("/", " ")
    keys = {}
    current = None
    for token in body.replace("=", " = ").replace(",", " ").split():
        if token == "=":
            continue
        if token.isalpha() or token.isalnum() and not token[0].isdigit():
            current = token
            keys[current] = []
        else:
            keys[current].append(token)
    n = int(keys["NORB"][0])
    one = np.zeros((n, n))
    eri = np.zeros((n, n, n, n))
    seen_one, seen_two = set(), set()
    out = {"norb": n, "nelec": int(keys["NELEC"][0]), "ms2": int(keys["MS2"][0]), "orbsym": [int(s) for s in keys["ORBSYM"]], "core": None, "eps": {}, "dup": False}
    for line in lines[pos:]:
        if not line.strip():
            continue
        words = line.split()
        v = float(words[0].replace("D", "E"))
        i, j, k, l = (int(w) for w in words[1:5])
        if i == j == k == l == 0:
            out["core"] = v
        elif j == k == l == 0:
            out["eps"][i - 1] = v
        elif k == l == 0:
            key = (max(i, j), min(i, j))
            out["dup"] |= key in seen_one
            seen_one.add(key)
            one[i - 1, j - 1] = one[j - 1, i - 1] = v
        else:
            p, q = (max(i, j), min(i, j)), (max(k, l), min(k, l))
            key = (max(p, q), min(p, q))
            out["dup"] |= key in seen_two
            seen_two.add(key)
            for a, b in ((i, j), (j, i)):
                for c, d in ((k, l), (l, k)):
                    eri[a - 1, b - 1, c - 1, d - 1] = v
                    eri[c - 1, d - 1, a - 1, b - 1] = v
    out["one"] = one
    out["eri"] = eri
    return out


def selfcheck(model, parsed):
    out = []
    for key in ("norb", "nelec", "ms2", "orbsym"):
        if parsed[key] != model[key]:
            out.append(key)
    if not np.array_equal(parsed["one"], model["one"]):
        out.append("one")
    if not np.array_equal(parsed["eri"], model["eri"]):
        out.append("eri")
    if parsed["dup"]:
        out.append("an integral is listed twice")
    if (parsed["core"] is not None) != model["core_line"] or (model["core_line"] and parsed["core"] != model["core_energy"]):
        out.append("core energy")
    if model["orbital_energies"] is None:
        if parsed["eps"]:
            out.append("eps")
    elif [parsed["eps"].get(i) for i in range(model["norb"])] != list(model["orbital_energies"]):
        out.append("eps")
    return out


def numeric_fields(model):
    out = []
    start = len(header_lines(model))
    for k, line in enumerate(record_lines(model)):
        pos = 0
        for iword, word in enumerate(line.split()):
            begin = line.index(word, pos)
            pos = begin + len(word)
            out.append((start + k, begin, pos, "value" if iword == 0 else "index"))
    return out
