"""Spec writer for (PC) GAMESS punch files (``*.dat``) of an RHF optimisation + Hessian run.

The skeleton is transcribed from the punch file of a ``RUNTYP=OPTIMIZE`` job followed by a
``RUNTYP=HESSIAN`` job (fixture PCGamess_PUNCH.dat).  Fortran formats read off that file:

* ``$DATA`` group: title (A80), ``C1       0``, per atom ``A10,F5.1,3F18.10`` (name, nuclear charge,
  x y z) followed by the basis-set lines of the atom (all starting with blanks) and a blank card;
  the group ends with `` $END      ``,
* per geometry-search step ``-------------------- DATA FROM NSERCH=%4d --------------------`` and the
  table `` COORDINATES OF SYMMETRY UNIQUE ATOMS (ANGS)`` (``1X,A10,F5.1,3F15.10``, **angstrom**),
  orbitals (``$VEC``: ``I2,I3,5E15.8``, orbital index modulo 100), population analysis, dipole,
* `` $GRAD``: ``E=%20.10f  GMAX=%12.7f  GRMS=%12.7f`` then per atom ``A10,F5.0,3E20.10``
  (hartree/bohr),
* `` $HESS``: ``ENERGY IS%20.10f E(NUC) IS%20.10f`` then the full 3N x 3N matrix row by row, each
  row in cards ``I2,I3,5E15.8`` (row index modulo 100, card counter within the row) - hartree/bohr^2.
  A Hessian preceded by the line ``CAUTION, APPROXIMATE HESSIAN!`` is the optimiser's guess, not a
  result,
* ``ATOMIC MASSES`` (after ``----- START OF NORMAL MODES FOR -MOLPLT- PROGRAM -----``): ``5F12.5``
  per line, in **unified atomic mass units**.

What a reader must return (atomic units): the title, the final geometry, the last energy /
gradient / exact Hessian, masses converted from amu to electron masses, and a rotational symmetry
number of 1 for point group C1.
"""

from __future__ import annotations

import re

import numpy as np
from hypothesis import strategies as st

from .. import units as U
from . import common as C

FORMAT = "gamess"
FILENAME = "model.dat"
LOAD_MANY = False


def st_model(big):
    natoms = [1, 2, 3, 5, 6, 11, 20, 30, 33, 34]
    if big:
        natoms += [40]
    return st.fixed_dictionaries(
        {
            "natom": st.one_of(st.integers(1, 12), st.integers(1, 12), st.sampled_from(natoms)),
            "seed": st.integers(0, 2**32 - 1),
            "title": C.st_title(1, 70),
            "coord_cls": st.sampled_from(["small", "small", "small", "negative", "wide", "touching"]),
            "name_style": st.sampled_from(["symbol", "symbol", "symbol", "indexed", "long", "touching"]),
            "elements": st.sampled_from(["all", "light", "two_letter"]),
            "nsearch": st.sampled_from([1, 1, 1, 2, 3]),
            "hess_cls": st.sampled_from(["mixed", "mixed", "negative", "tiny"]),
            "with_vec": st.sampled_from([True, True, True, False]),
        }
    )


def _sig(arr, ndigit):
    flat = [float(f"{float(x):.{ndigit - 1}e}") for x in np.asarray(arr, dtype=float).ravel()]
    return np.array(flat).reshape(np.shape(arr))


def build(spec):
    rng = C.rng_of(spec)
    natom = spec["natom"]
    atnums = C.atnums(rng, natom, spec["elements"])
    names = []
    for i, z in enumerate(atnums):
        sym = C.NUM2SYM[int(z)].upper()
        style = spec["name_style"]
        if style == "indexed":
            names.append(f"{sym}{i + 1}")
        elif style == "long":
            names.append((sym + C.token(rng, 6))[:8])
        elif style == "touching":
            names.append((sym + "ABCDEFGHIJ")[:10])
        else:
            names.append(sym)
    if spec["name_style"] == "touching":
        # a 10-character name followed by F5.1 of a charge >= 100 leaves no blank
        atnums = np.array(atnums)
        atnums[int(rng.integers(natom))] = int(rng.integers(100, 119))
        names = [(C.NUM2SYM[int(z)].upper() + "ABCDEFGHIJ")[:10] for z in atnums]
    geoms = []
    for _ in range(spec["nsearch"]):
        cls = spec["coord_cls"]
        if cls == "touching":
            xyz = C.coords(rng, natom, "small", -999.0, 999.0, 10)
            xyz[int(rng.integers(natom)), int(rng.integers(3))] = -np.round(rng.uniform(100, 999), 10)
        else:
            xyz = C.coords(rng, natom, cls, -99.0, 999.0, 10)
        geoms.append(xyz)
    nc = 3 * natom
    def hessian():
        a = rng.normal(size=(nc, nc))
        if spec["hess_cls"] == "negative":
            a = -np.abs(a)
        elif spec["hess_cls"] == "tiny":
            a = a * 10.0 ** rng.integers(-12, -3, size=(nc, nc))
        a = np.tril(a) + np.tril(a, -1).T
        return _sig(a, 9)
    energies = np.round(-rng.uniform(1, 2000, size=spec["nsearch"] + 2), 10)
    grads = [_sig(rng.normal(size=(natom, 3)) * 10.0 ** rng.integers(-6, -1), 11) for _ in range(spec["nsearch"] + 2)]
    return {
        "natom": natom,
        "title": spec["title"],
        "atnums": np.asarray(atnums),
        "names": names,
        "geoms": geoms,
        "energies": energies,           # one per search step, then results block, then Hessian run
        "grads": grads,
        "enuc": float(np.round(rng.uniform(0, 900), 10)),
        "approx_hess": hessian(),
        "hess": hessian(),
        "masses": np.round(rng.uniform(1.0, 294.0, size=natom), 5),
        "with_vec": spec["with_vec"],
        "vec": _sig(rng.normal(size=(2, 7)), 9),
        "pop": np.round(rng.normal(size=(natom, 4)), 5),
        "dipole": np.round(rng.normal(size=3), 6),
        "dipder": _sig(rng.normal(size=(nc, 3)), 9),
        "modes": _sig(rng.normal(size=(nc, natom, 3)) * 0.1, 10),
        "freqs": np.round(np.sort(rng.uniform(0, 4000, size=nc)), 5),
    }


# ---------------------------------------------------------------------------------------------
# writer


def _e(value, width, digits):
    return f"{float(value):{width}.{digits}E}"


def data_group(model):
    out = ["$DATA", f"{model['title']:<80s}", "C1       0"]
    for name, z, (x, y, zc) in zip(model["names"], model["atnums"], model["geoms"][0]):
        out.append(f"{name:<10s}{float(z):5.1f}{x:18.10f}{y:18.10f}{zc:18.10f}")
        out += [
            "   N311       6",
            "   P          1",
            "     1         1.5000000000  1.00000000",
            "   P          1",
            "     1         0.3750000000  1.00000000",
            "           ",
        ]
    out.append(" $END      ")
    return out


def coord_table(model, xyz):
    out = [
        " COORDINATES OF SYMMETRY UNIQUE ATOMS (ANGS)",
        "   ATOM   CHARGE       X              Y              Z",
        " ------------------------------------------------------------",
    ]
    for name, z, (x, y, zc) in zip(model["names"], model["atnums"], xyz):
        out.append(f" {name:<10s}{float(z):5.1f}{x:15.10f}{y:15.10f}{zc:15.10f}")
    return out


def grad_group(model, energy, grad):
    gmax = float(np.abs(grad).max())
    grms = float(np.sqrt((grad**2).mean()))
    out = [" $GRAD", f"E={energy:20.10f}  GMAX={gmax:12.7f}  GRMS={grms:12.7f}"]
    for name, z, g in zip(model["names"], model["atnums"], grad):
        charge = f"{int(z)}."  # Fortran F5.0 keeps the decimal point
        out.append(f"{name:<10s}{charge:>5s}" + "".join(_e(v, 20, 10) for v in g))
    out.append(" $END")
    return out


def indexed_cards(matrix):
    """Rows of a matrix as cards I2,I3,5E15.8 (row index modulo 100, card index within the row)."""
    out = []
    for irow, row in enumerate(matrix):
        for icard, start in enumerate(range(0, len(row), 5)):
            out.append(
                f"{(irow + 1) % 100:2d}{(icard + 1) % 1000:3d}" + "".join(_e(v, 15, 8) for v in row[start : start + 5])
            )
    return out


def hess_group(model, energy, hess):
    out = [" $HESS", f"ENERGY IS{energy:20.10f} E(NUC) IS{model['enuc']:20.10f}"]
    out += indexed_cards(hess)
    out.append(" $END")
    return out


def orbitals(model, energy):
    out = [
        "--- RHF ORBITALS --- GENERATED AT 13:38:08 LT   3-AUG-2010",
        f"{model['title']:<80s}",
        f"E(RHF)={energy:20.10f}, E(NUC)={model['enuc']:16.10f},{10:5d} ITERS",
        " $VEC",
    ]
    out += indexed_cards(model["vec"])
    out.append(" $END")
    return out


def write(model):
    natom = model["natom"]
    nsearch = len(model["geoms"])
    out = data_group(model)
    for istep in range(nsearch):
        out.append(f"-------------------- DATA FROM NSERCH={istep:4d} --------------------")
        out += coord_table(model, model["geoms"][istep])
        if model["with_vec"]:
            out += orbitals(model, model["energies"][istep])
        out.append(" POPULATION ANALYSIS")
        for name, row in zip(model["names"], model["pop"]):
            out.append(f"{name:<10s}" + "".join(f"{v:10.5f}" for v in row))
        out.append(" MOMENTS AT POINT    1 X,Y,Z=  0.000000  0.000000  0.000000")
        out.append(" DIPOLE      " + "".join(f"{v:10.6f}" for v in model["dipole"]))
        out += grad_group(model, model["energies"][istep], model["grads"][istep])
    out += [
        "----- RESULTS FROM SUCCESSFUL RHF      GEOMETRY SEARCH -----",
        "----- COORDS, ORBS, GRADIENT, AND APPROX. HESSIAN -----",
    ]
    out += coord_table(model, model["geoms"][-1])
    out += grad_group(model, model["energies"][nsearch], model["grads"][nsearch])
    out.append("CAUTION, APPROXIMATE HESSIAN!")
    out += hess_group(model, model["energies"][nsearch], model["approx_hess"])
    # the Hessian run
    efinal = model["energies"][nsearch + 1]
    gfinal = model["grads"][nsearch + 1]
    out.append(" $VIB   ")
    out.append(f"         IVIB=   0 IATOM=   0 ICOORD=   0 E={efinal:20.10f}")
    out += C.wrap(gfinal.ravel(), 5, lambda v: _e(v, 16, 9))
    out += C.wrap(model["dipole"], 5, lambda v: _e(v, 16, 9))
    out.append(" $END")
    out += grad_group(model, efinal, gfinal)
    out += hess_group(model, efinal, model["hess"])
    out.append(" $DIPDR")
    for row in model["dipder"]:
        out.append(" " + "".join(_e(v, 15, 8) for v in row))
    out.append(" $END")
    out.append("----- START OF NORMAL MODES FOR -MOLPLT- PROGRAM -----")
    out.append("ATOMIC MASSES")
    out += C.wrap(model["masses"], 5, lambda v: f"{v:12.5f}")
    for imode in range(3 * natom):
        out.append(f"MODE{imode + 1:5d}   FREQUENCY={model['freqs'][imode]:10.5f} (CM**-1)")
        for vec in model["modes"][imode]:
            out.append("".join(_e(v, 17, 9) for v in vec))
    out.append("----- END OF NORMAL MODES FOR -MOLPLT- PROGRAM -----")
    return "\n".join(out) + "\n"


# ---------------------------------------------------------------------------------------------
# expectation


def expected(model):
    nsearch = len(model["geoms"])
    return {
        ("title",): (model["title"].strip(), "exact", 0),
        ("g_rot",): (1, "exact", 0),
        ("atnums",): (np.asarray(model["atnums"]), "exact", 0),
        ("atcoords",): (model["geoms"][-1] * U.angstrom, "abs", 0.5e-10 * U.angstrom),
        ("energy",): (float(model["energies"][nsearch + 1]), "abs", 0.5e-10),
        ("atgradient",): (model["grads"][nsearch + 1], "rel", 1e-12),
        ("athessian",): (model["hess"], "rel", 1e-12),
        ("atmasses",): (model["masses"] * U.amu, "abs", 0.5e-5 * U.amu),
    }


def labels(spec, model):
    natom = model["natom"]
    out = [f"coords:{spec['coord_cls']}", f"names:{spec['name_style']}", f"hessian:{spec['hess_cls']}"]
    out.append(f"hess_last_card_width:{(3 * natom - 1) % 5 + 1}")
    out.append(f"mass_last_line_width:{(natom - 1) % 5 + 1}")
    if 3 * natom >= 100:
        out.append("hess_row_index_wraps_at_100")
    if natom >= 10:
        out.append("natom>=10")
    if spec["nsearch"] > 1:
        out.append(f"nsearch:{spec['nsearch']}")
    if not model["with_vec"]:
        out.append("no_vec_group")
    if (model["hess"] < 0).any():
        out.append("hess_negative_touches_neighbour")
    return out


def core(spec, model):
    # the fixture: one search step, element symbols as atom names, coordinate fields separated by
    # blanks (the $VEC group is skipped by any reader of the documented attributes)
    return spec["nsearch"] == 1 and spec["name_style"] == "symbol" and spec["coord_cls"] != "touching"


# ---------------------------------------------------------------------------------------------
# independent re-parser (column slices of the Fortran records)

_FLOAT = r"[-+]?\d+\.\d*(?:[ED][-+]\d+)?"


def _cards(lines, start):
    """Concatenate 15-character fields of cards following ``lines[start]`` until `` $END``."""
    rows = {}
    order = []
    i = start
    prev_card = None
    nrow = 0
    while lines[i] != " $END":
        line = lines[i]
        card = int(line[2:5])
        if card == 1:
            nrow += 1
            order.append(nrow)
            rows[nrow] = []
            assert int(line[0:2]) == nrow % 100, line
        else:
            assert card == prev_card + 1
        prev_card = card
        body = line[5:]
        assert len(body) % 15 == 0
        rows[nrow] += [float(body[k : k + 15]) for k in range(0, len(body), 15)]
        i += 1
    return [rows[r] for r in order], i


def selfparse(text):
    lines = text.split("\n")
    res = {"grads": [], "hess": [], "coords": []}
    i = 0
    while i < len(lines):
        line = lines[i]
        if line == "$DATA":
            res["title"] = lines[i + 1]
            res["symmetry"] = lines[i + 2][:8].strip()
            atoms = []
            i += 3
            while lines[i] != " $END      ":
                if lines[i][:1] != " ":
                    card = lines[i]
                    atoms.append((card[0:10].strip(), float(card[10:15]), [float(card[15 + 18 * k : 33 + 18 * k]) for k in range(3)]))
                i += 1
            res["data_atoms"] = atoms
        elif line == " COORDINATES OF SYMMETRY UNIQUE ATOMS (ANGS)":
            rows = []
            i += 3
            while re.match(r"^ \S.{9}[ \d]{3}\.\d", lines[i]):
                card = lines[i]
                rows.append((card[1:11].strip(), float(card[11:16]), [float(card[16 + 15 * k : 31 + 15 * k]) for k in range(3)]))
                i += 1
            res["coords"].append(rows)
            continue
        elif line == " $GRAD":
            energy = float(re.match(r"^E=\s*(" + _FLOAT + r")\s+GMAX=", lines[i + 1]).group(1))
            rows = []
            i += 2
            while lines[i] != " $END":
                card = lines[i]
                rows.append((card[0:10].strip(), float(card[10:15]), [float(card[15 + 20 * k : 35 + 20 * k]) for k in range(3)]))
                i += 1
            res["grads"].append((energy, rows))
        elif line == " $HESS":
            approx = lines[i - 1] == "CAUTION, APPROXIMATE HESSIAN!"
            m = re.match(r"^ENERGY IS\s*(" + _FLOAT + r") E\(NUC\) IS\s*(" + _FLOAT + ")$", lines[i + 1])
            rows, i = _cards(lines, i + 2)
            res["hess"].append((approx, float(m.group(1)), float(m.group(2)), rows))
        elif line == "ATOMIC MASSES":
            masses = []
            i += 1
            while not lines[i].startswith("MODE"):
                card = lines[i]
                assert len(card) % 12 == 0
                masses += [float(card[k : k + 12]) for k in range(0, len(card), 12)]
                i += 1
            res["masses"] = masses
            continue
        i += 1
    return res


def selfcheck(model, parsed):
    out = []
    natom = model["natom"]
    nsearch = len(model["geoms"])
    if parsed.get("title", "").rstrip() != model["title"] or len(parsed.get("title", "")) != 80:
        out.append("title")
    if parsed.get("symmetry") != "C1":
        out.append("symmetry")
    atoms = parsed.get("data_atoms", [])
    if [a[0] for a in atoms] != model["names"] or [int(a[1]) for a in atoms] != [int(z) for z in model["atnums"]]:
        out.append("data atoms")
    elif not np.allclose([a[2] for a in atoms], model["geoms"][0], atol=1e-11, rtol=0):
        out.append("data coords")
    if len(parsed["coords"]) != nsearch + 1:
        out.append("number of coordinate tables")
    else:
        for table, xyz in zip(parsed["coords"], model["geoms"] + [model["geoms"][-1]]):
            if (
                [r[0] for r in table] != model["names"]
                or [int(r[1]) for r in table] != [int(z) for z in model["atnums"]]
                or not np.allclose([r[2] for r in table], xyz, atol=1e-11, rtol=0)
            ):
                out.append("coordinate table")
                break
    if len(parsed["grads"]) != nsearch + 2:
        out.append("number of $GRAD groups")
    else:
        for (energy, rows), e0, g0 in zip(parsed["grads"], model["energies"], model["grads"]):
            if abs(energy - e0) > 1e-10 or len(rows) != natom or not np.allclose([r[2] for r in rows], g0, rtol=1e-12, atol=0):
                out.append("$GRAD")
                break
            if [r[0] for r in rows] != model["names"] or [int(r[1]) for r in rows] != [int(z) for z in model["atnums"]]:
                out.append("$GRAD names")
                break
    if [h[0] for h in parsed["hess"]] != [True, False]:
        out.append("$HESS groups")
    else:
        for (approx, energy, enuc, rows), h0, e0 in zip(
            parsed["hess"], [model["approx_hess"], model["hess"]], model["energies"][nsearch:]
        ):
            if abs(energy - e0) > 1e-10 or abs(enuc - model["enuc"]) > 1e-10:
                out.append("$HESS energy")
            if len(rows) != 3 * natom or any(len(r) != 3 * natom for r in rows) or not np.allclose(rows, h0, rtol=1e-12, atol=0):
                out.append("$HESS values")
    if not np.allclose(parsed.get("masses", []), model["masses"], atol=1e-9, rtol=0) or len(parsed.get("masses", [])) != natom:
        out.append("masses")
    return out
