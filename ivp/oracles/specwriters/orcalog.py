"""Spec writer for ORCA (4.x) output files: a template of a single-point / optimisation log.

Sections and printf layouts transcribed from an ORCA 4 output (fixture water_orca.out):

* ``CARTESIAN COORDINATES (ANGSTROEM)``: ``"  %-2s %12.6f%12.6f%12.6f"`` per atom, blank line,
* ``CARTESIAN COORDINATES (A.U.)``: header ``  NO LB      ZA    FRAG     MASS         X           Y
  Z`` and per atom ``"%4d %-2s %9.4f %4d %9.3f %11.6f %11.6f %11.6f"`` (zero-based number, label,
  nuclear charge, fragment, mass in amu, x y z in **bohr**),
* ``SCF ITERATIONS``: one line per cycle starting with the cycle number, then the energy in hartree
  (SOSCF lines ``"%3d %15.8f %14.10f %9.6f %9.6f %9.6f %9.6f"`` as in the fixture; DIIS lines
  ``"%3d %16.10f %16.12f %10.8f %11.8f %10.7f %6.4f"``), interleaved with ``***`` comment lines,
  closed by an empty line,
* ``TOTAL SCF ENERGY`` block, ``FINAL SINGLE POINT ENERGY%23.12f`` (hartree),
* ``DIPOLE MOMENT``: ``Total Dipole Moment    :%13.5f %13.5f %13.5f`` in **atomic units** (the
  magnitude is repeated in Debye on a later line).

For a geometry optimisation the coordinate tables, the SCF block and the final energy are repeated
per cycle; the last occurrence describes the final structure.
"""

from __future__ import annotations

import re

import numpy as np
from hypothesis import strategies as st

from .. import units as U
from . import common as C

FORMAT = "orcalog"
FILENAME = "model.out"
LOAD_MANY = False


def st_model(big):
    return st.fixed_dictionaries(
        {
            "natom": C.st_natom(9999 if big else 1000, big, extra=(20, 30)),
            "seed": st.integers(0, 2**32 - 1),
            "coord_cls": st.sampled_from(C.COORD_CLASSES),
            "elements": st.sampled_from(["all", "light", "two_letter"]),
            "nstep": st.sampled_from([1, 1, 1, 2, 3]),
            "scf": st.sampled_from(["soscf", "soscf", "diis", "diis+soscf"]),
            "niter": st.sampled_from([1, 2, 4, 7, 12, 25]),
            "energy_cls": st.sampled_from(["normal", "normal", "small", "large", "positive"]),
            "dipole_cls": st.sampled_from(["normal", "negative", "zero", "large"]),
            "unrestricted": st.sampled_from([False, False, True]),
        }
    )


def build(spec):
    rng = C.rng_of(spec)
    natom = spec["natom"]
    atnums = C.atnums(rng, natom, spec["elements"])
    scale = {"normal": 100.0, "small": 1.0, "large": 30000.0, "positive": -0.5}[spec["energy_cls"]]
    steps = []
    for _ in range(spec["nstep"]):
        xyz = C.coords(rng, natom, spec["coord_cls"], -999.0, 9999.0, 6)
        base = -scale * rng.uniform(0.5, 1.0)
        niter = spec["niter"]
        conv = base + np.sort(rng.uniform(0, 0.1, size=niter))[::-1] * (1 if niter > 1 else 0)
        ndiis = {"soscf": 0, "diis": niter, "diis+soscf": max(1, niter // 2)}[spec["scf"]]
        energies = [round(float(e), 10 if k < ndiis else 8) for k, e in enumerate(conv)]
        steps.append({"coords": xyz, "scf": energies, "ndiis": ndiis, "final": round(float(conv[-1] - 1e-4 * rng.random()), 12)})
    dip = rng.normal(size=3)
    if spec["dipole_cls"] == "negative":
        dip = -np.abs(dip)
    elif spec["dipole_cls"] == "zero":
        dip = np.zeros(3)
    elif spec["dipole_cls"] == "large":
        dip = dip * 1000
    return {
        "natom": natom,
        "atnums": np.asarray(atnums),
        "masses": np.round(rng.uniform(1.0, 294.0, size=natom), 3),
        "steps": steps,
        "dipole": np.round(dip, 5),
        "el_dipole": np.round(rng.normal(size=3), 5),
        "unrestricted": spec["unrestricted"],
        "orb_energies": np.round(np.sort(rng.normal(size=6) * 3), 6),
    }


# ---------------------------------------------------------------------------------------------
# writer

HEADER = """
                                 *****************
                                 * O   R   C   A *
                                 *****************

           --- An Ab Initio, DFT and Semiempirical electronic structure package ---

                         Program Version 4.2.1 -  RELEASE  -


================================================================================
                                       INPUT FILE
================================================================================
NAME = model.inp
|  1> ! B3LYP 6-31G Tightscf
|  2>
|  3>                          ****END OF INPUT****
================================================================================
""".split("\n")


def coordinate_blocks(model, xyz):
    out = ["---------------------------------", "CARTESIAN COORDINATES (ANGSTROEM)", "---------------------------------"]
    for z, pos in zip(model["atnums"], xyz / U.angstrom):
        out.append(f"  {C.NUM2SYM[int(z)]:<2s} " + "".join(f"{v:12.6f}" for v in pos))
    out.append("")
    out += ["----------------------------", "CARTESIAN COORDINATES (A.U.)", "----------------------------"]
    out.append("  NO LB      ZA    FRAG     MASS         X           Y           Z")
    for i, (z, mass, (x, y, zc)) in enumerate(zip(model["atnums"], model["masses"], xyz)):
        out.append(f"{i:4d} {C.NUM2SYM[int(z)]:<2s} {float(z):9.4f} {0:4d} {mass:9.3f} {x:11.6f} {y:11.6f} {zc:11.6f}")
    out.append("")
    out += ["--------------------------------", "INTERNAL COORDINATES (ANGSTROEM)", "--------------------------------"]
    for i, z in enumerate(model["atnums"][:3]):
        out.append(f" {C.NUM2SYM[int(z)]:<2s}{min(i, 1):6d}{(2 if i == 2 else 0):4d}{0:4d}{0.95 * min(i, 1):19.12f}{(109.47 if i == 2 else 0.0):15.8f}{0.0:15.8f}")
    out.append("")
    return out


def scf_block(step):
    out = ["--------------", "SCF ITERATIONS", "--------------"]
    energies = step["scf"]
    ndiis = step["ndiis"]
    prev = 0.0
    out.append("ITER       Energy         Delta-E        Max-DP      RMS-DP      [F,P]     Damp")
    out.append("               ***  Starting incremental Fock matrix formation  ***")
    for k in range(ndiis):
        e = energies[k]
        delta = e - prev if k else 0.0
        out.append(f"{k:3d} {e:16.10f} {delta:16.12f} {0.04334118:10.8f} {0.00349839:11.8f} {0.089399:10.7f} {0.7 if k < 2 else 0.0:6.4f}")
        if k == 1:
            out.append("                               ***Turning on DIIS***")
        prev = e
    if ndiis < len(energies):
        if ndiis == 0:
            out.append("                      *** Initiating the SOSCF procedure ***")
            out.append("                      *** Re-Reading the Fockian *** ")
            out.append("                      *** Removing any level shift *** ")
        else:
            out.append("                      *** Initiating the SOSCF procedure ***")
            out.append("                           *** Shutting down DIIS ***")
            out.append("                      *** Re-Reading the Fockian *** ")
            out.append("                      *** Removing any level shift *** ")
        out.append("ITER      Energy       Delta-E        Grad      Rot      Max-DP    RMS-DP")
        for k in range(ndiis, len(energies)):
            e = energies[k]
            delta = e - prev if k else e
            out.append(f"{k:3d} {e:15.8f} {delta:14.10f} {0.000433:9.6f} {0.000433:9.6f} {0.001101:9.6f} {0.000179:9.6f}")
            if k == ndiis and k + 1 < len(energies):
                out.append("               *** Restarting incremental Fock matrix formation ***")
            prev = e
        out.append("                 **** Energy Check signals convergence ****")
        out.append("              ***Rediagonalizing the Fockian in SOSCF/NRSCF***")
    else:
        out.append("                 **** Energy Check signals convergence ****")
    out.append("")
    out += [
        "               *****************************************************",
        "               *                     SUCCESS                       *",
        f"               *           SCF CONVERGED AFTER {len(energies):3d} CYCLES          *",
        "               *****************************************************",
        "",
    ]
    return out


def energy_block(model, step):
    e = step["final"]
    out = ["----------------", "TOTAL SCF ENERGY", "----------------", ""]
    out.append(f"Total Energy       :{e:22.8f} Eh{e / U.electronvolt:22.5f} eV")
    out += ["", "Components:"]
    out.append(f"Nuclear Repulsion  :{9.25356719:22.8f} Eh{251.80236:22.5f} eV")
    out.append(f"Electronic Energy  :{e - 9.25356719:22.8f} Eh{(e - 9.25356719) / U.electronvolt:22.5f} eV")
    out += ["", "---------------", "SCF CONVERGENCE", "---------------", ""]
    out.append("  Last Energy change         ...   -9.8430e-10  Tolerance :   1.0000e-08")
    out.append("")
    if model["unrestricted"]:
        out += ["----------------------", "UHF SPIN CONTAMINATION", "----------------------", ""]
        out.append("Expectation value of <S**2>     :     0.753211")
        out.append("Ideal value S*(S+1) for S=0.5   :     0.750000")
        out.append("Deviation                       :     0.003211")
        out.append("")
    out += ["----------------", "ORBITAL ENERGIES", "----------------"]
    spins = ["                 SPIN UP ORBITALS", "                 SPIN DOWN ORBITALS"] if model["unrestricted"] else [None]
    for spin in spins:
        if spin:
            out.append(spin)
        else:
            out.append("")
        out.append("  NO   OCC          E(Eh)            E(eV) ")
        for i, eo in enumerate(model["orb_energies"]):
            occ = (1.0 if model["unrestricted"] else 2.0) if i < 3 else 0.0
            out.append(f"{i:4d}{occ:9.4f}{eo:15.6f}{eo / U.electronvolt:15.4f} ")
        out.append("")
    out += ["-------------------------   --------------------"]
    out.append(f"FINAL SINGLE POINT ENERGY{e:23.12f}")
    out += ["-------------------------   --------------------", "", ""]
    return out


def dipole_block(model):
    tot = model["dipole"]
    nuc = tot - model["el_dipole"]
    mag = float(np.linalg.norm(tot))
    fmt3 = lambda v: f"{v[0]:13.5f} {v[1]:13.5f} {v[2]:13.5f}"  # noqa: E731
    return [
        "-------------",
        "DIPOLE MOMENT",
        "-------------",
        "                                X             Y             Z",
        "Electronic contribution:" + fmt3(model["el_dipole"]),
        "Nuclear contribution   :" + fmt3(nuc),
        "                        -----------------------------------------",
        "Total Dipole Moment    :" + fmt3(tot),
        "                        -----------------------------------------",
        f"Magnitude (a.u.)       :{mag:13.5f}",
        f"Magnitude (Debye)      :{mag / U.debye:13.5f}",
        "",
        "",
    ]


def write(model):
    out = list(HEADER)
    nstep = len(model["steps"])
    if nstep == 1:
        out += [
            "                       ****************************",
            "                       * Single Point Calculation *",
            "                       ****************************",
            "",
        ]
    else:
        out += [
            "                       *****************************",
            "                       * Geometry Optimization Run *",
            "                       *****************************",
            "",
        ]
    for istep, step in enumerate(model["steps"]):
        if nstep > 1:
            out += [
                "         *************************************************************",
                f"         *                GEOMETRY OPTIMIZATION CYCLE {istep + 1:3d}            *",
                "         *************************************************************",
            ]
        out += coordinate_blocks(model, step["coords"])
        out += ["---------------------", "BASIS SET INFORMATION", "---------------------", "There are 2 groups of distinct atoms", ""]
        out += scf_block(step)
        out += energy_block(model, step)
    out += [
        "                            ***************************************",
        "                            *     ORCA property calculations      *",
        "                            ***************************************",
        "",
        "------------------------------------------------------------------------------",
        "                       ORCA ELECTRIC PROPERTIES CALCULATION",
        "------------------------------------------------------------------------------",
        "",
        "Dipole Moment Calculation                       ... on",
        "The origin for moment calculation is the CENTER OF MASS  = ( 0.094705,  0.000000  0.066967)",
        "",
    ]
    out += dipole_block(model)
    out += [
        "Timings for individual modules:",
        "",
        "Sum of individual times         ...        1.439 sec (=   0.024 min)",
        "                             ****ORCA TERMINATED NORMALLY****",
        "TOTAL RUN TIME: 0 days 0 hours 0 minutes 1 seconds 644 msec",
    ]
    return "\n".join(out) + "\n"


# ---------------------------------------------------------------------------------------------


def expected(model):
    last = model["steps"][-1]
    tol_scf = 0.5e-8 if last["ndiis"] < len(last["scf"]) else 0.5e-10
    return {
        ("atnums",): (np.asarray(model["atnums"]), "exact", 0),
        ("atcoords",): (last["coords"], "abs", 0.5e-6),
        ("energy",): (last["final"], "abs", 0.5e-12),
        ("moments", (1, "c")): (model["dipole"], "abs", 0.5e-5),
        ("extra", "scf_energies"): (np.array(last["scf"]), "abs", tol_scf),
    }


def labels(spec, model):
    out = [f"coords:{spec['coord_cls']}", f"scf:{spec['scf']}", f"niter:{spec['niter']}", f"energy:{spec['energy_cls']}", f"dipole:{spec['dipole_cls']}"]
    n = model["natom"]
    for bound in (10, 100, 1000):
        if n >= bound:
            out.append(f"natom>={bound}")
    if spec["nstep"] > 1:
        out.append(f"optimization_steps:{spec['nstep']}")
    if spec["elements"] == "two_letter":
        out.append("two_letter_labels")
    if model["unrestricted"]:
        out.append("unrestricted")
    if int(np.max(model["atnums"])) >= 100:
        out.append("Z>=100")
    return out


def core(spec, model):
    # the fixture: single point, SOSCF-only iteration table, restricted
    return spec["nstep"] == 1 and spec["scf"] == "soscf" and not model["unrestricted"]


# ---------------------------------------------------------------------------------------------
# independent re-parser


def selfparse(text):
    lines = text.split("\n")
    res = {"tables_au": [], "tables_ang": [], "scf": [], "final": [], "dipole": None}
    i = 0
    while i < len(lines):
        line = lines[i]
        if line == "CARTESIAN COORDINATES (A.U.)":
            rows = []
            i += 3
            while lines[i].strip():
                s = lines[i]
                rows.append((int(s[0:4]), s[5:7].strip(), float(s[8:17]), int(s[18:22]), float(s[23:32]), [float(s[33:44]), float(s[45:56]), float(s[57:68])]))
                i += 1
            res["tables_au"].append(rows)
        elif line == "CARTESIAN COORDINATES (ANGSTROEM)":
            rows = []
            i += 2
            while lines[i].strip():
                s = lines[i]
                rows.append((s[2:4].strip(), [float(s[5:17]), float(s[17:29]), float(s[29:41])]))
                i += 1
            res["tables_ang"].append(rows)
        elif line == "SCF ITERATIONS":
            energies = []
            i += 2
            while lines[i].strip():
                m = re.match(r"^ {0,2}(\d{1,3}) +(-?\d+\.\d+) +(-?\d+\.\d+) ", lines[i])
                if m:
                    assert int(m.group(1)) == len(energies)
                    energies.append(float(m.group(2)))
                i += 1
            res["scf"].append(energies)
        elif line.startswith("FINAL SINGLE POINT ENERGY"):
            res["final"].append(float(line[25:48]))
        elif line.startswith("Total Dipole Moment    :"):
            res["dipole"] = [float(line[24:37]), float(line[38:51]), float(line[52:65])]
        i += 1
    return res


def selfcheck(model, parsed):
    out = []
    steps = model["steps"]
    if len(parsed["tables_au"]) != len(steps) or len(parsed["tables_ang"]) != len(steps):
        return ["number of coordinate tables"]
    for rows, ang, step in zip(parsed["tables_au"], parsed["tables_ang"], steps):
        if len(rows) != model["natom"] or len(ang) != model["natom"]:
            out.append("natom")
            break
        if [r[0] for r in rows] != list(range(model["natom"])):
            out.append("numbering")
        if [C.SYM2NUM[r[1]] for r in rows] != [int(z) for z in model["atnums"]] or [int(r[2]) for r in rows] != [int(z) for z in model["atnums"]]:
            out.append("elements")
        if [C.SYM2NUM[r[0]] for r in ang] != [int(z) for z in model["atnums"]]:
            out.append("elements (angstrom table)")
        if not np.allclose([r[5] for r in rows], step["coords"], atol=1e-9, rtol=0):
            out.append("coords")
        if not np.allclose(np.array([r[1] for r in ang]) * U.angstrom, step["coords"], atol=1e-6 * max(1.0, np.abs(step["coords"]).max()) * 2, rtol=0):
            out.append("angstrom coords")
        if not np.allclose([r[4] for r in rows], model["masses"], atol=1e-9, rtol=0):
            out.append("masses")
    if [len(s) for s in parsed["scf"]] != [len(s["scf"]) for s in steps]:
        out.append("scf iteration count")
    else:
        for got, step in zip(parsed["scf"], steps):
            if not np.allclose(got, step["scf"], atol=1e-11, rtol=0):
                out.append("scf energies")
    if not np.allclose(parsed["final"], [s["final"] for s in steps], atol=1e-12, rtol=1e-15) or len(parsed["final"]) != len(steps):
        out.append("final energy")
    if parsed["dipole"] is None or not np.allclose(parsed["dipole"], model["dipole"], atol=1e-9, rtol=0):
        out.append("dipole")
    return out
