"""Spec writer for Gaussian cube files.

Layout (Gaussian "cubegen" documentation, formatted cube file; all lengths in bohr):
  line 1, 2   title, description of the contents
  line 3      NAtoms, X0, Y0, Z0 [, NVal]             format (I5,3F12.6[,I5])
  line 4-6    N1, X1, Y1, Z1 (and N2.., N3..)         format (I5,3F12.6): number of points along
              an axis and the step vector of that axis
  NAtoms x    IA, Chg, X, Y, Z                        format (I5,4F12.6): atomic number, charge
  if NAtoms<0 one more record: NMO, (MO indices)      format (10I5); |NAtoms| atoms, NMO values
              per grid point
  data        written as  do ix; do iy; write (6E13.5) (v(ix,iy,iz), iz=1,N3): z is the fastest
              index, at most six numbers per line, and each z-row starts on a new line
A negative N1 in the original description announces lengths in angstrom.
"""

from __future__ import annotations

import numpy as np
from hypothesis import strategies as st

from .. import units as U
from . import common as C

FORMAT = "cube"
FILENAME = "model.cube"
LOAD_MANY = False

DIMS = [1, 1, 2, 3, 5, 6, 7, 11, 12, 13]


def st_model(big):
    dims = st.sampled_from(DIMS + ([30, 40] if big else []))
    return st.fixed_dictionaries(
        {
            "seed": st.integers(0, 2**32 - 1),
            "natom": C.st_natom(1000, big, extra=(0,)),
            "title": st.one_of(C.st_title(), C.st_title(), st.just("")),
            "title_lead": st.booleans(),
            "second_line": st.sampled_from(["OUTER LOOP: X, MIDDLE LOOP: Y, INNER LOOP: Z", "Electron density from Total SCF Density", "", "1 2 3"]),
            "n1": dims,
            "n2": dims,
            "n3": dims,
            "axes_cls": st.sampled_from(["cubic", "cubic", "ortho", "skewed", "left_handed", "negative", "triclinic", "tiny"]),
            "coord_cls": st.sampled_from(["small"] * 4 + ["negative"] * 3 + ["wide"] * 3 + ["touching"]),
            "origin_cls": st.sampled_from(["zero"] * 3 + ["negative"] * 7 + ["touching"]),
            "charge_cls": st.sampled_from(["equal", "equal", "ecp", "fraction", "zero", "mixed_zero"]),
            "data_cls": st.sampled_from(["density", "density", "signed", "tiny", "huge", "zeros", "mixed"]),
            "data_style": st.sampled_from(["gaussian"] * 6 + ["zero_lead"] * 2 + ["lower_e"] * 2 + ["wide"] * 2 + ["D"]),
            "wrap": st.sampled_from(["zrow", "zrow", "zrow", "zrow", "continuous", "one_per_line"]),
            "nval_field": st.booleans(),
            "mo_record": st.sampled_from([False] * 14 + [True]),
            "angstrom_sign": st.sampled_from([False] * 14 + [True]),
            "elements": st.sampled_from(["all", "light", "two_letter"]),
            "end_newline": st.sampled_from([True, True, False]),
        }
    )


def make_axes(rng, cls):
    for _attempt in range(200):
        a, b, c = rng.uniform(0.05, 2.5, size=3)
        if cls == "cubic":
            axes = np.eye(3) * a
        elif cls == "ortho":
            axes = np.diag([a, b, c])
        elif cls == "skewed":
            base = np.array([a, 0.4 * a, 0.2 * a])
            axes = np.array([base, base + rng.normal(size=3) * 0.05, base + rng.normal(size=3) * 0.05])
        elif cls == "left_handed":
            axes = rng.normal(size=(3, 3)) * 0.3 + np.diag([a, b, c])
            if np.linalg.det(axes) > 0:
                axes = axes[[0, 2, 1]]
        elif cls == "negative":
            axes = -np.diag([a, b, c]) - np.abs(rng.normal(size=(3, 3))) * 0.1
        elif cls == "tiny":
            axes = np.diag([2e-6, 1e-6, 3e-6]) + rng.integers(0, 2, size=(3, 3)) * 1e-6
        else:
            axes = rng.normal(size=(3, 3)) * 0.5 + np.diag([a, b, c])
        axes = np.round(axes, 6) + 0.0
        if abs(np.linalg.det(axes)) > 1e-4 * np.linalg.norm(axes, axis=1).prod() > 0:
            return axes
    raise AssertionError("no regular axes found")


def sig6(values):
    """Six significant digits, as shown by E13.5."""
    return np.array([float(f"{v:.5E}") for v in np.ravel(values)]) + 0.0


def build(spec):
    rng = C.rng_of(spec)
    natom = spec["natom"]
    atnums = C.atnums(rng, natom, spec["elements"]).astype(int) if natom else np.zeros(0, dtype=int)
    cls = spec["coord_cls"]
    if cls == "touching":
        # F12.6 fields filled completely: no blank between neighbouring columns
        coords = C.coords(rng, max(natom, 1), "small", -9999.0, 99999.0, 6)[:natom]
        if natom:
            coords[int(rng.integers(natom))] = rng.choice([-1000.0, -9999.999999, -1234.567891, 10000.5, 99999.999999], size=3)
    else:
        coords = C.coords(rng, max(natom, 1), cls, -999.0, 9999.0, 6)[:natom]
    coords = coords.reshape(natom, 3) + 0.0
    ocls = spec["origin_cls"]
    if ocls == "zero":
        origin = np.zeros(3)
    elif ocls == "negative":
        origin = np.round(-np.abs(rng.normal(size=3)) * 5, 6)
    else:
        origin = np.round(rng.choice([-1000.0, -4321.123456, -9999.999999], size=3), 6)
    ccls = spec["charge_cls"]
    if ccls == "equal":
        charges = atnums.astype(float)
    elif ccls == "ecp":
        charges = np.maximum(atnums - rng.choice([0, 2, 10, 28], size=natom), 1).astype(float)
    elif ccls == "fraction":
        charges = np.round(atnums * rng.uniform(0.05, 1.0, size=natom), 6)
        charges[charges == 0] = 0.5
    elif ccls == "zero":
        charges = np.zeros(natom)
    else:
        charges = atnums.astype(float) * rng.integers(0, 2, size=natom)
    shape = (spec["n1"], spec["n2"], spec["n3"])
    n = int(np.prod(shape))
    dcls = spec["data_cls"]
    if dcls == "density":
        vals = 10.0 ** rng.uniform(-13, 3, size=n)
    elif dcls == "signed":
        vals = rng.normal(size=n) * 10.0 ** rng.uniform(-3, 3, size=n)
    elif dcls == "tiny":
        vals = rng.normal(size=n) * 1e-80
    elif dcls == "huge":
        vals = rng.normal(size=n) * 1e80
    elif dcls == "zeros":
        vals = rng.normal(size=n) * (rng.random(size=n) < 0.5)
    else:
        vals = rng.normal(size=n) * 10.0 ** rng.integers(-90, 90, size=n)
    mo = bool(spec["mo_record"]) and natom > 0
    return {
        "title": spec["title"],
        "title_lead": spec["title_lead"],
        "second_line": spec["second_line"],
        "natom": natom,
        "atnums": atnums,
        "charges": charges,
        "coords": coords,
        "origin": origin + 0.0,
        "axes": make_axes(rng, spec["axes_cls"]),
        "shape": shape,
        "data": sig6(vals).reshape(shape),  # data[i1, i2, i3]
        "data_style": spec["data_style"],
        "wrap": spec["wrap"],
        "nval_field": spec["nval_field"],
        "mo_record": mo,
        "mo_index": int(rng.integers(1, 500)),
        "angstrom_sign": spec["angstrom_sign"],
        "end_newline": spec["end_newline"],
    }


# ---------------------------------------------------------------------------------------------
# text
# ---------------------------------------------------------------------------------------------


def _datum(model, v):
    style = model["data_style"]
    v = float(v)
    if style == "gaussian":
        return f"{v:13.5E}"
    if style == "lower_e":
        return f"{v:13.5e}"
    if style == "D":
        return f"{v:13.5E}".replace("E", "D")
    if style == "wide":
        return f"{v:18.5E}"
    # E13.5 without scale factor: 0.11190E-09 (six digits after the point to keep the precision)
    if v == 0.0:
        return f"{'0.000000E+00':>14s}"
    mant, exp = f"{abs(v):.5E}".split("E")
    exponent = int(exp) + 1
    text = ("-" if v < 0 else "") + "0." + mant.replace(".", "") + "E" + ("-" if exponent < 0 else "+") + f"{abs(exponent):02d}"
    return f"{text:>14s}"


def data_lines(model):
    data = model["data"]
    n1, n2, n3 = data.shape
    if model["wrap"] == "zrow":
        lines = []
        for i1 in range(n1):
            for i2 in range(n2):
                lines += C.wrap(data[i1, i2, :], 6, lambda v: _datum(model, v))
        return lines
    flat = [data[i1, i2, i3] for i1 in range(n1) for i2 in range(n2) for i3 in range(n3)]
    return C.wrap(flat, 6 if model["wrap"] == "continuous" else 1, lambda v: _datum(model, v))


def header_lines(model):
    natom = model["natom"]
    lines = [("  " if model["title_lead"] else "") + model["title"], model["second_line"]]
    count = -natom if model["mo_record"] else natom
    x, y, z = model["origin"]
    lines.append(f"{count:5d}{x:12.6f}{y:12.6f}{z:12.6f}" + ("    1" if model["nval_field"] else ""))
    sign = -1 if model["angstrom_sign"] else 1
    for n, (x, y, z) in zip(model["shape"], model["axes"]):
        lines.append(f"{sign * n:5d}{x:12.6f}{y:12.6f}{z:12.6f}")
    for ia, q, (x, y, z) in zip(model["atnums"], model["charges"], model["coords"]):
        lines.append(f"{int(ia):5d}{q:12.6f}{x:12.6f}{y:12.6f}{z:12.6f}")
    if model["mo_record"]:
        lines.append(f"{1:5d}{model['mo_index']:5d}")
    return lines


def write(model):
    lines = header_lines(model) + data_lines(model)
    return "\n".join(lines) + ("\n" if model["end_newline"] else "")


# ---------------------------------------------------------------------------------------------
# truth
# ---------------------------------------------------------------------------------------------


def expected(model):
    unit = U.angstrom if model["angstrom_sign"] else 1.0
    shape = np.array(model["shape"], dtype=float).reshape(3, 1)
    data = model["data"]
    mag = np.where(data == 0, 1.0, np.abs(data))
    exp = {
        ("title",): (model["title"].strip(), "exact", 0),
        ("atnums",): (np.asarray(model["atnums"], dtype=int), "exact", 0),
        ("atcoords",): (model["coords"] * unit, "abs", 0.5e-6 * unit),
        ("cube", "origin"): (model["origin"] * unit, "abs", 0.5e-6 * unit),
        ("cube", "axes"): (model["axes"] * unit, "abs", 0.5e-6 * unit),
        ("cellvecs",): (model["axes"] * shape * unit, "abs", 0.5e-6 * unit * shape),
        ("cube", "data"): (data, "abs", 0.5 * 10.0 ** (np.floor(np.log10(mag)) - 5)),
    }
    # A zero in the charge column is how several programs say "not given"; only assert the column
    # where it holds charges.
    if model["natom"] and np.all(model["charges"] != 0):
        exp[("atcorenums",)] = (model["charges"], "abs", 0.5e-6)
    return exp


def _touching(model):
    rows = [model["origin"]] + list(model["axes"]) + [np.concatenate([[q], xyz]) for q, xyz in zip(model["charges"], model["coords"])]
    return any(len(f"{v:.6f}") >= 12 for row in rows for v in row)


def labels(spec, model):
    n1, n2, n3 = model["shape"]
    out = [
        f"axes:{spec['axes_cls']}", f"coords:{spec['coord_cls']}", f"origin:{spec['origin_cls']}",
        f"charges:{spec['charge_cls']}", f"data:{spec['data_cls']}", f"data_style:{spec['data_style']}",
        f"wrap:{spec['wrap']}",
    ]
    out.append("ragged_z_rows" if n3 % 6 else "full_z_rows")
    if n1 * n2 * n3 == 1:
        out.append("grid_1x1x1")
    if len({n1, n2, n3}) == 3:
        out.append("three_different_dims")
    if _touching(model):
        out.append("touching_fields")
    if model["natom"] == 0:
        out.append("no_atoms")
    for bound in (100, 1000):
        if model["natom"] >= bound:
            out.append(f"natom>={bound}")
    if model["nval_field"]:
        out.append("nval_field")
    if model["mo_record"]:
        out.append("negative_natom_mo_record")
    if model["angstrom_sign"]:
        out.append("negative_npoints_angstrom")
    if not model["title"]:
        out.append("empty_title")
    if not model["end_newline"]:
        out.append("no_final_newline")
    if np.linalg.det(model["axes"]) < 0:
        out.append("left_handed")
    return out


def core(spec, model):
    return (
        model["wrap"] == "zrow"
        and model["data_style"] in ("gaussian", "lower_e")
        and not model["mo_record"]
        and not model["angstrom_sign"]
        and not _touching(model)
        and model["natom"] > 0
    )


# ---------------------------------------------------------------------------------------------
# independent re-parser (fixed columns)
# ---------------------------------------------------------------------------------------------


def _columns(line, nreal):
    first = int(line[0:5])
    reals = [float(line[5 + 12 * k : 17 + 12 * k]) for k in range(nreal)]
    return first, reals, line[5 + 12 * nreal :]


def selfparse(text):
    lines = text.split("\n")
    out = {"title": lines[0], "second": lines[1]}
    count, out["origin"], rest = _columns(lines[2], 3)
    out["nval"] = int(rest) if rest.strip() else None
    out["natom"] = abs(count)
    out["mo"] = count < 0
    shape, axes = [], []
    for k in (3, 4, 5):
        n, vec, _rest = _columns(lines[k], 3)
        shape.append(n)
        axes.append(vec)
    out["angstrom"] = shape[0] < 0
    out["shape"] = tuple(abs(n) for n in shape)
    out["axes"] = axes
    out["atoms"] = []
    pos = 6
    for line in lines[pos : pos + out["natom"]]:
        ia, reals, _rest = _columns(line, 4)
        out["atoms"].append((ia, reals[0], reals[1:]))
    pos += out["natom"]
    if out["mo"]:
        if int(lines[pos][0:5]) != 1:
            raise AssertionError("one orbital expected")
        pos += 1
    words = " ".join(lines[pos:]).replace("D", "E").split()
    out["data"] = np.array([float(w) for w in words]).reshape(out["shape"])  # last index fastest
    out["data_lines"] = [len(line.split()) for line in lines[pos:] if line.strip()]
    return out


def selfcheck(model, parsed):
    out = []
    if parsed["title"].strip() != model["title"].strip():
        out.append("title")
    if parsed["natom"] != model["natom"] or parsed["mo"] != model["mo_record"]:
        out.append("natom")
    if parsed["angstrom"] != model["angstrom_sign"] or parsed["shape"] != tuple(model["shape"]):
        out.append("shape")
    if not np.array_equal(np.array(parsed["origin"]), model["origin"]):
        out.append("origin")
    if not np.array_equal(np.array(parsed["axes"]), model["axes"]):
        out.append("axes")
    for (ia, q, xyz), ia0, q0, xyz0 in zip(parsed["atoms"], model["atnums"], model["charges"], model["coords"]):
        if ia != ia0 or q != q0 or not np.array_equal(np.array(xyz), xyz0):
            out.append("atom")
            break
    if not np.array_equal(parsed["data"], model["data"]):
        out.append("data")
    if model["wrap"] == "zrow":
        n3 = model["shape"][2]
        row = [6] * (n3 // 6) + ([n3 % 6] if n3 % 6 else [])
        if parsed["data_lines"] != row * (model["shape"][0] * model["shape"][1]):
            out.append("line structure")
    return out


def numeric_fields(model):
    out = []
    nhead = 6 + model["natom"]
    for iline in range(2, nhead):
        nreal = 3 if iline < 6 else 4
        out.append((iline, 0, 5, "count" if iline < 6 else "atnum"))
        for k in range(nreal):
            out.append((iline, 5 + 12 * k, 17 + 12 * k, "real"))
    start = len(header_lines(model))
    for k, line in enumerate(data_lines(model)):
        pos = 0
        for word in line.split():
            begin = line.index(word, pos)
            pos = begin + len(word)
            out.append((start + k, begin, pos, "value"))
    return out
