"""Vendor dialects of Molden / Molekel files: encoders that write a *standard* wavefunction model
the way certain programs are known to deviate from the format.

Not a format module (no FORMAT attribute, no st_model): it is imported by the checks that need
files with vendor deviations.  Nothing here imports iodata.

The deviations are documented in the comments / docstrings of /repo/iodata/formats/molden.py.
The numbers below are a pinned golden copy of that documentation (source lines cited); the code
in this module implements the INVERSE direction independently: from the true basis (contraction
coefficients for L2-normalised primitives, normalised contractions) and the true orbital
coefficients it produces what the vendor would have written, so that a reader which applies the
documented correction recovers the truth.

    reader (documented):   d_true = d_file / correction        C_true = C_file / factor
    here (inverse):        d_file = d_true * correction        C_file = C_true * factor

Interface
---------
VENDORS                               names of the dialects
applicable(vendor, model) -> bool     the dialect can be expressed for this model
encode(vendor, fmt, model) -> str     file text, fmt in {"molden", "molekel"}; ``model`` is the
                                      model of specwriters.molden / specwriters.molekel
differs(vendor, fmt, model) -> bool   the encoded numbers differ from the standard ones (a reader
                                      then has to correct something and should say so)
transform(vendor, wf) -> (wf', changed)   the re-encoded wavefunction part of a model
"""

from __future__ import annotations

import copy
import math

import numpy as np

from .. import gaussians as G
from . import molden as MD
from . import molekel as MK

VENDORS = ["standard", "orca", "psi4_1.0", "turbomole", "cfour", "unnormalized", "psi4_1.3.2"]

_MODULES = {"molden": MD, "molekel": MK}

# ----------------------------------------------------------------------------------------------
# golden copy of the documented deviations
# ----------------------------------------------------------------------------------------------

# ORCA (_fix_obasis_orca, molden.py lines 416-475): the contraction coefficients contain the
# normalisation constant N(alpha, nx, ny, nz) of docs/basis.rst of ONE Cartesian monomial per
# shell type (lines 461-472) ...
ORCA_MONOMIAL = {
    (0, "c"): (0, 0, 0),
    (1, "c"): (1, 0, 0),
    (2, "p"): (1, 1, 0),
    (3, "p"): (1, 1, 1),
    (4, "p"): (2, 1, 1),
    (5, "p"): (5, 0, 0),
}
# ... and some pure functions have the opposite sign (orca_conventions, lines 422-450)
ORCA_FLIPPED = {
    (3, "p"): {"c3", "s3"},
    (4, "p"): {"c3", "s3", "c4", "s4"},
    (5, "p"): {"c3", "s3", "c4", "s4"},
}

# PSI4 <= 1.0 (_fix_obasis_psi4, lines 478-509): N(alpha, monomial) * scale in the contraction
# coefficients (lines 494-501; g functions: "not tested", no correction)
PSI4_10_MONOMIAL = {
    (0, "c"): ((0, 0, 0), 1.0),
    (1, "c"): ((1, 0, 0), 1.0),
    (2, "p"): ((1, 1, 0), 1.0 / math.sqrt(3.0)),
    (3, "p"): ((1, 1, 1), 1.0 / math.sqrt(15.0)),
}

# Turbomole (_fix_obasis_turbomole, lines 512-539): constant factor in the contraction
# coefficients of Cartesian d, f, g shells (lines 528-533)
TURBOMOLE_FACTOR = {
    (2, "c"): 1.0 / math.sqrt(3.0),
    (3, "c"): 1.0 / math.sqrt(15.0),
    (4, "c"): 1.0 / math.sqrt(105.0),
}

# CFOUR 2.1 (_fix_mo_coeffs_cfour, lines 598-632): factor per Cartesian function (Molden order)
# in the ORBITAL coefficients (lines 612-622)
CFOUR_FACTOR = {
    (2, "c"): [1.0 / math.sqrt(3.0)] * 3 + [1.0] * 3,
    (3, "c"): [1.0 / math.sqrt(15.0)] * 3 + [1.0 / math.sqrt(3.0)] * 6 + [1.0],
    (4, "c"): [1.0 / math.sqrt(105.0)] * 3 + [1.0 / math.sqrt(15.0)] * 6 + [1.0 / 3.0] * 3
    + [1.0 / math.sqrt(3.0)] * 3,
}

# PSI4 <= 1.3.2 (_fix_mo_coeffs_psi4, lines 566-595): factor per Cartesian function (Molden
# order) in the ORBITAL coefficients (lines 580-585); the reader applies it together with the
# renormalisation of the contractions (lines 736-754)
PSI4_132_FACTOR = {
    (2, "c"): [math.sqrt(x) for x in [1] * 3 + [3] * 3],
    (3, "c"): [math.sqrt(x) for x in [1] * 3 + [5] * 6 + [15]],
    (4, "c"): [math.sqrt(x) for x in [1] * 3 + [7] * 6 + [35 / 3] * 3 + [35] * 3],
}

# un-normalised contractions (_fix_obasis_normalize_contractions, lines 542-563): any positive
# scale per shell; the reader (like Molden itself) renormalises each contraction
UNNORMALIZED_SCALES = [0.5, 1.75, 0.8, 2.5, 1.3, 0.37]


def _shell_types(wf):
    return {(ell, kind) for sh in wf["shells"] for ell, kind in zip(sh["ls"], sh["kinds"])}


def _segmented(wf):
    return all(len(sh["ls"]) == 1 for sh in wf["shells"])


def applicable(vendor, model):
    wf = model["wf"]
    if vendor not in VENDORS:
        raise ValueError(vendor)
    if vendor == "standard":
        return True
    if not _segmented(wf):
        return False  # the documented corrections are defined for segmented shells only
    types = _shell_types(wf)
    if vendor == "orca":
        return bool(types & set(ORCA_MONOMIAL))
    if vendor == "psi4_1.0":
        return bool(types & set(PSI4_10_MONOMIAL))
    if vendor == "turbomole":
        return bool(types & set(TURBOMOLE_FACTOR))
    if vendor == "cfour":
        return bool(types & set(CFOUR_FACTOR))
    if vendor == "psi4_1.3.2":
        return bool(types & set(PSI4_132_FACTOR))
    return True  # unnormalized


def _scale_rows(wf, table):
    """Multiply the orbital coefficients of the functions of the listed shell types."""
    factors = []
    for _ish, _icon, ell, kind, label in MD.shell_functions(wf):
        if (ell, kind) in table:
            factors.append(table[(ell, kind)][MD.CONVENTIONS[(ell, kind)].index(label)])
        else:
            factors.append(1.0)
    factors = np.array(factors)
    for s in wf["spins"]:
        s["coeffs"] = s["coeffs"] * factors[:, None]
    return bool(np.any(factors != 1.0))


def transform(vendor, wf):
    """Return (copy of ``wf`` with the numbers the vendor writes, anything changed?)."""
    new = copy.deepcopy(wf)
    changed = False
    if vendor == "standard":
        return new, False
    if not _segmented(wf):
        raise ValueError("vendor dialects are defined for segmented shells only")
    if vendor in ("orca", "psi4_1.0", "turbomole", "unnormalized"):
        for ish, sh in enumerate(new["shells"]):
            key = (sh["ls"][0], sh["kinds"][0])
            if vendor == "orca" and key in ORCA_MONOMIAL:
                corr = np.array([G.cart_norm(a, *ORCA_MONOMIAL[key]) for a in sh["exponents"]])
            elif vendor == "psi4_1.0" and key in PSI4_10_MONOMIAL:
                mono, scale = PSI4_10_MONOMIAL[key]
                corr = np.array([G.cart_norm(a, *mono) * scale for a in sh["exponents"]])
            elif vendor == "turbomole" and key in TURBOMOLE_FACTOR:
                corr = np.full(len(sh["exponents"]), TURBOMOLE_FACTOR[key])
            elif vendor == "unnormalized":
                corr = np.full(len(sh["exponents"]), UNNORMALIZED_SCALES[ish % len(UNNORMALIZED_SCALES)])
            else:
                continue
            sh["coeffs"] = sh["coeffs"] * corr[:, None]
            changed = True
        if vendor == "orca":
            signs = np.array(
                [
                    -1.0 if label in ORCA_FLIPPED.get((ell, kind), ()) else 1.0
                    for _i, _c, ell, kind, label in MD.shell_functions(new)
                ]
            )
            if np.any(signs < 0):
                changed = True
                for s in new["spins"]:
                    s["coeffs"] = s["coeffs"] * signs[:, None]
    elif vendor == "cfour":
        changed = _scale_rows(new, CFOUR_FACTOR)
    elif vendor == "psi4_1.3.2":
        changed = _scale_rows(new, PSI4_132_FACTOR)
    else:
        raise ValueError(vendor)
    return new, changed


def _encoded_model(vendor, model):
    new_wf, changed = transform(vendor, model["wf"])
    if not changed:
        return model, False
    out = copy.copy(model)
    out["wf"] = new_wf
    out["boost"] = True  # print the re-encoded numbers with 16 digits
    return out, True


def encode(vendor, fmt, model):
    if not applicable(vendor, model):
        raise ValueError(f"{vendor} is not applicable to this model")
    return _MODULES[fmt].write(_encoded_model(vendor, model)[0])


def differs(vendor, fmt, model):
    del fmt  # the same numbers are re-encoded in both formats
    if not applicable(vendor, model):
        return False
    return _encoded_model(vendor, model)[1]
