"""Spec writer for PDB v3.3 coordinate files (ATOM / HETATM / CONECT / TITLE / COMPND / END).

Column layout (1-based, from the wwPDB format description v3.3):
  ATOM  : 1-6 record, 7-11 serial, 13-16 name, 17 altLoc, 18-20 resName, 22 chainID, 23-26 resSeq,
          27 iCode, 31-38 x, 39-46 y, 47-54 z (8.3, angstrom), 55-60 occupancy (6.2),
          61-66 tempFactor (6.2), 77-78 element (right-justified), 79-80 charge
  CONECT: 1-6 record, 7-11 serial, 12-16 / 17-21 / 22-26 / 27-31 bonded serials
  TITLE : 1-6 record, 9-10 continuation, 11-80 text
"""

from __future__ import annotations

import numpy as np
from hypothesis import strategies as st

from .. import units as U
from . import common as C

FORMAT = "pdb"
FILENAME = "model.pdb"
LOAD_MANY = True


def st_model(big):
    return st.fixed_dictionaries(
        {
            "natom": C.st_natom(99999, big),
            "seed": st.integers(0, 2**32 - 1),
            "coord_cls": st.sampled_from(C.COORD_CLASSES),
            "title": st.sampled_from(["title", "title", "compnd_only", "both", "none"]),
            "title_text": C.st_title(1, 60),
            "element_column": st.sampled_from([True, True, True, False]),
            "hetatm": st.booleans(),
            "name_align": st.sampled_from(["left", "pdb"]),
            "chains": st.sampled_from(["blank", "letters"]),
            "nbond_frac": st.sampled_from([0.0, 0.0, 0.5, 1.0, 3.0]),
            "junk_records": st.booleans(),
            # "ENDMDL+END": a single-model file as written by OpenBabel / VMD / PyMOL (two terminator
            # records in a row); trajectories are often plain concatenations of such files
            "end_record": st.sampled_from(["END", "END", "ENDMDL+END", "ENDMDL"]),
            "elements": st.sampled_from(["all", "light", "two_letter"]),
        }
    )


def build(spec):
    rng = C.rng_of(spec)
    natom = spec["natom"]
    atnums = C.atnums(rng, natom, spec["elements"])
    names = []
    for z in atnums:
        sym = C.NUM2SYM[int(z)].upper()
        if spec["element_column"]:
            names.append(C.token(rng, 4))
        else:
            # without element column the element must be recoverable from the name: symbol + digits
            names.append((sym + "".join(str(d) for d in rng.integers(0, 10, size=int(rng.integers(0, 3)))))[:4])
    nbond = int(round(spec["nbond_frac"] * natom))
    return {
        "natom": natom,
        "atnums": atnums,
        "names": names,
        "resnames": [C.token(rng, 3) for _ in range(natom)],
        "chains": [" "] * natom if spec["chains"] == "blank" else [str(rng.choice(list("ABCDXYZ1"))) for _ in range(natom)],
        "resnums": rng.choice([1, 2, 9, 10, 99, 100, 999, 1000, 9999, -1, -99, -999], size=natom),
        "coords": C.coords(rng, natom, spec["coord_cls"], -999.999, 9999.999, 3),
        "occ": np.round(rng.uniform(0, 1, size=natom) * rng.choice([1.0, 1.0, 100.0, -9.0], size=natom), 2),
        "bfac": np.round(rng.uniform(-99.99, 999.99, size=natom), 2),
        "bonds": C.bonds(rng, natom, nbond, [8]),
        "title": spec["title"],
        "title_text": spec["title_text"],
        "compound": "COMPOUND " + C.token(rng, 10),
        "element_column": spec["element_column"],
        "hetatm": [bool(spec["hetatm"] and rng.random() < 0.5) for _ in range(natom)],
        "name_align": spec["name_align"],
        "junk": spec["junk_records"],
        "end": spec["end_record"],
    }


def atom_line(model, i):
    rec = "HETATM" if model["hetatm"][i] else "ATOM  "
    name = model["names"][i]
    if model["name_align"] == "pdb" and len(name) < 4:
        name = " " + name  # element symbols of one letter start in column 14
    line = [" "] * 80
    line[0:6] = rec
    line[6:11] = f"{i + 1:5d}"
    line[12:16] = f"{name:<4s}"
    line[17:20] = f"{model['resnames'][i]:>3s}"
    line[21] = model["chains"][i]
    line[22:26] = f"{int(model['resnums'][i]):4d}"
    x, y, z = model["coords"][i]
    line[30:38] = f"{x:8.3f}"
    line[38:46] = f"{y:8.3f}"
    line[46:54] = f"{z:8.3f}"
    line[54:60] = f"{model['occ'][i]:6.2f}"
    line[60:66] = f"{model['bfac'][i]:6.2f}"
    if model["element_column"]:
        line[76:78] = f"{C.NUM2SYM[int(model['atnums'][i])].upper():>2s}"
    text = "".join(line)
    assert len(text) == 80, len(text)
    return text.rstrip() if not model["element_column"] else text


def conect_lines(model):
    natom = model["natom"]
    partners = [[] for _ in range(natom)]
    for i, j, _t in model["bonds"]:
        partners[i].append(j)
        partners[j].append(i)
    out = []
    for i, plist in enumerate(partners):
        for k in range(0, len(plist), 4):
            out.append("CONECT" + f"{i + 1:5d}" + "".join(f"{j + 1:5d}" for j in plist[k : k + 4]))
    return out


def frame_lines(model):
    lines = []
    if model["junk"]:
        lines.append("HEADER    TEST MOLECULE                           01-JAN-00   XXXX")
    if model["title"] in ("title", "both"):
        lines.append("TITLE     " + model["title_text"])
    if model["title"] in ("compnd_only", "both"):
        lines.append("COMPND    " + model["compound"])
    if model["junk"]:
        lines.append("REMARK   1 GENERATED FOR TESTING")
        lines.append("CRYST1   50.000   50.000   50.000  90.00  90.00  90.00 P 1           1")
    for i in range(model["natom"]):
        lines.append(atom_line(model, i))
    if model["junk"]:
        lines.append("TER")
    lines += conect_lines(model)
    lines.extend(model["end"].split("+"))
    return lines


def write(model):
    return "\n".join(frame_lines(model)) + "\n"


def write_many(models):
    return "".join(write(m) for m in models)


def expected(model):
    natom = model["natom"]
    exp = {
        ("atcoords",): (model["coords"] * U.angstrom, "abs", 1e-9),
        ("atffparams", "attypes"): (np.array([n.strip() for n in model["names"]]), "exact", 0),
        ("atffparams", "restypes"): (np.array(model["resnames"]), "exact", 0),
        ("atffparams", "resnums"): (np.asarray(model["resnums"]), "exact", 0),
        ("extra", "occupancies"): (model["occ"], "abs", 1e-12),
        ("extra", "bfactors"): (model["bfac"], "abs", 1e-12),
    }
    if model["element_column"]:
        exp[("atnums",)] = (np.asarray(model["atnums"]), "exact", 0)
    if any(c != " " for c in model["chains"]):
        exp[("extra", "chainids")] = (np.array(model["chains"]), "exact", 0)
    else:
        exp[("extra", "chainids")] = (None, "absent", 0)
    if model["title"] in ("title", "both"):
        exp[("title",)] = (model["title_text"], "exact", 0)
    elif model["title"] == "compnd_only":
        exp[("title",)] = (model["compound"], "exact", 0)
    if model["title"] == "both":
        exp[("extra", "compound")] = (model["compound"], "exact", 0)
    if len(model["bonds"]):
        rows = sorted({(min(i, j), max(i, j), 8) for i, j, _t in model["bonds"]})
        exp[("bonds",)] = (np.array(rows), "set", 0)
    else:
        exp[("bonds",)] = (None, "absent", 0)
    del natom
    return exp


def labels(spec, model):
    out = [f"coords:{spec['coord_cls']}", f"title:{spec['title']}"]
    n = model["natom"]
    for bound in (100, 1000, 10000):
        if n >= bound:
            out.append(f"natom>={bound}")
    if len(model["bonds"]):
        out.append("conect")
        if n >= 10000:
            out.append("conect_serial>=10000")
        counts = np.bincount(model["bonds"][:, :2].ravel(), minlength=n)
        if counts.max() > 4:
            out.append("conect_continuation")
    if not model["element_column"]:
        out.append("no_element_column")
    if any(model["hetatm"]):
        out.append("hetatm")
    if model["junk"]:
        out.append("other_records")
    if model["end"] == "ENDMDL":
        out.append("endmdl")
    if model["end"] == "ENDMDL+END":
        out.append("endmdl_and_end")
    return out


def core(spec, model):
    return bool(model["element_column"]) and model["end"] in ("END", "ENDMDL+END")


def selfparse(text):
    atoms, bonds, title, compnd = [], set(), None, None
    for line in text.split("\n"):
        rec = line[:6]
        if rec in ("ATOM  ", "HETATM"):
            atoms.append(
                {
                    "serial": int(line[6:11]), "name": line[12:16].strip(), "res": line[17:20].strip(),
                    "chain": line[21], "resnum": int(line[22:26]),
                    "xyz": [float(line[30:38]), float(line[38:46]), float(line[46:54])],
                    "occ": float(line[54:60]), "bfac": float(line[60:66]),
                    "el": line[76:78].strip() if len(line) >= 78 else "",
                }
            )
        elif rec == "CONECT":
            i = int(line[6:11])
            for k in range(11, 31, 5):
                word = line[k : k + 5].strip()
                if word:
                    bonds.add((min(i, int(word)), max(i, int(word))))
        elif rec == "TITLE ":
            title = line[10:].strip()
        elif rec == "COMPND":
            compnd = line[10:].strip()
    return {"atoms": atoms, "bonds": bonds, "title": title, "compnd": compnd}


def selfcheck(model, parsed):
    out = []
    if len(parsed["atoms"]) != model["natom"]:
        return ["natom"]
    for i, at in enumerate(parsed["atoms"]):
        ok = (
            at["serial"] == i + 1 and at["name"] == model["names"][i].strip()
            and at["res"] == model["resnames"][i] and at["chain"] == model["chains"][i]
            and at["resnum"] == model["resnums"][i]
            and np.allclose(at["xyz"], model["coords"][i], atol=1e-9)
            and abs(at["occ"] - model["occ"][i]) < 1e-9 and abs(at["bfac"] - model["bfac"][i]) < 1e-9
        )
        if model["element_column"]:
            ok = ok and at["el"] == C.NUM2SYM[int(model["atnums"][i])].upper()
        if not ok:
            out.append(f"atom {i}")
            break
    want = {(min(i, j) + 1, max(i, j) + 1) for i, j, _ in model["bonds"]}
    if parsed["bonds"] != want:
        out.append("bonds")
    return out


def numeric_fields(model):
    out = []
    lines = frame_lines(model)
    for iline, line in enumerate(lines):
        if line[:6] in ("ATOM  ", "HETATM"):
            out += [
                (iline, 22, 26, "resnum"), (iline, 30, 38, "x"), (iline, 38, 46, "y"),
                (iline, 46, 54, "z"), (iline, 54, 60, "occ"), (iline, 60, 66, "bfac"),
            ]
        elif line[:6] == "CONECT":
            out.append((iline, 6, 11, "conect_serial"))
    return out
