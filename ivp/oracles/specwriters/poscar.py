"""Spec writer for VASP 5 POSCAR files (also hosts the header helpers of chgcar.py / locpot.py).

Layout (VASP manual, "POSCAR file"):
  line 1      comment (name of the system)
  line 2      universal scaling factor s (lattice constant); all lattice vectors and all Cartesian
              coordinates are multiplied by it
  line 3-5    the three lattice vectors a1, a2, a3 (one per line, angstrom before scaling)
  line 6      element symbols (VASP 5)
  line 7      number of atoms per species, in the order of line 6
  line 8      optional: "Selective dynamics" (only the first letter, S or s, is significant)
  next line   "Direct" or "Cartesian": only the first letter is significant, C c K k select Cartesian
              coordinates, anything else direct (fractional) ones
  then        one line per atom: three coordinates [three T/F flags with selective dynamics],
              atoms of the first species first, then the second, ...
              direct:    R = x1*a1 + x2*a2 + x3*a3   (a_i including the scaling factor)
              Cartesian: R = s * (x, y, z)
  optionally  a blank line and initial velocities / predictor-corrector data
"""

from __future__ import annotations

import math

import numpy as np
from hypothesis import strategies as st

from .. import units as U
from . import common as C

FORMAT = "poscar"
FILENAME = "POSCAR"
LOAD_MANY = False

CELL_CLASSES = ["cubic", "ortho", "fcc", "triclinic", "triclinic", "left_handed", "skewed", "negative", "huge", "tiny"]
MODE_WORDS_CART = ["Cartesian", "cartesian", "C", "c", "K", "kartesisch", "Cart"]
MODE_WORDS_DIRECT = ["Direct", "direct", "D", "Direct configuration=     1", "Fractional"]
SELECTIVE_WORDS = ["Selective dynamics", "Selective Dynamics ", "selective", "S", "Sel"]
SCALINGS = [1.0, 1.0, 1.0, 0.5291772083, 3.57, 2.0, 0.1, 10.5, 1.0000001]


# ---------------------------------------------------------------------------------------------
# strategy
# ---------------------------------------------------------------------------------------------


def header_fields(big):
    """The part of the spec that describes the POSCAR header (shared with CHGCAR / LOCPOT)."""
    return {
        "seed": st.integers(0, 2**32 - 1),
        "title": st.one_of(C.st_title(), C.st_title(), st.just("")),
        "title_pad": st.sampled_from(["", "", "   ", "lead"]),
        "scaling": st.sampled_from(SCALINGS),
        "scaling_style": st.sampled_from(["vasp", "short", "padded", "exp"]),
        "cell_cls": st.sampled_from(CELL_CLASSES),
        "nelem": st.sampled_from([1, 1, 2, 2, 3, 4, 6, 9]),
        "elem_order": st.sampled_from(["mass_desc", "mass_asc", "random", "random", "repeated"]),
        "count_cls": st.sampled_from(["one", "small", "small", "mixed", "large" if big else "mixed"]),
        "mode": st.sampled_from(["direct", "direct", "cartesian", "cartesian"]),
        "mode_word": st.integers(0, 6),
        "selective": st.sampled_from([None, None, 0, 1, 2, 3, 4]),
        "frac_cls": st.sampled_from(["unit", "unit", "outside", "edge"]),
        "cell_decimals": st.sampled_from([6, 6, 8, 16, 2]),
        "coord_decimals": st.sampled_from([6, 6, 8, 16, 3]),
        "number_style": st.sampled_from(["fixed", "fixed", "fixed", "exp", "plus"]),
        "atom_suffix": st.sampled_from(["", "", "", "symbol", "comment"]),
        "symbol_width": st.sampled_from([2, 4, 5]),
    }


def st_model(big):
    fields = header_fields(big)
    fields["tail"] = st.sampled_from(["none", "none", "blank", "velocities", "cart_velocities", "text"])
    return st.fixed_dictionaries(fields)


# ---------------------------------------------------------------------------------------------
# model
# ---------------------------------------------------------------------------------------------


def quantize(x, style, decimals):
    """Round ``x`` to what the file will show in the given number style."""
    if style == "exp":
        return float(f"{float(x):.{decimals}E}")
    return float(f"{float(x):.{decimals}f}") + 0.0


def half_digit(x, style, decimals):
    """Half a unit of the last digit shown for ``x``."""
    if style == "exp" and x != 0:
        return 0.5 * 10.0 ** (math.floor(math.log10(abs(x))) - decimals)
    return 0.5 * 10.0 ** (-decimals)


def make_cell(rng, cls):
    """A 3x3 matrix (rows = lattice vectors, angstrom before scaling), never (nearly) singular."""
    for _attempt in range(200):
        a, b, c = rng.uniform(2.0, 20.0, size=3)
        if cls == "cubic":
            cell = np.eye(3) * a
        elif cls == "ortho":
            cell = np.diag([a, b, c])
        elif cls == "fcc":
            cell = (np.ones((3, 3)) - np.eye(3)) * 0.5
        elif cls == "left_handed":
            cell = rng.normal(size=(3, 3)) * 5 + np.diag([a, b, c])
            if np.linalg.det(cell) > 0:
                cell = cell[[1, 0, 2]]
        elif cls == "skewed":
            # three long vectors with small mutual angles
            base = np.array([a, 0.3 * a, 0.1 * a])
            cell = np.array([base, base + rng.normal(size=3) * 0.6, base + rng.normal(size=3) * 0.6])
        elif cls == "negative":
            cell = -np.abs(rng.normal(size=(3, 3)) * 3) - np.diag([a, b, c])
        elif cls == "huge":
            cell = rng.normal(size=(3, 3)) * 50 + np.diag([900.0, 1200.0, 4000.0])
        elif cls == "tiny":
            cell = rng.normal(size=(3, 3)) * 0.01 + np.eye(3) * 0.3
        else:
            cell = rng.normal(size=(3, 3)) * 4 + np.diag([a, b, c])
            if np.linalg.det(cell) < 0:
                cell = cell[[1, 0, 2]]
        norms = np.linalg.norm(cell, axis=1)
        if abs(np.linalg.det(cell)) > 1e-3 * norms.prod():
            return cell
    raise AssertionError("no regular cell found")


def make_species(rng, spec):
    nelem = spec["nelem"]
    nums = [int(z) for z in rng.choice(np.arange(1, 119), size=nelem, replace=False)]
    order = spec["elem_order"]
    if order == "mass_desc":
        nums.sort(reverse=True)
    elif order == "mass_asc":
        nums.sort()
    elif order == "repeated" and nelem >= 2:
        nums[-1] = nums[0]  # the same species in two separate groups (e.g. "Fe O Fe")
    cls = spec["count_cls"]
    if cls == "one":
        counts = [1] * nelem
    elif cls == "small":
        counts = [int(c) for c in rng.integers(1, 5, size=nelem)]
    elif cls == "mixed":
        counts = [int(c) for c in rng.choice([1, 2, 9, 10, 11, 33, 100], size=nelem)]
    else:
        counts = [int(c) for c in rng.choice([1, 99, 100, 999, 1000, 1001], size=nelem)]
    return nums, counts


def build_header(spec, rng):
    nstyle = spec["number_style"]
    cdec = spec["cell_decimals"]
    xdec = spec["coord_decimals"]
    cell = make_cell(rng, spec["cell_cls"])
    for _attempt in range(50):
        qcell = np.array([[quantize(x, nstyle, cdec) for x in row] for row in cell])
        if abs(np.linalg.det(qcell)) > 1e-4 * np.linalg.norm(qcell, axis=1).prod():
            break
        cell = cell * 3
    nums, counts = make_species(rng, spec)
    natom = sum(counts)
    cartesian = spec["mode"] == "cartesian"
    if cartesian:
        frac = rng.uniform(-0.2, 1.2, size=(natom, 3))
        raw = frac @ qcell
    else:
        cls = spec["frac_cls"]
        if cls == "unit":
            raw = rng.uniform(0.0, 1.0, size=(natom, 3))
        elif cls == "outside":
            raw = rng.uniform(-1.5, 2.5, size=(natom, 3))
        else:
            raw = rng.choice([0.0, 1.0, 0.5, -0.0, 0.999999, 1e-6, 1.0 / 3.0], size=(natom, 3))
    coords = np.array([[quantize(x, nstyle, xdec) for x in row] for row in raw]).reshape(natom, 3)
    words = MODE_WORDS_CART if cartesian else MODE_WORDS_DIRECT
    sel = spec["selective"]
    return {
        "title": spec["title"],
        "title_pad": spec["title_pad"],
        "scaling": float(spec["scaling"]),
        "scaling_style": spec["scaling_style"],
        "cell": qcell,
        "species": nums,
        "counts": counts,
        "natom": natom,
        "cartesian": cartesian,
        "mode_word": words[spec["mode_word"] % len(words)],
        "selective_word": None if sel is None else SELECTIVE_WORDS[sel],
        "flags": [[bool(f) for f in row] for row in rng.integers(0, 2, size=(natom, 3))],
        "coords": coords,
        "cell_decimals": cdec,
        "coord_decimals": xdec,
        "number_style": nstyle,
        "atom_suffix": spec["atom_suffix"],
        "symbol_width": spec["symbol_width"],
    }


def build(spec):
    rng = C.rng_of(spec)
    model = build_header(spec, rng)
    model["tail"] = spec["tail"]
    model["velocities"] = np.round(rng.normal(size=(model["natom"], 3)), 6)
    return model


# ---------------------------------------------------------------------------------------------
# text
# ---------------------------------------------------------------------------------------------


def _real(model, x, decimals):
    style = model["number_style"]
    if style == "exp":
        return f"{x:.{decimals}E}"
    if style == "plus":
        return f"{x:+.{decimals}f}"
    return f"{x:.{decimals}f}"


def _scaling_text(model):
    s = model["scaling"]
    style = model["scaling_style"]
    if style == "vasp":
        return f"   {s:.14f}     "
    if style == "short":
        return f"   {s!r}"
    if style == "padded":
        return f"  {s:19.16f}"
    return f" {s:.16E}"


def header_lines(model):
    title = model["title"]
    if model["title_pad"] == "lead":
        title = "  " + title
    else:
        title = title + model["title_pad"]
    lines = [title, _scaling_text(model)]
    width = 3 + model["cell_decimals"] + 10
    for row in model["cell"]:
        lines.append(" " + " ".join(f"{_real(model, x, model['cell_decimals']):>{width}s}" for x in row))
    w = model["symbol_width"]
    lines.append(" " + " ".join(f"{C.NUM2SYM[z]:>{w}s}" for z in model["species"]))
    lines.append(" " + " ".join(f"{n:>{max(w, 3)}d}" for n in model["counts"]))
    if model["selective_word"] is not None:
        lines.append(model["selective_word"])
    lines.append(model["mode_word"])
    symbols = [C.NUM2SYM[z] for z, n in zip(model["species"], model["counts"]) for _ in range(n)]
    width = 3 + model["coord_decimals"] + 8
    for iatom, row in enumerate(model["coords"]):
        line = " ".join(f"{_real(model, x, model['coord_decimals']):>{width}s}" for x in row)
        if model["selective_word"] is not None:
            line += "".join("   T" if f else "   F" for f in model["flags"][iatom])
        if model["atom_suffix"] == "symbol":
            line += " " + symbols[iatom]
        elif model["atom_suffix"] == "comment":
            line += f" ! atom {iatom + 1}"
        lines.append(line)
    return lines


def write(model):
    lines = header_lines(model)
    tail = model["tail"]
    if tail == "blank":
        lines.append("")
    elif tail == "velocities":
        lines.append("")
        lines += [" ".join(f"{v:14.6f}" for v in row) for row in model["velocities"]]
    elif tail == "cart_velocities":
        lines.append("Cartesian")
        lines += [" ".join(f"{v:14.6f}" for v in row) for row in model["velocities"]]
    elif tail == "text":
        lines += ["", "bli bla blo"]
    return "\n".join(lines) + "\n"


# ---------------------------------------------------------------------------------------------
# truth
# ---------------------------------------------------------------------------------------------


def cell_bohr(model):
    return model["cell"] * model["scaling"] * U.angstrom


def header_expected(model):
    s = model["scaling"]
    style = model["number_style"]
    cell = cell_bohr(model)
    cell_tol = np.array([[half_digit(x, style, model["cell_decimals"]) for x in row] for row in model["cell"]])
    cell_tol = cell_tol * abs(s) * U.angstrom
    xtol = np.array([[half_digit(x, style, model["coord_decimals"]) for x in row] for row in model["coords"]])
    xtol = xtol.reshape(-1, 3)
    if model["cartesian"]:
        atcoords = model["coords"] * s * U.angstrom
        attol = xtol * abs(s) * U.angstrom
    else:
        atcoords = model["coords"] @ cell
        attol = xtol @ np.abs(cell) + np.abs(model["coords"]) @ cell_tol
    atnums = np.array([z for z, n in zip(model["species"], model["counts"]) for _ in range(n)])
    return {
        ("title",): (model["title"].strip(), "exact", 0),
        ("cellvecs",): (cell, "abs", cell_tol + 1e-13),
        ("atcoords",): (atcoords, "abs", attol + 1e-12 * (1 + np.abs(cell).sum())),
        ("atnums",): (atnums, "exact", 0),
    }


def expected(model):
    return header_expected(model)


def header_labels(spec, model):
    out = [
        f"cell:{spec['cell_cls']}",
        "cartesian" if model["cartesian"] else f"direct:{spec['frac_cls']}",
        f"mode_word:{model['mode_word'].split()[0]}",
        f"numbers:{spec['number_style']}",
        f"elements:{spec['elem_order']}" if len(model["species"]) > 1 else "elements:single",
    ]
    if model["scaling"] != 1.0:
        out.append("scaling!=1")
    if model["selective_word"] is not None:
        out.append("selective_dynamics")
    if len(model["species"]) >= 4:
        out.append("many_elements")
    for bound in (100, 1000):
        if model["natom"] >= bound:
            out.append(f"natom>={bound}")
    if model["atom_suffix"]:
        out.append(f"atom_suffix:{model['atom_suffix']}")
    if not model["title"]:
        out.append("empty_title")
    if np.linalg.det(model["cell"]) < 0:
        out.append("left_handed")
    return out


def labels(spec, model):
    out = header_labels(spec, model)
    if model["tail"] != "none":
        out.append(f"tail:{model['tail']}")
    return out


def core(spec, model):
    # scaling, selective dynamics, direct and Cartesian coordinates, trailing lines and a velocity
    # block all occur in the fixtures; comments after the coordinates of an atom do not
    return model["atom_suffix"] != "comment"


# ---------------------------------------------------------------------------------------------
# independent re-parser
# ---------------------------------------------------------------------------------------------


def parse_header(lines):
    """Parse a VASP 5 structure header; returns (dict, index of the first line after the atoms)."""
    out = {"title": lines[0]}
    out["scaling"] = float(lines[1].split()[0])
    out["cell"] = [[float(w) for w in lines[k].split()[:3]] for k in (2, 3, 4)]
    syms = lines[5].split()
    counts = [int(w) for w in lines[6].split()]
    out["atnums"] = [C.SYM2NUM[s] for s, n in zip(syms, counts) for _ in range(n)]
    pos = 7
    out["selective"] = lines[pos][:1] in ("S", "s")
    if out["selective"]:
        pos += 1
    out["cartesian"] = lines[pos][:1] in ("C", "c", "K", "k")
    pos += 1
    out["coords"], out["flags"] = [], []
    for line in lines[pos : pos + len(out["atnums"])]:
        words = line.split()
        out["coords"].append([float(w) for w in words[:3]])
        if out["selective"]:
            out["flags"].append([{"T": True, "F": False}[w] for w in words[3:6]])
    return out, pos + len(out["atnums"])


def selfparse(text):
    lines = text.split("\n")
    parsed, _end = parse_header(lines)
    return parsed


def check_header(model, parsed):
    out = []
    if parsed["title"].strip() != model["title"].strip():
        out.append("title")
    if parsed["scaling"] != model["scaling"]:
        out.append("scaling")
    if not np.array_equal(np.array(parsed["cell"]), model["cell"]):
        out.append("cell")
    want = [z for z, n in zip(model["species"], model["counts"]) for _ in range(n)]
    if parsed["atnums"] != want:
        out.append("atnums")
    if parsed["cartesian"] != model["cartesian"]:
        out.append("mode")
    if parsed["selective"] != (model["selective_word"] is not None):
        out.append("selective")
    if parsed["selective"] and parsed["flags"] != model["flags"]:
        out.append("flags")
    if not np.array_equal(np.array(parsed["coords"]).reshape(-1, 3), model["coords"]):
        out.append("coords")
    return out


def selfcheck(model, parsed):
    return check_header(model, parsed)


def header_numeric_fields(model):
    out = []
    lines = header_lines(model)
    names = {1: "scaling", 2: "cell", 3: "cell", 4: "cell", 6: "count"}
    first_atom = len(lines) - model["natom"]
    for iline, line in enumerate(lines):
        if iline in names:
            nword, name = (1 if iline == 1 else 99), names[iline]
        elif iline >= first_atom:
            nword, name = 3, "coord"
        else:
            continue
        pos = 0
        for word in line.split()[:nword]:
            start = line.index(word, pos)
            pos = start + len(word)
            out.append((iline, start, pos, name))
    return out


def numeric_fields(model):
    return header_numeric_fields(model)
