"""Spec writer for CHARMM CARD coordinate files (.crd; CHARMM documentation, io.doc, "COOR CARD").

  title    any number of lines starting with "*"; the title ends with a line holding only "*"
  count    number of atoms: (I5) in the standard layout, (I10,2X,A) with the word EXT in the
           extended layout (used for >= 100000 atoms or names longer than 4 characters)
  atoms    standard  (I5,I5,1X,A4,1X,A4,3F10.5,1X,A4,1X,A4,F10.5)
           extended  (I10,I10,2X,A8,2X,A8,3F20.10,2X,A8,2X,A8,F20.10)
           ATOMNO RESNO RES TYPE X Y Z SEGID RESID WEIGHTING
           atom number, residue number (sequential, relative to the first residue of the PSF),
           residue name, atom (IUPAC) name, coordinates in angstrom, segment identifier, residue
           identifier (a left-justified *string*: "12", "27A", "-3"), weighting array value.
           A CARD file written for a selection keeps the numbers the atoms have in the PSF.

iodata documents the weighting column as atomic masses in amu (its fixture was written after
"SCALAR WMAIN = MASS").
"""

from __future__ import annotations

import numpy as np
from hypothesis import strategies as st

from .. import units as U
from . import common as C

FORMAT = "charmm"
FILENAME = "model.crd"
LOAD_MANY = False

F32_EPS = 2.0**-22  # two float32 ulps (parse + unit conversion are both rounded to float32)


def st_model(big):
    return st.fixed_dictionaries(
        {
            "natom": C.st_natom(100001, big),
            "seed": st.integers(0, 2**32 - 1),
            "layout": st.sampled_from(["standard", "standard", "standard", "ext"]),
            "coord_cls": st.sampled_from(C.COORD_CLASSES),
            "titles": st.lists(C.st_title(1, 60), min_size=1, max_size=3),
            "names": st.sampled_from(["short", "short", "four"]),
            "numbering": st.sampled_from(["one", "one", "selection"]),
            "resid": st.sampled_from(["numeric", "numeric", "numeric", "four_digits", "negative", "insertion_code"]),
            "weights": st.sampled_from(["mass", "mass", "zero", "wide"]),
        }
    )


def build(spec):
    rng = C.rng_of(spec)
    natom = int(spec["natom"])
    layout = "ext" if natom >= 100000 else spec["layout"]
    four = spec["names"] == "four"
    resindex = np.cumsum(rng.random(natom) < 0.3)
    resindex -= resindex[0]
    nres = int(resindex[-1]) + 1
    resname_of = [(C.token(rng, 4) + "XXX")[:4] if four else C.token(rng, 3) for _ in range(nres)]
    nseg = int(rng.integers(1, 4))
    segnames = [(C.token(rng, 4) + "SEG")[:4] if four else C.token(rng, 4) for _ in range(nseg)]
    seg_of_res = np.sort(rng.integers(0, nseg, size=nres))
    top = 99999 if layout == "standard" else 10**6
    if spec["numbering"] == "selection":
        first_atom, first_res = top - natom + 1, top - nres + 1
    else:
        first_atom, first_res = 1, 1
    resid_start = {"numeric": 1, "four_digits": 9990, "negative": -min(nres, 99) // 2, "insertion_code": 1}[spec["resid"]]
    resids = []
    for k in range(nres):
        text = str((resid_start + k) % 10000 if resid_start + k >= 0 else resid_start + k)
        if spec["resid"] == "insertion_code" and len(text) < 4 and (k == 0 or rng.random() < 0.5):
            text += str(rng.choice(list("ABC")))
        resids.append(text)
    if spec["weights"] == "mass":
        weights = np.round(rng.choice([1.008, 12.011, 14.007, 15.999, 32.06, 35.45], size=natom), 5)
    elif spec["weights"] == "zero":
        weights = np.zeros(natom)
    else:
        weights = np.round(rng.choice([-999.99999, 9999.99999, 1234.56789, -0.00001], size=natom), 5)
    return {
        "natom": natom,
        "layout": layout,
        "titles": list(spec["titles"]),
        "atomnumbers": [first_atom + i for i in range(natom)],
        "resnums": [first_res + int(k) for k in resindex],
        "resnames": [resname_of[int(k)] for k in resindex],
        "attypes": [(C.token(rng, 4) + "123")[:4] if four else C.token(rng, 4) for _ in range(natom)],
        "coords": C.coords(rng, natom, spec["coord_cls"], -999.99999, 9999.99999, 5),
        "segids": [segnames[int(seg_of_res[int(k)])] for k in resindex],
        "resids": [resids[int(k)] for k in resindex],
        "resid_cls": spec["resid"],
        "weights": weights,
    }


def frame_lines(model):
    lines = ["* " + t for t in model["titles"]] + ["*"]
    ext = model["layout"] == "ext"
    lines.append(f"{model['natom']:10d}  EXT" if ext else f"{model['natom']:5d}")
    for i in range(model["natom"]):
        x, y, z = model["coords"][i]
        num, res = model["atomnumbers"][i], model["resnums"][i]
        rn, at, seg, rid, w = model["resnames"][i], model["attypes"][i], model["segids"][i], model["resids"][i], model["weights"][i]
        if ext:
            line = f"{num:10d}{res:10d}  {rn:<8s}  {at:<8s}{x:20.10f}{y:20.10f}{z:20.10f}  {seg:<8s}  {rid:<8s}{w:20.10f}"
            assert len(line) == 140, line
        else:
            line = f"{num:5d}{res:5d} {rn:<4s} {at:<4s}{x:10.5f}{y:10.5f}{z:10.5f} {seg:<4s} {rid:<4s}{w:10.5f}"
            assert len(line) == 70, line
        lines.append(line)
    return lines


def write(model):
    return "\n".join(frame_lines(model)) + "\n"


def expected(model):
    pos = model["coords"] * U.angstrom
    decimals = 10 if model["layout"] == "ext" else 5
    if model["resid_cls"] == "insertion_code":
        resid = np.array(model["resids"])
    else:
        resid = np.array([int(r) for r in model["resids"]])
    return {
        ("title",): ("\n".join(t.strip() for t in model["titles"]), "exact", 0),
        ("atcoords",): (pos, "abs", 0.5 * 10.0**-decimals * U.angstrom + F32_EPS * np.abs(pos)),
        ("atffparams", "attypes"): (np.array(model["attypes"]), "exact", 0),
        ("atffparams", "resnames"): (np.array(model["resnames"]), "exact", 0),
        ("atffparams", "resnums"): (np.array(model["resnums"]), "exact", 0),
        ("atmasses",): (model["weights"] * U.amu, "abs", 0.5 * 10.0**-decimals * U.amu),
        ("extra", "segid"): (np.array(model["segids"]), "exact", 0),
        ("extra", "resid"): (resid, "exact", 0),
    }


def labels(spec, model):
    out = [f"layout:{model['layout']}", f"coords:{spec['coord_cls']}", f"resid:{model['resid_cls']}", f"weights:{spec['weights']}"]
    natom = model["natom"]
    for bound in (100, 1000, 10000, 100000):
        if natom >= bound:
            out.append(f"natom>={bound}")
    if max(model["atomnumbers"]) >= 10000:
        out.append("atom_number>=10000")
    if max(model["atomnumbers"]) >= 100000:
        out.append("atom_number>=100000")
    if model["layout"] == "standard":
        if max(model["resnums"]) >= 10000:
            out.append("atomno_resno_touch")
        c = model["coords"]
        wide = (c <= -100) | (c >= 1000)
        if np.any(wide[:, 1:]):
            out.append("coords_touch")
        if any(w and len(t) == 4 for w, t in zip(wide[:, 0], model["attypes"])):
            out.append("type_touches_x")
        ww = (model["weights"] <= -100) | (model["weights"] >= 1000)
        if any(w and len(r) == 4 for w, r in zip(ww, model["resids"])):
            out.append("resid_touches_weight")
    if spec["names"] == "four":
        out.append("names_fill_4_columns")
    if spec["numbering"] == "selection":
        out.append("selection_numbering")
    if len(model["titles"]) > 1:
        out.append("multi_line_title")
    return out


def core(spec, model):
    # the standard layout with numeric residue identifiers is what iodata's fixture shows; the EXT
    # layout and residue identifiers with insertion codes are legal CHARMM but not promised
    return model["layout"] == "standard" and model["resid_cls"] != "insertion_code"


def selfparse(text):
    lines = text.split("\n")
    titles = []
    k = 0
    while lines[k].startswith("*") and lines[k].strip() != "*":
        titles.append(lines[k][1:].strip())
        k += 1
    assert lines[k].strip() == "*"
    count = lines[k + 1]
    ext = count.rstrip().endswith("EXT")
    natom = int(count[:10]) if ext else int(count[:5])
    iw, aw, fw, gap = (10, 8, 20, 2) if ext else (5, 4, 10, 1)
    atoms = []
    for line in lines[k + 2 : k + 2 + natom]:
        p = 0
        num, res = int(line[p : p + iw]), int(line[p + iw : p + 2 * iw])
        p += 2 * iw + gap
        rn = line[p : p + aw].strip()
        p += aw + gap
        at = line[p : p + aw].strip()
        p += aw
        xyz = [float(line[p + m * fw : p + (m + 1) * fw]) for m in range(3)]
        p += 3 * fw + gap
        seg = line[p : p + aw].strip()
        p += aw + gap
        rid = line[p : p + aw].strip()
        p += aw
        w = float(line[p : p + fw])
        atoms.append((num, res, rn, at, xyz, seg, rid, w, len(line) == p + fw))
    return {"titles": titles, "ext": ext, "natom": natom, "atoms": atoms}


def selfcheck(model, parsed):
    out = []
    if parsed["titles"] != [t.strip() for t in model["titles"]]:
        out.append("titles")
    if parsed["ext"] != (model["layout"] == "ext"):
        out.append("layout")
    if parsed["natom"] != model["natom"] or len(parsed["atoms"]) != model["natom"]:
        return out + ["natom"]
    for i, (num, res, rn, at, xyz, seg, rid, w, full) in enumerate(parsed["atoms"]):
        ok = (num, res, rn, at, seg, rid) == (
            model["atomnumbers"][i], model["resnums"][i], model["resnames"][i], model["attypes"][i],
            model["segids"][i], model["resids"][i],
        )
        if not (ok and full and np.allclose(xyz, model["coords"][i], atol=1e-9, rtol=0) and abs(w - model["weights"][i]) < 1e-9):
            out.append(f"atom {i}")
            break
    return out


def numeric_fields(model):
    ntitle = len(model["titles"]) + 1
    ext = model["layout"] == "ext"
    out = [(ntitle, 0, 10 if ext else 5, "natom")]
    iw, aw, fw, gap = (10, 8, 20, 2) if ext else (5, 4, 10, 1)
    x0 = 2 * iw + gap + aw + gap + aw
    w0 = x0 + 3 * fw + gap + aw + gap + aw
    for i in range(model["natom"]):
        line = ntitle + 1 + i
        out += [(line, iw, 2 * iw, "resno")]
        out += [(line, x0 + m * fw, x0 + (m + 1) * fw, "xyz"[m]) for m in range(3)]
        out += [(line, w0, w0 + fw, "weight")]
    return out
