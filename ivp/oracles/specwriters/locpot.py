"""Spec writer for VASP 5 LOCPOT files.

Layout (VASP manual, "LOCPOT file"): identical to CHGCAR -- structure in POSCAR layout, blank line,
grid dimensions NGX NGY NGZ, then the values with x as the fastest index, five per line -- but the
numbers are the local potential in eV (no volume factor).  Spin-polarised runs append a line with
one number per atom and a second grid.
"""

from __future__ import annotations

from hypothesis import strategies as st

from .. import units as U
from . import chgcar as G
from . import common as C
from . import poscar as P

FORMAT = "locpot"
FILENAME = "LOCPOT"
LOAD_MANY = False


def st_model(big):
    return st.fixed_dictionaries(G.grid_fields(big))


def build(spec):
    return G.build_grid(spec)


def write(model):
    lines = P.header_lines(model)
    lines.append(model["blank"])
    lines += G.grid_lines(model, model["data"])
    if model["second_grid"]:
        lines += C.wrap(model["moments"], 5, lambda v: f" {v:14.7E}")
        lines += G.grid_lines(model, model["second_data"])
    return "\n".join(lines) + ("\n" if model["end_newline"] else "")


def expected(model):
    return G.grid_expected(model, U.electronvolt)


def labels(spec, model):
    return G.grid_labels(spec, model)


def core(spec, model):
    return G.grid_core(spec, model)


def selfparse(text):
    return G.parse_grid(text)


def selfcheck(model, parsed):
    return G.check_grid(model, parsed)


def numeric_fields(model):
    return G.numeric_fields(model)
