"""Spec writer for Gaussian formatted checkpoint files (FCHK), single files and trajectories.

Layout (Gaussian user's reference, "Formatted checkpoint file"):

  line 1   : title                                                    (A72)
  line 2   : job type, method, basis                                  (A10,A30,A30)
             Gaussian 09/16 write a wider method field (A10,A60,A20); both are produced
  scalars  : label, type flag, value          (A40,3X,A1,5X,I12)  or  (A40,3X,A1,5X,1PE22.15)
  arrays   : label, type flag, 'N=', count    (A40,3X,A1,3X,'N=',I12)
             followed by the values, (6I12) or (1P5E16.8) per line, ragged last line
             character arrays (type flag C) use (5A12) data lines
  Fortran prints three-digit exponents without the letter:  1.23456789-103

Records used here: Number of atoms, Charge, Multiplicity, Number of electrons, Number of alpha
electrons, Number of beta electrons, Number of basis functions, Number of independent functions,
Atomic numbers, Nuclear charges, Current cartesian coordinates (bohr), Real atomic weights (amu),
MicOpt, Shell types (0 s, 1 p, -1 sp, 2 d Cartesian, -2 d pure, 3 / -3 f ...), Number of
primitives per shell, Shell to atom map (1-based), Primitive exponents, Contraction coefficients,
P(S=P) Contraction coefficients, Total Energy, Alpha / Beta Orbital Energies, Alpha / Beta MO
coefficients (orbital after orbital), Total SCF Density, Spin SCF Density, Total / Spin
MP2|MP3|CC|CI Density (lower triangle, row after row), Mulliken / ESP / NPA / MBS / Type 6 /
Type 7 Charges, Dipole Moment, Quadrupole Moment (XX YY ZZ XY XZ YZ), Polarizability (lower
triangle), Cartesian Gradient, Cartesian Force Constants (lower triangle), and the trajectory
records "Optimization Number of geometries", "Opt point %8d Results for each geome" (energy,
second value per geometry), "Opt point %8d Geometries", "Opt point %8d Gradient at each geome"
and their "IRC" equivalents (second result value = reaction coordinate).

Order of the functions inside a shell (Gaussian): Cartesian d XX YY ZZ XY XZ YZ; f XXX YYY ZZZ
XYY XXY XXZ XZZ YZZ YYZ XYZ; g and higher: ZZZZ YZZZ YYZZ YYYZ YYYY XZZZ ... XXXX, i.e. the
lexical order read backwards; pure functions m = 0, +1, -1, +2, -2, ... (cosine, sine).

The first part of this module (``st_wf`` / ``build_wf``) is the random wavefunction model that
the wfn, wfx and mwfn writers import as well.
"""

from __future__ import annotations

import re

import numpy as np
from hypothesis import strategies as st

from .. import overlap as O
from .. import units as U
from . import common as C

FORMAT = "fchk"
FILENAME = "model.fchk"
LOAD_MANY = True


# ==============================================================================================
# generic random wavefunction model (shared with wfn.py, wfx.py, mwfn.py)
# ==============================================================================================
#
# A shell is encoded like the FCHK shell types: l >= 0 Cartesian shell of angular momentum l,
# -1 SP shell, -l (l >= 2) pure shell.

CORE_SIZES = [2, 10, 18, 28, 36, 46, 54, 60, 68, 78]


def shell_codes(cart_lmax, pure_lmax, sp):
    """Weighted list of shell codes to sample from."""
    out = [0, 0, 0, 1, 1]
    if sp:
        out += [-1, -1]
    for ell in range(2, cart_lmax + 1):
        out += [ell] * (3 if ell == 2 else 2 if ell == 3 else 1)
    for ell in range(2, pure_lmax + 1):
        out += [-ell] * (3 if ell == 2 else 2 if ell == 3 else 1)
    return out


@st.composite
def st_wf(draw, cart_lmax=6, pure_lmax=6, sp=True, ecp=True, kinds=("rhf", "rohf", "uhf")):
    natom = draw(st.sampled_from([1, 1, 2, 2, 3, 3, 4, 5]))
    codes = shell_codes(cart_lmax, pure_lmax, sp)
    nshell = draw(st.sampled_from([1, 2, 3, 3, 4, 5, 6, 7, 9, 12]))
    shells = [
        [
            draw(st.integers(0, natom - 1)),
            draw(st.sampled_from(codes)),
            draw(st.sampled_from([1, 1, 2, 3, 3, 4, 6, 8])),
        ]
        for _ in range(nshell)
    ]
    return {
        "natom": natom,
        "shells": shells,
        "shell_order": draw(st.sampled_from(["by_atom", "by_atom", "any"])),
        "ecp": bool(ecp and draw(st.sampled_from([False, False, True]))),
        "geom": draw(st.sampled_from(["compact", "compact", "spread", "far"])),
        "kind": draw(st.sampled_from(list(kinds))),
        "virtuals": draw(st.sampled_from(["all", "all", "some", "none"])),
        "occ_frac": draw(st.sampled_from([0.2, 0.5, 0.8])),
        "nopen": draw(st.integers(0, 2)),
        "diff_ab": draw(st.sampled_from([False, False, True])),
    }


def nfunc(code):
    if code == -1:
        return 4
    if code >= 0:
        return (code + 1) * (code + 2) // 2
    return 2 * (-code) + 1


def shell_parts(code):
    """[(l, kind)] of the contractions of a shell code."""
    if code == -1:
        return [(0, "c"), (1, "c")]
    if code >= 0:
        return [(code, "c")]
    return [(-code, "p")]


def _geometry(rng, natom, cls, rc):
    scale = {"compact": 1.6, "spread": 5.0, "far": 45.0}[cls]
    for _ in range(200):
        xyz = rng.normal(size=(natom, 3)) * scale
        if cls == "far" and natom:
            # at least one coordinate that fills a F12.8 field
            xyz[int(rng.integers(natom)), int(rng.integers(3))] = float(rng.choice([-99.5, 100.25, 123.0])) + rng.random()
        xyz = np.array([[rc(v) for v in row] for row in xyz])
        dist = [np.linalg.norm(xyz[i] - xyz[j]) for i in range(natom) for j in range(i)]
        if not dist or min(dist) > 0.9:
            return xyz
    raise RuntimeError("no geometry")


def build_wf(spec, seed, conventions, rc, rexp, rcon, max_nbasis=45, chain=0):
    """spec (from st_wf) -> wavefunction model with every number already as printed.

    ``conventions`` is the {(l, kind): labels} table of the format, ``rc`` / ``rexp`` / ``rcon``
    round a coordinate / exponent / contraction coefficient to what the file will show.
    ``chain`` appends that many hydrogen atoms on a line, each with one s primitive (to reach
    three-digit atom counts cheaply).
    """
    for salt in range(40):
        wf = _build_wf_once(spec, seed, salt, conventions, rc, rexp, rcon, max_nbasis, chain)
        if wf is not None:
            return wf
    raise RuntimeError("could not build a linearly independent basis")


def _build_wf_once(spec, seed, salt, conventions, rc, rexp, rcon, max_nbasis, chain=0):
    rng = np.random.Generator(np.random.PCG64([int(seed), 7919, salt]))
    natom = spec["natom"]
    atnums = np.array(C.atnums(rng, natom, "all"), dtype=int)
    atcore = atnums.astype(float)
    if spec["ecp"]:
        iatom = int(rng.integers(natom))
        atnums[iatom] = int(rng.integers(11, 119))
        sizes = [s for s in CORE_SIZES if s < atnums[iatom]]
        atcore = atnums.astype(float)
        atcore[iatom] = float(atnums[iatom] - int(rng.choice(sizes)))
    coords = _geometry(rng, natom, spec["geom"], rc)
    # shells within the size budget
    raw = []
    nbasis = 0
    for iatom, code, nprim in spec["shells"]:
        size = nfunc(code)
        if raw and nbasis + size > max_nbasis:
            continue
        if not raw and size > max_nbasis:
            code, size = 0, 1
        raw.append((int(iatom), int(code), int(nprim)))
        nbasis += size
    if spec["shell_order"] == "by_atom":
        raw.sort(key=lambda item: item[0])
    if chain:
        start = coords.max(axis=0) + np.array([0.0, 0.0, 6.0])
        extra = np.array([[rc(start[0]), rc(start[1]), rc(start[2] + 1.9 * k)] for k in range(chain)])
        coords = np.concatenate([coords, extra])
        atnums = np.concatenate([atnums, np.ones(chain, dtype=int)])
        atcore = np.concatenate([atcore, np.ones(chain)])
        raw += [(natom + k, 0, 1) for k in range(chain)]
        natom += chain
    shells = []
    plain = []
    for iatom, code, nprim in raw:
        ell = 1 if code == -1 else abs(code)
        lo, hi = (-1.2, 2.8) if ell <= 1 else (-1.0, 1.6) if ell == 2 else (-0.9, 1.0)
        exps = np.sort(np.exp(rng.uniform(lo * np.log(10), hi * np.log(10), size=nprim)))[::-1]
        exps = exps * (1 + 0.07 * np.arange(nprim))
        exps = np.array([rexp(a) for a in exps])
        parts = shell_parts(code)
        coefs = rng.uniform(0.2, 1.0, size=(nprim, len(parts))) * rng.choice([-1, 1], size=(nprim, len(parts)))
        coefs = np.array([[rcon(v) for v in row] for row in coefs])
        shells.append({"icenter": iatom, "code": code, "exps": exps, "coefs": coefs})
        plain.append(
            {
                "icenter": iatom,
                "angmoms": [p[0] for p in parts],
                "kinds": [p[1] for p in parts],
                "exponents": exps.copy(),
                "coeffs": coefs.copy(),
            }
        )
    basis = {"centers": coords.copy(), "shells": plain, "conventions": conventions}
    olp = O.overlap(basis)
    evals = np.linalg.eigvalsh(olp)
    if evals.min() < 1e-5 * evals.max():
        return None
    n = olp.shape[0]
    half = O.inv_sqrt(olp)

    def rotation():
        q, _ = np.linalg.qr(rng.normal(size=(n, n)))
        return half @ q

    kind = spec["kind"]
    nocc = min(n, max(1, int(round(spec["occ_frac"] * n))))
    if kind == "rhf":
        na = nb = nocc
    elif kind == "rohf":
        na = nocc
        nb = max(0, na - max(1, spec["nopen"]))
    else:
        na = nocc
        nb = max(0, na - spec["nopen"])
    ca = rotation()
    cb = rotation() if kind == "uhf" else ca
    ea = np.sort(rng.normal(size=n) * 1.5 - 0.5)
    eb = np.sort(rng.normal(size=n) * 1.5 - 0.5) if kind == "uhf" else ea
    virt = spec["virtuals"]
    if virt == "all":
        norba = norbb = n
    elif virt == "some":
        norba = norbb = min(n, na + 1 + (n - na) // 2)
    else:
        norba = norbb = na
    return {
        "natom": natom,
        "atnums": atnums,
        "atcore": atcore,
        "coords": coords,
        "shells": shells,
        "basis": basis,
        "nbasis": n,
        "olp": olp,
        "kind": kind,
        "na": na,
        "nb": nb,
        "norba": norba,
        "norbb": norbb,
        "ca": ca,
        "cb": cb,
        "ea": ea,
        "eb": eb,
        "rng": rng,
    }


def wf_labels(spec, wf):
    """Boundary classes of the generic model."""
    out = [f"mo:{wf['kind']}", f"natom={wf['natom']}"]
    codes = [sh["code"] for sh in wf["shells"]]
    lmax = max(1 if c == -1 else abs(c) for c in codes)
    out.append(f"lmax={lmax}")
    if -1 in codes:
        out.append("sp_shell")
    if any(c <= -2 for c in codes):
        out.append("pure_shell")
    if any(c >= 2 for c in codes):
        out.append("cartesian_l>=2")
    if any(c <= -2 for c in codes) and any(c >= 2 for c in codes):
        out.append("mixed_pure_cartesian")
    if wf["nbasis"] >= 6:
        out.append("nbasis>=6")
    if any(len(sh["exps"]) > 1 for sh in wf["shells"]):
        out.append("contracted")
    centres = [sh["icenter"] for sh in wf["shells"]]
    if centres != sorted(centres):
        out.append("shells_any_centre_order")
    if len(set(centres)) < wf["natom"]:
        out.append("atom_without_functions")
    if (wf["atcore"] != wf["atnums"]).any():
        out.append("ecp_atom")
    if wf["na"] != wf["nb"]:
        out.append("open_shell")
    if np.abs(wf["coords"]).max() >= 99.0:
        out.append("coordinate_fills_field")
    return out


# ==============================================================================================
# FCHK: conventions
# ==============================================================================================


def lexical(ell):
    """Cartesian labels in lexical order: xx xy xz yy yz zz."""
    return ["x" * nx + "y" * ny + "z" * (ell - nx - ny) for nx in range(ell, -1, -1) for ny in range(ell - nx, -1, -1)]


def conventions(lmax=7):
    conv = {
        (0, "c"): ["1"],
        (1, "c"): ["x", "y", "z"],
        (2, "c"): ["xx", "yy", "zz", "xy", "xz", "yz"],
        (3, "c"): ["xxx", "yyy", "zzz", "xyy", "xxy", "xxz", "xzz", "yzz", "yyz", "xyz"],
    }
    for ell in range(4, lmax + 1):
        conv[(ell, "c")] = lexical(ell)[::-1]
    for ell in range(2, lmax + 1):
        labels = ["c0"]
        for m in range(1, ell + 1):
            labels += [f"c{m}", f"s{m}"]
        conv[(ell, "p")] = labels
    return conv


CONV = conventions()

# ==============================================================================================
# FCHK: numbers as printed
# ==============================================================================================


def fortran_1pe(value, width, ndec):
    """Fortran 1PEw.d: the letter E is dropped when the exponent needs three digits."""
    mant, expo = f"{value:.{ndec}E}".split("E")
    expo = int(expo)
    text = f"{mant}E{expo:+03d}" if abs(expo) < 100 else f"{mant}{expo:+04d}"
    return text.rjust(width)


def r9(value):
    """Round to the 9 significant digits of 1PE16.8."""
    return float(f"{float(value):.8E}")


def r16(value):
    return float(f"{float(value):.15E}")


def r9_array(arr):
    arr = np.asarray(arr, dtype=float)
    return np.array([r9(v) for v in arr.ravel()]).reshape(arr.shape)


def lower_triangle(mat):
    n = mat.shape[0]
    return np.array([mat[i, j] for i in range(n) for j in range(i + 1)])


def from_triangle(tri, n):
    out = np.zeros((n, n))
    pos = 0
    for i in range(n):
        for j in range(i + 1):
            out[i, j] = out[j, i] = tri[pos]
            pos += 1
    return out


# ==============================================================================================
# FCHK: model
# ==============================================================================================

JOBS = [
    "SP", "SP", "SP", "SP", "FOpt", "FOpt", "Freq", "Freq", "Scan", "Scan", "Force", "Force", "POpt", "FTS",
    "Stability", "FOPT", "FREQ", "SCAN", "FORCE", "GUESS=ONLY",
]
RUN_TYPES = {"sp": "energy", "force": "energy_force", "fopt": "opt", "scan": "scan", "freq": "freq"}
EXACT_JOBS = {"SP", "Force", "FOpt", "Scan", "Freq"}
METHODS = ["HF", "B3LYP", "HFS", "wB97XD", "MP2-FC", "MP3-FC", "CCD-FC", "CCSD-FC", "CISD-FC", "CIS-FC"]
BASES = ["STO-3G", "6-31G(d,p)", "Gen", "CC-pVTZ", "GenECP", "6-311++G(3df,3pd)", "LANL2MB"]
OPTIONAL = [
    "energy", "masses", "micopt", "mulliken", "esp", "npa", "mbs", "type6", "type7", "dipole",
    "quadrupole", "polar", "gradient", "hessian", "scf_density", "spin_density", "post_density",
    "post_spin_density",
]
CHARGE_RECORDS = {
    "mulliken": "Mulliken Charges", "esp": "ESP Charges", "npa": "NPA Charges", "mbs": "MBS Charges",
    "type6": "Type 6 Charges", "type7": "Type 7 Charges",
}
CHARGE_KEYS = {"mulliken": "mulliken", "esp": "esp", "npa": "npa", "mbs": "mbs", "type6": "hirshfeld", "type7": "cm5"}


def st_model(big):
    return st.fixed_dictionaries(
        {
            "seed": st.integers(0, 2**32 - 1),
            "wf": st_wf(cart_lmax=6, pure_lmax=6, sp=True, ecp=True),
            "title": C.st_title(1, 70),
            "header": st.sampled_from(["doc", "doc", "doc", "g16", "g16", "g16", "g16", "nobasis_word"]),
            "job": st.sampled_from(JOBS),
            "method": st.sampled_from(METHODS),
            "basisname": st.sampled_from(BASES),
            "records": st.sampled_from(["minimal", "typical", "all", "random", "random"]),
            "record_mask": st.integers(0, 2 ** len(OPTIONAL) - 1),
            "order": st.sampled_from(["gaussian", "gaussian", "shuffled"]),
            "extras": st.booleans(),
            "g03_spelling": st.booleans(),
            "psp_always": st.booleans(),
            "tiny": st.sampled_from([False] * 9 + [True]),
            "ghost": st.sampled_from([False] * 4 + [True]),
            "trajectory": st.sampled_from([None, None, None, "opt", "scan", "irc"]),
            "max_nbasis": st.sampled_from([45, 45, 60] if big else [30, 40]),
        }
    )


def _records_wanted(spec):
    cls = spec["records"]
    if cls == "minimal":
        return set()
    if cls == "all":
        return set(OPTIONAL)
    if cls == "typical":
        return {"energy", "masses", "micopt", "mulliken", "dipole", "scf_density", "gradient"}
    return {name for i, name in enumerate(OPTIONAL) if spec["record_mask"] >> i & 1}


def build(spec):
    wf = build_wf(spec["wf"], spec["seed"], CONV, r9, r9, r9, spec["max_nbasis"])
    rng = wf["rng"]
    natom, n = wf["natom"], wf["nbasis"]
    kind = wf["kind"]
    norba, norbb = wf["norba"], wf["norbb"]
    ghost = False
    if spec["ghost"] and natom >= 2:
        # a ghost centre (Bq): atomic number 0, no charge, possibly carrying basis functions
        plain = [i for i in range(natom) if wf["atcore"][i] == wf["atnums"][i]]
        if len(plain) >= 2:
            ighost = plain[int(rng.integers(len(plain)))]
            wf["atnums"][ighost] = 0
            wf["atcore"][ighost] = 0.0
            ghost = True
    if kind == "uhf" and spec["wf"]["diff_ab"] and norbb - 1 >= max(wf["nb"], 1):
        norbb -= 1
    ca = r9_array(wf["ca"][:, :norba])
    cb = r9_array(wf["cb"][:, :norbb]) if kind == "uhf" else None
    ea = r9_array(wf["ea"][:norba])
    eb = r9_array(wf["eb"][:norbb]) if kind == "uhf" else None
    na, nb = wf["na"], wf["nb"]
    nelec = na + nb
    want = _records_wanted(spec)
    model = {
        "wf": wf, "natom": natom, "nbasis": n, "kind": kind, "na": na, "nb": nb,
        "norba": norba, "norbb": norbb, "ca": ca, "cb": cb, "ea": ea, "eb": eb,
        "title": spec["title"], "header": spec["header"], "job": spec["job"],
        "basisname": spec["basisname"], "order": spec["order"], "extras": spec["extras"],
        "g03_spelling": spec["g03_spelling"], "psp_always": spec["psp_always"], "seed": spec["seed"],
        "charge": int(round(wf["atcore"].sum())) - nelec, "nelec": nelec, "ghost": ghost,
    }
    prefix = {"rhf": "R", "rohf": "RO", "uhf": "U"}[kind]
    model["method"] = prefix + spec["method"]
    post = None
    for key in ("MP2", "MP3", "CC", "CI"):
        if key in spec["method"]:
            post = key
    model["post"] = post
    # scalar and per-atom properties
    rec = {}
    if "energy" in want:
        rec["energy"] = r16(-abs(rng.normal()) * 150 - 0.5)
    if "masses" in want:
        rec["masses"] = r9_array(wf["atnums"] * 2.0 + rng.uniform(-0.5, 1.5, size=natom))
    if "micopt" in want:
        rec["micopt"] = np.array([int(v) for v in rng.choice([-1, -1, -2, 0], size=natom)])
    for name in CHARGE_RECORDS:
        if name in want:
            rec[name] = r9_array(rng.normal(size=natom) * 0.4)
    if "dipole" in want:
        rec["dipole"] = r9_array(rng.normal(size=3))
    if "quadrupole" in want:
        rec["quadrupole"] = r9_array(rng.normal(size=6) * 3)  # XX YY ZZ XY XZ YZ
    if "polar" in want:
        rec["polar"] = r9_array(rng.normal(size=6) * 5)  # lower triangle: XX XY YY XZ YZ ZZ
    if "gradient" in want:
        grad = rng.normal(size=(natom, 3)) * 0.01
        if spec["tiny"]:
            grad[0, 0] = 3.25e-103
            grad[-1, 2] = -1.5e-17
        rec["gradient"] = r9_array(grad)
    if "hessian" in want:
        rec["hessian"] = r9_array(rng.normal(size=3 * natom * (3 * natom + 1) // 2) * 0.1)
    # density matrices in the function order of the file
    dm_a = ca[:, :na] @ ca[:, :na].T
    cbeta = cb if kind == "uhf" else ca
    dm_b = cbeta[:, :nb] @ cbeta[:, :nb].T
    if "scf_density" in want:
        rec["scf_density"] = r9_array(lower_triangle(dm_a + dm_b))
    if "spin_density" in want and kind != "rhf":
        rec["spin_density"] = r9_array(lower_triangle(dm_a - dm_b))
    if post is not None and "post_density" in want:
        noise = rng.normal(size=(n, n)) * 0.02
        rec["post_density"] = r9_array(lower_triangle(dm_a + dm_b + noise + noise.T))
        if "post_spin_density" in want and kind != "rhf":
            noise = rng.normal(size=(n, n)) * 0.02
            rec["post_spin_density"] = r9_array(lower_triangle(dm_a - dm_b + noise + noise.T))
    model["rec"] = rec
    model["tiny"] = bool(spec["tiny"] and "gradient" in rec)
    # trajectory
    model["traj"] = None
    if spec["trajectory"]:
        tkind = spec["trajectory"]
        if tkind == "scan":
            nsteps = [int(v) for v in rng.integers(1, 5, size=int(rng.integers(2, 13)))]
        elif tkind == "opt":
            nsteps = [int(rng.integers(1, 8))]
        else:
            nsteps = [int(rng.integers(1, 9))]
        frames = []
        for ipoint, nstep in enumerate(nsteps):
            for istep in range(nstep):
                frames.append(
                    {
                        "ipoint": ipoint, "istep": istep, "nstep": nstep,
                        "energy": r9(-150 + rng.normal()),
                        "second": r9(rng.normal()) if tkind == "irc" else 0.0,
                        "coords": r9_array(wf["coords"] + rng.normal(size=(natom, 3)) * 0.05),
                        "grad": r9_array(rng.normal(size=(natom, 3)) * 0.01),
                    }
                )
        model["traj"] = {"kind": tkind, "nsteps": nsteps, "frames": frames}
    return model


def build_frames(spec):
    """Frame models of a trajectory spec (one per geometry), for write_many / expected_frames."""
    model = build(spec)
    if model["traj"] is None:
        raise ValueError("not a trajectory spec")
    return [dict(model, iframe=k) for k in range(len(model["traj"]["frames"]))]


# ==============================================================================================
# FCHK: writing
# ==============================================================================================


def _iscalar(label, value):
    return [f"{label:<40s}   I     {int(value):12d}"]


def _rscalar(label, value):
    return [f"{label:<40s}   R     " + fortran_1pe(value, 22, 15)]


def _iarray(label, values):
    values = [int(v) for v in np.asarray(values).ravel()]
    head = f"{label:<40s}   I   N={len(values):12d}"
    return [head] + C.wrap(values, 6, lambda v: f"{v:12d}")


def _rarray(label, values):
    values = [float(v) for v in np.asarray(values, dtype=float).ravel()]
    head = f"{label:<40s}   R   N={len(values):12d}"
    return [head] + C.wrap(values, 5, lambda v: fortran_1pe(v, 16, 8))


def _carray(label, text):
    nword = max(1, -(-len(text) // 12))
    text = text.ljust(12 * nword)
    words = [text[i : i + 12] for i in range(0, len(text), 12)]
    head = f"{label:<40s}   C   N={nword:12d}"
    return [head] + C.wrap(words, 5, lambda w: w)


def header_lines(model):
    title = f"{model['title']:<72s}"
    job, method, basis = model["job"], model["method"], model["basisname"]
    style = model["header"]
    if style == "doc":
        second = f"{job:<10s}{method:<30s}{basis:<30s}"
    elif style == "g16":
        second = f"{job:<10s}{method:<60s}{basis:<20s}"
    else:
        second = f"{job:<10s}{method:<30s}"
    return [title, second]


def blocks(model):
    """[(name, lines)] in the order Gaussian writes the records."""
    wf = model["wf"]
    rec = model["rec"]
    natom = model["natom"]
    out = []
    add = lambda name, lines: out.append((name, lines))  # noqa: E731
    add("natoms", _iscalar("Number of atoms", natom))
    if model["extras"]:
        add("info", _iarray("Info1-9", [11, 11, 0, 0, 0, 110, 2, 1, 2]))
        add("fulltitle", _carray("Full Title", model["title"]))
        add("route", _carray("Route", "# " + model["method"] + "/" + model["basisname"] + " scf=tight"))
    add("charge", _iscalar("Charge", model["charge"]))
    add("mult", _iscalar("Multiplicity", model["na"] - model["nb"] + 1))
    add("nelec", _iscalar("Number of electrons", model["nelec"]))
    add("nalpha", _iscalar("Number of alpha electrons", model["na"]))
    add("nbeta", _iscalar("Number of beta electrons", model["nb"]))
    add("nbasis", _iscalar("Number of basis functions", model["nbasis"]))
    word = "independant" if model["g03_spelling"] else "independent"
    add("nindep", _iscalar(f"Number of {word} functions", model["norba"]))
    add("atnums", _iarray("Atomic numbers", wf["atnums"]))
    add("nuccharges", _rarray("Nuclear charges", wf["atcore"]))
    add("coords", _rarray("Current cartesian coordinates", wf["coords"]))
    if model["extras"]:
        add("atomtypes", _carray("Atom Types", " " * (12 * natom)))
        add("intweights", _iarray("Integer atomic weights", np.round(wf["atnums"] * 2.0)))
    if "masses" in rec:
        add("masses", _rarray("Real atomic weights", rec["masses"]))
    if "micopt" in rec:
        add("micopt", _iarray("MicOpt", rec["micopt"]))
    shells = wf["shells"]
    codes = [sh["code"] for sh in shells]
    if model["extras"]:
        add("ncshell", _iscalar("Number of contracted shells", len(shells)))
        add("npshell", _iscalar("Number of primitive shells", sum(len(sh["exps"]) for sh in shells)))
        add("pured", _iscalar("Pure/Cartesian d shells", 0 if -2 in codes else 1))
        add("puref", _iscalar("Pure/Cartesian f shells", 0 if -3 in codes else 1))
        add("highl", _iscalar("Highest angular momentum", max(1 if c == -1 else abs(c) for c in codes)))
        add("maxcon", _iscalar("Largest degree of contraction", max(len(sh["exps"]) for sh in shells)))
    add("shelltypes", _iarray("Shell types", codes))
    add("nprimshell", _iarray("Number of primitives per shell", [len(sh["exps"]) for sh in shells]))
    add("shellmap", _iarray("Shell to atom map", [sh["icenter"] + 1 for sh in shells]))
    add("exponents", _rarray("Primitive exponents", np.concatenate([sh["exps"] for sh in shells])))
    add("concoef", _rarray("Contraction coefficients", np.concatenate([sh["coefs"][:, 0] for sh in shells])))
    if -1 in codes or model["psp_always"]:
        psp = [sh["coefs"][:, 1] if sh["code"] == -1 else np.zeros(len(sh["exps"])) for sh in shells]
        add("pspcoef", _rarray("P(S=P) Contraction coefficients", np.concatenate(psp)))
    if model["extras"]:
        add("shellcoords", _rarray("Coordinates of each shell", np.array([wf["coords"][sh["icenter"]] for sh in shells])))
        add("virial", _rscalar("Virial Ratio", 2.0017484385021836))
    if "energy" in rec:
        if model["extras"]:
            add("scfenergy", _rscalar("SCF Energy", rec["energy"]))
        add("energy", _rscalar("Total Energy", rec["energy"]))
    if model["extras"]:
        add("iopcl", _iscalar("IOpCl", 0 if model["kind"] != "uhf" else 1))
        add("irohf", _iscalar("IROHF", 1 if model["kind"] == "rohf" else 0))
    add("ea", _rarray("Alpha Orbital Energies", model["ea"]))
    if model["kind"] == "uhf":
        add("eb", _rarray("Beta Orbital Energies", model["eb"]))
    add("ca", _rarray("Alpha MO coefficients", model["ca"].T))
    if model["kind"] == "uhf":
        add("cb", _rarray("Beta MO coefficients", model["cb"].T))
    if "scf_density" in rec:
        add("scf_density", _rarray("Total SCF Density", rec["scf_density"]))
    if "spin_density" in rec:
        add("spin_density", _rarray("Spin SCF Density", rec["spin_density"]))
    if "post_density" in rec:
        add("post_density", _rarray(f"Total {model['post']} Density", rec["post_density"]))
    if "post_spin_density" in rec:
        add("post_spin_density", _rarray(f"Spin {model['post']} Density", rec["post_spin_density"]))
    for name, label in CHARGE_RECORDS.items():
        if name in rec:
            add(name, _rarray(label, rec[name]))
    traj = model["traj"]
    if traj is not None:
        word, prefix = ("IRC", "IRC point") if traj["kind"] == "irc" else ("Optimization", "Opt point")
        add("traj_maxstp", _iscalar(f"{word} MaxStp", 100))
        add("traj_nres", _iscalar(f"{word} Num results per geometry", 2))
        add("traj_nvar", _iscalar(f"{word} Num geometry variables", 3 * natom))
        pos = 0
        for ipoint, nstep in enumerate(traj["nsteps"]):
            frames = traj["frames"][pos : pos + nstep]
            pos += nstep
            results = [v for fr in frames for v in (fr["energy"], fr["second"])]
            lab = f"{prefix}{ipoint + 1:8d}"
            add(f"traj_res{ipoint}", _rarray((lab + " Results for each geometry")[:40], results))
            add(f"traj_geo{ipoint}", _rarray((lab + " Geometries")[:40], np.array([fr["coords"] for fr in frames])))
            add(f"traj_grd{ipoint}", _rarray((lab + " Gradient at each geometry")[:40], np.array([fr["grad"] for fr in frames])))
        add("traj_ngeom", _iarray(f"{word} Number of geometries", traj["nsteps"]))
    if "gradient" in rec:
        add("gradient", _rarray("Cartesian Gradient", rec["gradient"]))
    if "hessian" in rec:
        add("hessian", _rarray("Cartesian Force Constants", rec["hessian"]))
    if "dipole" in rec:
        add("dipole", _rarray("Dipole Moment", rec["dipole"]))
    if "polar" in rec:
        add("polar", _rarray("Polarizability", rec["polar"]))
    if "quadrupole" in rec:
        add("quadrupole", _rarray("Quadrupole Moment", rec["quadrupole"]))
    if model["extras"]:
        add("version", _carray("Gaussian Version", "ES64L-G16RevA.03"))
    return out


def write(model):
    items = blocks(model)
    if model["order"] == "shuffled":
        rng = np.random.Generator(np.random.PCG64([int(model["seed"]), 31337]))
        items = [items[i] for i in rng.permutation(len(items))]
    lines = header_lines(model)
    for _name, blk in items:
        lines += blk
    return "\n".join(lines) + "\n"


def write_many(models):
    """All frame models of one trajectory share the file."""
    return write(models[0])


# ==============================================================================================
# FCHK: what a reader must return
# ==============================================================================================

DIGITS = {
    "coord_rel": 5.1e-9, "coord": 0.0, "exp_rel": 5.1e-9, "coef_rel": 5.1e-9, "occ": 0.0,
    "ene_rel": 5.1e-9, "ene": 0.0, "core_rel": 5.1e-9, "core": 0.0,
}
REL = 5.1e-9
PRESENT = 1e300  # "abs" with this tolerance checks presence and shape only


def truth_of(model):
    wf = model["wf"]
    kind = model["kind"]
    na, nb, norba, norbb = model["na"], model["nb"], model["norba"], model["norbb"]
    if kind == "uhf":
        occs = np.concatenate([np.arange(norba) < na, np.arange(norbb) < nb]).astype(float)
        mo = {
            "kind": "unrestricted", "norba": norba, "norbb": norbb, "occs": occs,
            "coeffs": np.concatenate([model["ca"], model["cb"]], axis=1),
            "energies": np.concatenate([model["ea"], model["eb"]]), "irreps": None, "occs_aminusb": None,
        }
    else:
        occs = (np.arange(norba) < na).astype(float) + (np.arange(norba) < nb).astype(float)
        mo = {
            "kind": "restricted", "norba": norba, "norbb": norba, "occs": occs, "coeffs": model["ca"],
            "energies": model["ea"], "irreps": None, "occs_aminusb": None,
        }
    n = model["nbasis"]
    rec = model["rec"]
    rdms = {}
    for name, key in (
        ("scf_density", "scf"), ("spin_density", "scf_spin"), ("post_density", "post_scf_ao"),
        ("post_spin_density", "post_scf_spin_ao"),
    ):
        if name in rec:
            rdms[key] = from_triangle(rec[name], n)
    return {
        "atnums": wf["atnums"], "atcorenums": wf["atcore"], "centers": wf["coords"],
        "basis": wf["basis"], "mo": mo, "one_rdms": rdms, "ambiguous_spin": False,
    }


def expected(model):
    wf = model["wf"]
    rec = model["rec"]
    natom = model["natom"]
    truth = truth_of(model)
    exp = {
        ("__wavefunction__",): (truth, "wavefunction", DIGITS),
        ("title",): (model["title"].strip(), "exact", 0),
        ("lot",): (model["method"].lower(), "exact", 0),
        ("atnums",): (wf["atnums"], "exact", 0),
        ("atcoords",): (wf["coords"], "rel", REL),
        ("atcorenums",): (wf["atcore"], "rel", REL),
        ("charge",): (float(model["charge"]), "abs", 1e-9),
        ("nelec",): (float(model["nelec"]), "abs", 1e-9),
        ("spinpol",): (float(model["na"] - model["nb"]), "abs", 1e-9),
    }
    if model["header"] != "nobasis_word":
        exp[("obasis_name",)] = (model["basisname"].lower(), "exact", 0)
    run_type = RUN_TYPES.get(model["job"].lower())
    if run_type is not None:
        exp[("run_type",)] = (run_type, "exact", 0)
    if "energy" in rec:
        exp[("energy",)] = (rec["energy"], "rel", 1e-15)
    else:
        exp[("energy",)] = (None, "absent", 0)
    if "masses" in rec:
        exp[("atmasses",)] = (rec["masses"] * U.amu, "rel", REL)
    else:
        exp[("atmasses",)] = (None, "absent", 0)
    if "micopt" in rec:
        exp[("atfrozen",)] = (rec["micopt"] == -2, "exact", 0)
    else:
        exp[("atfrozen",)] = (None, "absent", 0)
    for name, key in CHARGE_KEYS.items():
        if name in rec:
            exp[("atcharges", key)] = (rec[name], "rel", REL)
        else:
            exp[("atcharges", key)] = (None, "absent", 0)
    if "gradient" in rec:
        exp[("atgradient",)] = (rec["gradient"].reshape(natom, 3), "rel", REL)
    else:
        exp[("atgradient",)] = (None, "absent", 0)
    if "hessian" in rec:
        exp[("athessian",)] = (from_triangle(rec["hessian"], 3 * natom), "rel", REL)
    else:
        exp[("athessian",)] = (None, "absent", 0)
    if "dipole" in rec:
        exp[("moments", (1, "c"))] = (rec["dipole"], "rel", REL)
    else:
        exp[("moments", (1, "c"))] = (None, "absent", 0)
    if "quadrupole" in rec:
        xx, yy, zz, xy, xz, yz = rec["quadrupole"]
        exp[("moments", (2, "c"))] = (np.array([xx, xy, xz, yy, yz, zz]), "rel", REL)
    else:
        exp[("moments", (2, "c"))] = (None, "absent", 0)
    if "polar" in rec:
        exp[("extra", "polarizability_tensor")] = (from_triangle(rec["polar"], 3), "rel", REL)
    else:
        exp[("extra", "polarizability_tensor")] = (None, "absent", 0)
    # density matrices: values are compared as densities in space by the wavefunction entry;
    # here only presence and shape (Gaussian's ROHF "Total SCF Density" is a documented exception)
    for key, mat in truth["one_rdms"].items():
        if key == "scf" and model["kind"] == "rohf" and model["na"] != model["nb"]:
            continue
        exp[("one_rdms", key)] = (mat, "abs", PRESENT)
    for key in ("scf", "scf_spin", "post_scf_ao", "post_scf_spin_ao"):
        if key not in truth["one_rdms"]:
            exp[("one_rdms", key)] = (None, "absent", 0)
    return exp


def expected_frames(models):
    """One expected() dict per frame of a trajectory file read with load_many."""
    out = []
    base = models[0]
    wf = base["wf"]
    traj = base["traj"]
    for model in models:
        fr = traj["frames"][model["iframe"]]
        exp = {
            ("title",): (base["title"].strip(), "exact", 0),
            ("atnums",): (wf["atnums"], "exact", 0),
            ("atcorenums",): (wf["atcore"], "rel", REL),
            ("energy",): (fr["energy"], "rel", REL),
            ("atcoords",): (fr["coords"], "rel", REL),
            ("atgradient",): (fr["grad"], "rel", REL),
            ("extra", "ipoint"): (fr["ipoint"], "exact", 0),
            ("extra", "npoint"): (len(traj["nsteps"]), "exact", 0),
            ("extra", "istep"): (fr["istep"], "exact", 0),
            ("extra", "nstep"): (fr["nstep"], "exact", 0),
        }
        if traj["kind"] == "irc":
            exp[("extra", "reaction_coordinate")] = (fr["second"], "rel", REL)
        else:
            exp[("extra", "reaction_coordinate")] = (None, "absent", 0)
        out.append(exp)
    return out


# ==============================================================================================
# labels / core
# ==============================================================================================


def labels(spec, model):
    wf = model["wf"]
    out = wf_labels(spec["wf"], wf)
    out += [f"header:{model['header']}", f"job:{model['job']}", f"records:{spec['records']}", f"order:{model['order']}"]
    if model["norba"] < model["nbasis"]:
        out.append("nindep<nbasis" if model["norba"] > model["na"] else "no_virtuals")
    if model["kind"] == "uhf" and model["norba"] != model["norbb"]:
        out.append("norba!=norbb")
    real_lengths = [3 * model["natom"], model["norba"], model["norba"] * model["nbasis"], sum(len(sh["exps"]) for sh in wf["shells"])]
    if any(v % 5 for v in real_lengths):
        out.append("ragged_real_line")
    if any(v > 5 for v in real_lengths):
        out.append("wrapped_real_array")
    int_lengths = [model["natom"], len(wf["shells"])]
    if any(v % 6 for v in int_lengths):
        out.append("ragged_int_line")
    if any(v > 6 for v in int_lengths):
        out.append("wrapped_int_array")
    for name in ("energy", "masses", "scf_density"):
        if name not in model["rec"]:
            out.append(f"absent:{name}")
    for name in ("post_density", "spin_density", "hessian", "polar", "quadrupole", "micopt", "type6"):
        if name in model["rec"]:
            out.append(f"present:{name}")
    if model["extras"]:
        out.append("other_records")
    if model["tiny"]:
        out.append("three_digit_exponent")
    if model["traj"] is not None:
        out.append(f"trajectory:{model['traj']['kind']}")
        if len(model["traj"]["nsteps"]) >= 10:
            out.append("npoint>=10")
    if model["ghost"]:
        out.append("ghost_atom")
    if model["psp_always"] and "sp_shell" not in out:
        out.append("psp_record_without_sp_shell")
    return out


def core(spec, model):
    if model["tiny"]:
        return False  # Fortran's E-less three-digit exponents
    if model["job"] not in EXACT_JOBS and model["job"].lower() in RUN_TYPES:
        return False  # upper-case spelling of the manual, Gaussian itself writes mixed case
    if model["job"] == "GUESS=ONLY":
        return False  # fills the A10 field: job type and method touch
    if model["header"] == "nobasis_word":
        return False
    if model["kind"] == "uhf" and model["norba"] != model["norbb"]:
        return False
    return True


# ==============================================================================================
# independent re-parser
# ==============================================================================================

_REAL = re.compile(r"^([-+]?\d*\.\d+)(?:[EeDd]?([-+]\d+))?$")


def _real(word):
    match = _REAL.match(word.strip())
    if not match:
        raise ValueError(word)
    mant, expo = match.groups()
    return float(mant) * 10.0 ** int(expo or 0)


def selfparse(text):
    lines = text.split("\n")
    out = {"__title__": lines[0], "__line2__": lines[1]}
    pos = 2
    while pos < len(lines):
        line = lines[pos]
        pos += 1
        if not line.strip():
            continue
        label, flag, rest = line[:40].rstrip(), line[43:44], line[44:]
        if rest[3:5] == "N=":
            count = int(rest[5:17])
            width, per = {"I": (12, 6), "R": (16, 5), "C": (12, 5)}[flag]
            values = []
            while len(values) < count:
                row = lines[pos]
                pos += 1
                take = min(per, count - len(values))
                for k in range(take):
                    values.append(row[k * width : (k + 1) * width])
            if flag == "I":
                values = [int(v) for v in values]
            elif flag == "R":
                values = [_real(v) for v in values]
            out[label] = values
        else:
            out[label] = int(rest[5:17]) if flag == "I" else _real(rest[5:27])
    return out


def selfcheck(model, parsed):
    wf = model["wf"]
    out = []

    def close(a, b):
        a, b = np.asarray(a, dtype=float).ravel(), np.asarray(b, dtype=float).ravel()
        return a.shape == b.shape and bool(np.all(np.abs(a - b) <= 1e-12 * (1 + np.abs(b))))

    if parsed["__title__"].rstrip() != model["title"].rstrip():
        out.append("title")
    if parsed["__line2__"][:10].strip() != model["job"][:10] or model["method"] not in parsed["__line2__"]:
        out.append("line2")
    if parsed.get("Number of atoms") != model["natom"]:
        out.append("natom")
    if parsed.get("Number of basis functions") != model["nbasis"]:
        out.append("nbasis")
    if parsed.get("Number of alpha electrons") != model["na"] or parsed.get("Number of beta electrons") != model["nb"]:
        out.append("nelec")
    if parsed.get("Atomic numbers") != [int(z) for z in wf["atnums"]]:
        out.append("atnums")
    if not close(parsed.get("Current cartesian coordinates", []), wf["coords"]):
        out.append("coords")
    if not close(parsed.get("Nuclear charges", []), wf["atcore"]):
        out.append("nuclear charges")
    if parsed.get("Shell types") != [sh["code"] for sh in wf["shells"]]:
        out.append("shell types")
    if parsed.get("Shell to atom map") != [sh["icenter"] + 1 for sh in wf["shells"]]:
        out.append("shell map")
    if not close(parsed.get("Primitive exponents", []), np.concatenate([sh["exps"] for sh in wf["shells"]])):
        out.append("exponents")
    got = np.array(parsed.get("Alpha MO coefficients", []))
    if got.size != model["norba"] * model["nbasis"] or not close(got.reshape(model["norba"], model["nbasis"]).T, model["ca"]):
        out.append("alpha coefficients")
    if model["kind"] == "uhf":
        got = np.array(parsed.get("Beta MO coefficients", []))
        if got.size != model["norbb"] * model["nbasis"] or not close(got.reshape(model["norbb"], model["nbasis"]).T, model["cb"]):
            out.append("beta coefficients")
    elif "Beta MO coefficients" in parsed:
        out.append("unexpected beta")
    if "gradient" in model["rec"] and not close(parsed.get("Cartesian Gradient", []), model["rec"]["gradient"]):
        out.append("gradient")
    if ("energy" in model["rec"]) != ("Total Energy" in parsed):
        out.append("energy presence")
    if "energy" in model["rec"] and not close(parsed["Total Energy"], model["rec"]["energy"]):
        out.append("energy")
    traj = model["traj"]
    if traj is not None:
        word, prefix = ("IRC", "IRC point") if traj["kind"] == "irc" else ("Optimization", "Opt point")
        if parsed.get(f"{word} Number of geometries") != traj["nsteps"]:
            out.append("traj counts")
        pos = 0
        for ipoint, nstep in enumerate(traj["nsteps"]):
            frames = traj["frames"][pos : pos + nstep]
            pos += nstep
            geo = parsed.get(f"{prefix}{ipoint + 1:8d} Geometries")
            res = parsed.get(f"{prefix}{ipoint + 1:8d} Results for each geome")
            grd = parsed.get(f"{prefix}{ipoint + 1:8d} Gradient at each geome")
            if geo is None or res is None or grd is None:
                out.append(f"traj point {ipoint} missing")
                continue
            if not close(geo, np.array([fr["coords"] for fr in frames])) or not close(res[::2], [fr["energy"] for fr in frames]):
                out.append(f"traj point {ipoint}")
            if not close(grd, np.array([fr["grad"] for fr in frames])):
                out.append(f"traj gradient {ipoint}")
    return out
