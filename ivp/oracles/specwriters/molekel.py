"""Spec writer for the Molekel MKL format (written by Molekel and by ORCA's orca_2mkl).

Layout (Molekel documentation; the ORCA fixtures *.mkl show the same records):

    $MKL
    #
    # comment lines
    #
    $CHAR_MULT
      charge multiplicity
    $END

    $COORD
       atomic_number  x  y  z            (angstrom)
    $END

    $CHARGES                              (optional: one partial charge per atom)
       q
    $END

    $BASIS
     nfunc L 1.0                          (nfunc = 1, 3, 5|6, 7|10, 9|15: tells pure from Cartesian)
       exponent  contraction_coefficient
     ...
    $$                                    (separator between the shells of consecutive atoms)
     ...

    $END

    $COEFF_ALPHA
     sym sym sym sym sym                  (blocks of at most five orbitals)
     ene ene ene ene ene
     c   c   c   c   c                    (one line per basis function)
     ...
     $END

    $OCC_ALPHA
     occ occ occ occ occ
     $END

    $COEFF_BETA / $OCC_BETA               (unrestricted only)

Contraction coefficients refer to normalised primitives and the functions of a shell are listed
in the same order as in the Molden format (6D: xx yy zz xy xz yz; 5D: D0 D+1 D-1 D+2 D-2; ...).
The wavefunction model is the one of molden.py (shared generator, nothing imports iodata).
"""

from __future__ import annotations

import re

import numpy as np
from hypothesis import strategies as st

from .. import units as U
from . import common as C
from . import molden as MD

FORMAT = "molekel"
FILENAME = "model.mkl"
LOAD_MANY = False

# decimals of (coordinates, exponents / contraction coefficients, orbital coefficients / energies
# / occupations) per style; "orca" is what the fixtures show
STYLES = {"orca": (6, 9, 7), "wide": (10, 12, 12)}


def st_model(big):
    return st.fixed_dictionaries(
        {
            "seed": st.integers(0, 2**32 - 1),
            "wf": MD.st_wf(big, allow_sp=False, allow_h=True, integer_electrons=True),
            "style": st.sampled_from(["orca", "wide", "wide"]),
            "charges": st.sampled_from([True, True, False]),
            "charge_cls": st.sampled_from(["neutral", "neutral", "any"]),
            "comment": st.sampled_from(["orca", "other", "none"]),
            "blank_lines": st.booleans(),
            "end_indent": st.booleans(),
            "shell_tag": st.sampled_from(["1.0", "1.00"]),
            "letter_case": st.sampled_from(["upper", "upper", "lower"]),
        }
    )


def _fixed(value, decimals, width):
    return f"{value:.{decimals}f}".rjust(width)


def build(spec):
    dcoord, dcon, dcoef = STYLES[spec["style"]]

    def round_centers(raw):
        native = np.array([[MD.shown(_fixed(x / U.angstrom, dcoord, 12)) for x in row] for row in raw])
        return native, native * U.angstrom

    wf = MD.build_wf(
        spec["wf"], spec["seed"],
        lambda x: _fixed(x, dcon, 20),
        lambda x: _fixed(x, dcoef, 14),
        lambda x: _fixed(x, dcoef, 14),
        lambda x: _fixed(x, dcoef, 14),
        round_centers,
    )
    rng = C.rng_of(spec, 7)
    natom = wf["natom"]
    atnums = np.minimum(C.atnums(rng, natom, spec["wf"]["elements"]), 103)
    nelec = [float(s["occs"].sum()) for s in wf["spins"]]
    if wf["kind"] == "restricted":
        ntot = nelec[0]
        nunpaired = float(np.sum(wf["spins"][0]["occs"] == 1.0))
    else:
        ntot = nelec[0] + nelec[1]
        nunpaired = abs(nelec[0] - nelec[1])
    nint = int(round(ntot))
    if spec["charge_cls"] == "neutral" and natom <= nint <= 100 * natom:
        # a random composition of the electron count over the atoms
        atnums = np.ones(natom, dtype=int)
        for _ in range(nint - natom):
            free = np.nonzero(atnums < 100)[0]
            atnums[int(rng.choice(free))] += 1
    charge = int(round(int(atnums.sum()) - ntot))
    return {
        "wf": wf, "atnums": atnums, "charge": charge, "mult": int(round(nunpaired)) + 1,
        "nelec": ntot, "nunpaired": nunpaired,
        "atcharges": np.round(rng.normal(size=natom) * 0.4, 6) if spec["charges"] else None,
        "decimals": (dcoord, dcon, dcoef), "style": spec["style"], "comment": spec["comment"],
        "blank_lines": bool(spec["blank_lines"]), "end_indent": bool(spec["end_indent"]),
        "shell_tag": spec["shell_tag"], "letter_case": spec["letter_case"], "boost": False,
    }


def _basis_lines(model):
    wf = model["wf"]
    dcon = 16 if model["boost"] else model["decimals"][1]
    lines = ["$BASIS"]
    for iatom in range(wf["natom"]):
        if iatom > 0:
            lines.append("$$")
        for sh in wf["shells"]:
            if sh["iatom"] != iatom:
                continue
            ell, kind = sh["ls"][0], sh["kinds"][0]
            letter = MD.LCHARS[ell].upper() if model["letter_case"] == "upper" else MD.LCHARS[ell]
            lines.append(f"{MD.nfunc(ell, kind):2d} {letter} {model['shell_tag']}")
            for a, d in zip(sh["exponents"], sh["coeffs"][:, 0]):
                lines.append(_fixed(a, dcon, 20 if dcon <= 10 else 28) + " " + _fixed(d, dcon, 17 if dcon <= 10 else 24))
    lines.append("")
    lines.append("$END")
    return lines


def _coeff_lines(model, s, name):
    dcoef = 16 if model["boost"] else model["decimals"][2]
    width = dcoef + 6
    end = " $END" if model["end_indent"] else "$END"
    lines = [f"$COEFF_{name}"]
    norb = s["coeffs"].shape[1]
    for start in range(0, norb, 5):
        cols = range(start, min(start + 5, norb))
        lines.append(" " + "  ".join(s["syms"][i] for i in cols))
        lines.append(" " + "".join(_fixed(s["energies"][i], model["decimals"][2], width + 1) for i in cols))
        for row in s["coeffs"]:
            lines.append("".join(_fixed(row[i], dcoef, width) for i in cols))
    lines.append(end)
    lines.append("")
    lines.append(f"$OCC_{name}")
    for start in range(0, norb, 5):
        lines.append("".join(_fixed(o, model["decimals"][2], width) for o in s["occs"][start : start + 5]))
    lines.append(end)
    return lines


def write(model):
    wf = model["wf"]
    gap = [""] if model["blank_lines"] else []
    lines = ["$MKL"]
    if model["comment"] != "none":
        who = "ORCA" if model["comment"] == "orca" else "a spec writer"
        lines += ["#", f"# MKL format file produced by {who}", "#"]
    lines += ["$CHAR_MULT", f"  {model['charge']} {model['mult']}", "$END"] + gap
    lines.append("$COORD")
    for z, xyz in zip(model["atnums"], wf["native"]):
        lines.append(f"{int(z):4d} " + "".join(_fixed(x, model["decimals"][0], model["decimals"][0] + 7) for x in xyz))
    lines += ["$END"] + gap
    if model["atcharges"] is not None:
        lines.append("$CHARGES")
        lines += [_fixed(q, 6, 11) for q in model["atcharges"]]
        lines += ["$END"] + gap
    lines += _basis_lines(model) + gap
    for s in wf["spins"]:
        lines += _coeff_lines(model, s, s["spin"].upper()) + gap
    return "\n".join(lines) + "\n"


def digits_of(model):
    return {
        "coord": 1e-12, "coord_rel": 2e-9, "exp_rel": 1e-13, "exp_abs": 0.0, "con_abs": 1e-13,
        "coef_rel": 1e-13, "coef_abs": 1e-14, "occ": 1e-12, "ene": 1e-12, "ene_rel": 0.0, "core": None,
    }


def expected(model):
    wf = model["wf"]
    truth = MD.truth_of(wf, model["atnums"], model["atnums"])
    exp = {
        ("__wavefunction__",): (truth, "wavefunction", digits_of(model)),
        ("mo", "irreps"): (np.array([x for s in wf["spins"] for x in s["syms"]]), "exact", 0),
        ("charge",): (float(model["charge"]), "abs", 1e-9),
        ("spinpol",): (float(model["nunpaired"]), "abs", 1e-9),
    }
    if model["atcharges"] is not None:
        exp[("atcharges", "mulliken")] = (model["atcharges"], "abs", 1e-12)
    else:
        exp[("atcharges", "mulliken")] = (None, "absent", 0)
    return exp


def labels(spec, model):
    wf = model["wf"]
    out = MD.wf_labels(wf) + [f"style:{model['style']}", f"comment:{model['comment']}"]
    norbs = [s["coeffs"].shape[1] for s in wf["spins"]]
    if any(n % 5 for n in norbs if n > 5):
        out.append("ragged_last_block")
    if any(n > 5 for n in norbs):
        out.append("several_blocks")
    if model["atcharges"] is None:
        out.append("no_charges_section")
    if model["charge"] != 0:
        out.append("charged")
    if model["mult"] != 1:
        out.append(f"mult={min(model['mult'], 4)}")
    if wf["kind"] == "restricted" and int(round(model["nelec"])) % 2:
        out.append("restricted_odd_electrons")
    if model["letter_case"] == "lower":
        out.append("lowercase_shell_letters")
    if not model["blank_lines"]:
        out.append("no_blank_lines")
    if any(sh["ls"] == [5] for sh in wf["shells"]):
        out.append("h_shell")
    del spec
    return out


def core(spec, model):
    labs = set(labels(spec, model))
    # the reader documents restricted files as closed-shell; an odd electron count in a file with
    # alpha orbitals only (ROHF doublet) is outside what it claims
    return "restricted_odd_electrons" not in labs


# ----------------------------------------------------------------------------------------------
# independent re-parser
# ----------------------------------------------------------------------------------------------

_KEY = re.compile(r"^\s*\$([A-Z_]+)\s*$")
_SHELL = re.compile(r"^\s*(\d+)\s+([A-Za-z])\s+1\.00?\s*$")


def selfparse(text):
    rows = text.split("\n")
    if rows[0] != "$MKL":
        raise ValueError("header")
    out = {}
    name, body = None, []
    for row in rows[1:]:
        m = _KEY.match(row)
        if m and m.group(1) == "END":
            out[name] = body
            name, body = None, []
        elif m:
            name, body = m.group(1), []
        elif name is not None:
            body.append(row)
    res = {}
    res["charge"], res["mult"] = (int(w) for w in out["CHAR_MULT"][0].split())
    res["atoms"] = [(int(r.split()[0]), [float(w) for w in r.split()[1:4]]) for r in out["COORD"] if r.strip()]
    res["charges"] = [float(r) for r in out["CHARGES"] if r.strip()] if "CHARGES" in out else None
    atoms, shells = [[]], None
    for row in out["BASIS"]:
        if row.strip() == "$$":
            atoms.append([])
        elif _SHELL.match(row):
            m = _SHELL.match(row)
            shells = (int(m.group(1)), m.group(2).lower(), [])
            atoms[-1].append(shells)
        elif row.strip():
            a, d = (float(w) for w in row.split())
            shells[2].append((a, d))
    res["basis"] = atoms
    for spin in ("ALPHA", "BETA"):
        if f"COEFF_{spin}" not in out:
            continue
        body = [r for r in out[f"COEFF_{spin}"] if r.strip()]
        nrow = sum(count for atom in atoms for count, _l, _p in atom)
        syms, enes, cols = [], [], []
        k = 0
        while k < len(body):
            labs = body[k].split()
            syms += labs
            enes += [float(w) for w in body[k + 1].split()]
            block = np.array([[float(w) for w in r.split()] for r in body[k + 2 : k + 2 + nrow]])
            if block.shape != (nrow, len(labs)):
                raise ValueError("block shape")
            cols.append(block)
            k += 2 + nrow
        occs = [float(w) for r in out[f"OCC_{spin}"] for w in r.split()]
        res[spin] = {"syms": syms, "energies": np.array(enes), "coeffs": np.hstack(cols), "occs": np.array(occs)}
    return res


def selfcheck(model, parsed):
    wf = model["wf"]
    out = []
    if (parsed["charge"], parsed["mult"]) != (model["charge"], model["mult"]):
        out.append("char_mult")
    if [z for z, _ in parsed["atoms"]] != [int(z) for z in model["atnums"]]:
        out.append("atnums")
    elif not np.array_equal(np.array([xyz for _, xyz in parsed["atoms"]]), wf["native"]):
        out.append("coords")
    if (parsed["charges"] is None) != (model["atcharges"] is None):
        out.append("charges section")
    elif parsed["charges"] is not None and not np.array_equal(np.array(parsed["charges"]), model["atcharges"]):
        out.append("charges")
    if len(parsed["basis"]) != wf["natom"]:
        out.append("basis atoms")
    else:
        got = [(iatom, sh) for iatom, atom in enumerate(parsed["basis"]) for sh in atom]
        if len(got) != len(wf["shells"]):
            out.append("nshell")
        for (iatom, (count, letter, prims)), sh in zip(got, wf["shells"]):
            table = np.column_stack([sh["exponents"], sh["coeffs"][:, 0]])
            if (iatom != sh["iatom"] or letter != MD.LCHARS[sh["ls"][0]]
                    or count != MD.nfunc(sh["ls"][0], sh["kinds"][0]) or not np.array_equal(np.array(prims), table)):
                out.append("shell")
                break
    for s in wf["spins"]:
        got = parsed.get(s["spin"].upper())
        if got is None:
            out.append(f"{s['spin']} missing")
            continue
        if (got["syms"] != s["syms"] or not np.array_equal(got["energies"], s["energies"])
                or not np.array_equal(got["occs"], s["occs"]) or got["coeffs"].shape != s["coeffs"].shape
                or not np.array_equal(got["coeffs"], s["coeffs"])):
            out.append(f"{s['spin']} orbitals")
    if ("BETA" in parsed) != (wf["kind"] == "unrestricted"):
        out.append("beta section")
    return out
