"""Spec writer for Q-Chem (5.2 / 5.3) output files of single-point and frequency jobs.

The text skeleton is transcribed from the two Q-Chem outputs in the repository's fixtures
(a 5.2 unrestricted HF frequency job and the 5.3 restricted fragment jobs of an EDA run).
printf layouts read off those files:

* input echo: ``$molecule`` (charge multiplicity, ``symbol x y z``), ``$rem`` (``key value`` pairs,
  case-insensitive, blanks or tabs, ``!`` comments),
* ``Standard Nuclear Orientation (Angstroms)``: ``"%5d      %-2s%18.10f%17.10f%17.10f"`` (**angstrom**),
  `` Nuclear Repulsion Energy = %20.8f hartrees``, `` There are %8d alpha and %8d beta electrons``,
  `` There are %d shells and %d basis functions``,
* SCF: either the 5.2 GDM tables + `` Total energy in the final basis set =%20.10f`` or the 5.3 list
  ``the SCF tolerance is set ...`` / ``%5d%19.10f%14.2e     00000 Convergence criterion met``,
* ``Orbital Energies (a.u.)``: `` Alpha MOs`` / `` Beta MOs`` (Beta only in unrestricted jobs),
  ``-- Occupied --`` / ``-- Virtual --`` lists, 8 values ``%8.4f`` per line separated by one blank,
* ``Ground-State Mulliken Net Atomic Charges``: ``"%7d %-2s%28.6f"`` (+ ``%15.6f`` spin column in
  unrestricted jobs), charges in e,
* ``Cartesian Multipole Moments``: label right-justified in 10 (then 7) columns, value ``%13.4f``,
  three per line; dipole in **Debye** (X Y Z, then Tot), quadrupole in **Debye-Ang** in the order
  XX XY YY / XZ YZ ZZ, octopole (Debye-Ang^2) and hexadecapole (Debye-Ang^3),
* frequency jobs: ``Polarizability Matrix (a.u.)`` (``%5d`` + 3 ``%12.7f``), ``Hessian of the SCF
  Energy`` in blocks of 6 columns (header: one blank + ``%12d`` per column, rows ``%5d`` +
  ``%12.7f``; hartree/bohr^2), the vibrational analysis (3 modes per block), ``This Molecule has %2d
  Imaginary Frequencies``, ``Zero point vibrational energy: %12.3f kcal/mol``, ``Atom %4d Element
  %-2s Has Mass %10.5f`` (**amu**), ``Rotational Symmetry Number is %3d``, enthalpies in **kcal/mol**
  and entropies in **cal/mol.K**.

Everything in ``expected`` is converted to atomic units (hartree, bohr, e, electron masses,
hartree/K): Debye -> e*bohr, Debye-Ang -> e*bohr^2, amu -> m_e, kcal/mol -> hartree.
"""

from __future__ import annotations

import re

import numpy as np
from hypothesis import strategies as st

from .. import units as U
from . import common as C

FORMAT = "qchemlog"
FILENAME = "model.qchemlog"
LOAD_MANY = False

CALMOL = U.F["calmol"]

QUAD_FILE_ORDER = ["XX", "XY", "YY", "XZ", "YZ", "ZZ"]
QUAD_ALPHA_ORDER = ["XX", "XY", "XZ", "YY", "YZ", "ZZ"]
OCTO_ORDER = ["XXX", "XXY", "XYY", "YYY", "XXZ", "XYZ", "YYZ", "XZZ", "YZZ", "ZZZ"]
HEXA_ORDER = ["XXXX", "XXXY", "XXYY", "XYYY", "YYYY", "XXXZ", "XXYZ", "XYYZ", "YYYZ", "XXZZ", "XYZZ", "YYZZ", "XZZZ", "YZZZ", "ZZZZ"]


def st_model(big):
    natoms = [1, 2, 3, 4, 5, 6, 9, 12, 20, 30]
    if big:
        natoms += [34, 100]
    return st.fixed_dictionaries(
        {
            "natom": st.one_of(st.integers(1, 8), st.sampled_from(natoms)),
            "seed": st.integers(0, 2**32 - 1),
            "job": st.sampled_from(["freq", "freq", "sp"]),
            "unrestricted": st.booleans(),
            "rem_style": st.sampled_from(["lower_blanks", "lower_blanks", "upper_tabs"]),
            "rem_unrestricted": st.sampled_from(["stated", "stated", "stated", "omitted"]),
            "scf_print": st.sampled_from(["gdm52", "gdm52", "diis53"]),
            "coord_cls": st.sampled_from(["small", "small", "negative", "wide"]),
            "decimals": st.sampled_from([5, 6, 10]),
            "elements": st.sampled_from(["light", "light", "all", "two_letter"]),
            "nvirt": st.sampled_from([0, 1, 3, 7, 8, 9, 16, 17, 40]),
            "charge": st.sampled_from([0, 0, 0, 1, -1, 2]),
            "moment_cls": st.sampled_from(["normal", "normal", "negative", "large", "zero"]),
            "nimag": st.sampled_from([0, 0, 0, 1, 2]),
            "g_rot": st.sampled_from([1, 1, 2, 3, 12]),
            "method": st.sampled_from(["hf", "b3lyp", "wB97X-V", "mp2"]),
            "basis": st.sampled_from(["cc-pvtz", "sto-3g", "def2-TZVPD", "6-31G*"]),
        }
    )


def build(spec):
    rng = C.rng_of(spec)
    natom = spec["natom"]
    atnums = np.asarray(C.atnums(rng, natom, spec["elements"]))
    nuc = int(atnums.sum())
    unrestricted = bool(spec["unrestricted"])
    charge = spec["charge"]
    if nuc - charge < 1:
        charge = 0
    nelec = nuc - charge
    if unrestricted:
        mult = 1 + nelec % 2 + (2 if (nelec >= 3 and rng.random() < 0.3) else 0)
    else:
        if nelec % 2:
            charge += 1 if nelec > 1 else -1
            nelec = nuc - charge
        mult = 1
    nalpha = (nelec + mult - 1) // 2
    nbeta = nelec - nalpha
    nbasis = nalpha + spec["nvirt"]
    job = spec["job"] if natom >= 2 else "sp"

    def orbital_energies(nocc):
        occ = np.sort(-np.abs(rng.normal(size=nocc)) * rng.choice([0.5, 5.0, 60.0], size=nocc))
        virt = np.sort(np.abs(rng.normal(size=nbasis - nocc)) * rng.choice([0.5, 5.0], size=nbasis - nocc))
        return np.round(occ, 4), np.round(virt, 4)

    a_occ, a_virt = orbital_energies(nalpha)
    b_occ, b_virt = orbital_energies(nbeta) if unrestricted else (a_occ, a_virt)
    scale = {"normal": 3.0, "negative": 3.0, "large": 3000.0, "zero": 0.0}[spec["moment_cls"]]

    def moments(n):
        v = rng.normal(size=n) * scale
        if spec["moment_cls"] == "negative":
            v = -np.abs(v)
        return v

    dip_raw = moments(3)
    nc = 3 * natom
    hess = rng.normal(size=(nc, nc)) * 0.3
    hess = np.round(np.tril(hess) + np.tril(hess, -1).T, 7)
    polar = rng.normal(size=(3, 3)) * 5
    polar = np.round(np.tril(polar) + np.tril(polar, -1).T, 7)
    nmode = 0 if natom < 2 else (3 * natom - 5 if natom == 2 else 3 * natom - 6)
    freqs = np.sort(np.round(rng.uniform(50, 4000, size=nmode), 2))
    nimag = min(spec["nimag"], nmode)
    freqs[:nimag] = -np.abs(np.round(rng.uniform(50, 2000, size=nimag), 2))
    freqs = np.sort(freqs)
    niter = int(rng.integers(1, 13))
    energy = round(float(-rng.uniform(0.4, 3000.0)), 10)
    scf = [round(energy + float(d), 10) for d in np.sort(rng.uniform(0, 0.2, size=niter - 1))[::-1]] + [energy]
    return {
        "natom": natom, "atnums": atnums, "charge": charge, "mult": mult,
        "coords": C.coords(rng, natom, spec["coord_cls"], -999.0, 9999.0, spec["decimals"]),
        "decimals": spec["decimals"],
        "unrestricted": unrestricted, "nalpha": nalpha, "nbeta": nbeta, "nbasis": nbasis,
        "job": job, "rem_style": spec["rem_style"], "rem_unrestricted": spec["rem_unrestricted"],
        "scf_print": spec["scf_print"], "method": spec["method"], "basis": spec["basis"],
        "enuc": round(float(rng.uniform(0, 5000)), 8), "energy": energy, "scf": scf,
        "a_occ": a_occ, "a_virt": a_virt, "b_occ": b_occ, "b_virt": b_virt,
        "mulliken": np.round(rng.normal(size=natom), 6), "spins": np.round(rng.normal(size=natom) * 0.1, 6),
        "dipole": np.round(dip_raw, 4), "dipole_tot": round(float(np.linalg.norm(dip_raw)), 4),
        "quadrupole": dict(zip(QUAD_FILE_ORDER, np.round(moments(6), 4))),
        "octopole": dict(zip(OCTO_ORDER, np.round(moments(10), 4))),
        "hexadecapole": dict(zip(HEXA_ORDER, np.round(moments(15), 4))),
        "polar": polar, "hess": hess, "freqs": freqs, "nimag": nimag,
        "ir": np.round(rng.uniform(0, 300, size=nmode), 3),
        "modes": np.round(rng.uniform(-0.7, 0.7, size=(nmode, natom, 3)), 3),
        "zpe": round(float(rng.uniform(0, 500)), 3),
        "masses": np.round(rng.uniform(1.0, 294.0, size=natom), 5),
        "g_rot": spec["g_rot"],
        "enthalpy": {
            "trans_enthalpy": 0.889, "rot_enthalpy": round(float(rng.choice([0.0, 0.592, 0.889])), 3),
            "vib_enthalpy": round(float(rng.uniform(0, 500)), 3), "enthalpy_total": round(float(rng.uniform(1, 600)), 3),
        },
        "entropy": {
            "trans_entropy": round(float(rng.uniform(20, 50)), 3), "rot_entropy": round(float(rng.uniform(0, 40)), 3),
            "vib_entropy": round(float(rng.uniform(0, 200)), 3), "entropy_total": round(float(rng.uniform(20, 300)), 3),
        },
    }


# ---------------------------------------------------------------------------------------------
# writer


def _sym(z):
    return C.NUM2SYM[int(z)]


def rem_lines(model):
    flag = model["unrestricted"]
    pairs = []
    if model["rem_style"] == "lower_blanks":
        pairs += [("ideriv", "2"), ("incdft", "0"), ("incfock", "0"), ("jobtype", model["job"]), ("method", model["method"])]
        if model["rem_unrestricted"] == "stated":
            pairs.append(("unrestricted", "1" if flag else "0"))
        pairs += [("basis", model["basis"]), ("scf_algorithm", "gdm"), ("scf_max_cycles", "1000"), ("scf_guess", "sad"),
                  ("thresh", "14"), ("xc_grid", "000099000590"), ("symmetry", "0"), ("sym_ignore", "1"), ("purecart", "1111"),
                  ("gen_scfman", "true"), ("! internal_stability", "      true"), ("complex", "false")]
        return ["$rem"] + [f"{k:<24s}{v}" if not k.startswith("!") else f"{k}{v}" for k, v in pairs] + ["$end"]
    pairs += [("JOBTYPE", "\t\t\t", model["job"].upper()), ("method", "\t\t\t", model["method"]), ("BASIS", "\t\t\t", model["basis"]),
              ("XC_GRID", "\t\t\t", "000099000590")]
    if model["rem_unrestricted"] == "stated":
        pairs.append(("UNRESTRICTED", "\t\t", "TRUE" if flag else "FALSE"))
    pairs += [("MAX_SCF_CYCLES", "\t\t", "200"), ("SYMMETRY", "\t\t", "FALSE"), ("SYM_IGNORE", "\t\t", "TRUE"), ("MEM_STATIC", "\t\t", "2000"),
              ("THRESH ", "\t\t\t", "14"), ("SCF_CONVERGENCE ", "\t", "8")]
    return ["$rem"] + [k + sep + v for k, sep, v in pairs] + ["$end"]


def input_echo(model):
    d = model["decimals"]
    out = [
        "--------------------------------------------------------------",
        "User input:",
        "--------------------------------------------------------------",
        "$molecule",
        f"{model['charge']} {model['mult']}",
    ]
    for z, xyz in zip(model["atnums"], model["coords"]):
        out.append(f"{_sym(z):<3s}" + "".join(f"{v:{d + 10}.{d}f}" for v in xyz))
    out += ["$end", ""]
    out += rem_lines(model)
    out += ["", "--------------------------------------------------------------"]
    return out


def orientation(model):
    dash = " ----------------------------------------------------------------"
    out = [dash, "             Standard Nuclear Orientation (Angstroms)", "    I     Atom           X                Y                Z", dash]
    for i, (z, (x, y, zc)) in enumerate(zip(model["atnums"], model["coords"])):
        out.append(f"{i + 1:5d}      {_sym(z):<2s}{x:18.10f}{y:17.10f}{zc:17.10f}")
    out.append(dash)
    out.append(f" Nuclear Repulsion Energy = {model['enuc']:20.8f} hartrees")
    out.append(f" There are {model['nalpha']:8d} alpha and {model['nbeta']:8d} beta electrons")
    out.append(f" Requested basis set is {model['basis']}")
    out.append(f" There are {max(1, model['nbasis'] // 2)} shells and {model['nbasis']} basis functions")
    out += ["", " Total QAlloc Memory Limit  96000 MB", " Mega-Array Size       188 MB", " MEM_STATIC part       192 MB", ""]
    natom = model["natom"]
    if 2 <= natom <= 6:
        # distance matrix as the fixtures show it for small molecules (lower triangle, angstrom)
        out.append("                       Distance Matrix (Angstroms)")
        out.append("          " + "".join(f"{_sym(z):>4s} ({j + 1:3d})" for j, z in enumerate(model["atnums"][:-1])))
        for i in range(1, natom):
            dist = np.linalg.norm(model["coords"][:i] - model["coords"][i], axis=1)
            out.append(f"{_sym(model['atnums'][i]):>4s} ({i + 1:3d})" + "".join(f"{v:10.6f}" for v in dist))
        out.append(" ")
    out += [" A cutoff of  1.0D-14 yielded    253 shell pairs", f" There are {1793:9d} function pairs ({2271:10d} Cartesian)",
            " Smallest overlap matrix eigenvalue = 2.52E-03", " Guess from superposition of atomic densities",
            " Warning:  Energy on first SCF cycle will be non-variational", " SAD guess density has 10.000000 electrons", ""]
    return out


def scf_section(model):
    kind = "unrestricted" if model["unrestricted"] else "restricted"
    out = [
        " -----------------------------------------------------------------------",
        "  General SCF calculation program by",
        "  Eric Jon Sundstrom, Paul Horn, Yuezhi Mao, Dmitri Zuev, Alec White,",
        " -----------------------------------------------------------------------",
    ]
    scf = model["scf"]
    if model["scf_print"] == "gdm52":
        out += [" Hartree-Fock", " using 16 threads for integral computing",
                " -------------------------------------------------------", " OpenMP Integral computing Module                ",
                " Release: version 1.0, May 2013, Q-Chem Inc. Pittsburgh ", " -------------------------------------------------------",
                f" A {kind} SCF calculation will be", " performed using Roothaan-Hall, GDM", " SCF converges when RMS gradient is below 1.0e-08",
                " ---------------------------------------", "  Cycle       Energy         DIIS error", " ---------------------------------------",
                f"{1:5d}{scf[0] + 0.1:19.10f}      2.95e-02  Roothaan Step",
                " ---------------------------------------", "  Cycle       Energy        RMS Gradient", " ---------------------------------------"]
        for i, e in enumerate(scf):
            last = i == len(scf) - 1
            out.append(f"{i + 1:5d}{e:19.10f}      {10.0 ** -(i + 1):8.2e}" + ("  Convergence criterion met" if last else "   Normal BFGS step"))
        out += [" ---------------------------------------", " SCF time:   CPU 23.44s  wall 2.00s "]
        if model["unrestricted"]:
            out.append(f"<S^2> ={0.75 * (model['mult'] - 1):21.9f}")
        out.append(f" SCF   energy in the final basis set ={model['energy']:20.10f}")
        out.append(f" Total energy in the final basis set ={model['energy']:20.10f}")
    else:
        out += [" Exchange:     0.1670 Hartree-Fock + 1.0000 wB97X-V + LR-HF", " Correlation:  1.0000 wB97X-V",
                f"Energy prior to optimization (guess energy) = {scf[0]:.12f}", "Begin Timing: Total SCF Calculation",
                "begin iterations for algorithm: DIIS         ", "the SCF tolerance is set to 1.00e-08"]
        for i, e in enumerate(scf):
            last = i == len(scf) - 1
            out.append(f"{i + 1:5d}{e:19.10f}{10.0 ** -(i + 1):14.2e}     00000 " + ("Convergence criterion met" if last else ""))
        out.append("Timing for Total SCF: 4.00s (wall), 53.81s (cpu)")
    return out


def _energy_list(values):
    return [" ".join(f"{v:8.4f}" for v in values[i : i + 8]) for i in range(0, len(values), 8)]


def orbital_section(model):
    dash = " --------------------------------------------------------------"
    out = [" ", dash, " ", "                    Orbital Energies (a.u.)", dash, " ", " Alpha MOs", " -- Occupied --"]
    out += _energy_list(model["a_occ"]) + [" -- Virtual --"] + _energy_list(model["a_virt"])
    if model["unrestricted"]:
        out += [" ", " Beta MOs", " -- Occupied --"] + _energy_list(model["b_occ"]) + [" -- Virtual --"] + _energy_list(model["b_virt"])
    out.append(dash)
    return out


def mulliken_section(model):
    out = [" ", "          Ground-State Mulliken Net Atomic Charges", ""]
    if model["unrestricted"]:
        out += ["     Atom                 Charge (a.u.)    Spin (a.u.)", "  --------------------------------------------------------"]
    else:
        out += ["     Atom                 Charge (a.u.)", "  ----------------------------------------"]
    for i, (z, q, s) in enumerate(zip(model["atnums"], model["mulliken"], model["spins"])):
        out.append(f"{i + 1:7d} {_sym(z):<2s}{q:28.6f}" + (f"{s:15.6f}" if model["unrestricted"] else ""))
    out.append(out[-1 - model["natom"]])
    out.append(f"  Sum of atomic charges ={float(model['mulliken'].sum()):13.6f}")
    if model["unrestricted"]:
        out.append(f"  Sum of spin   charges ={float(model['spins'].sum()):13.6f}")
    out.append("")
    return out


def _moment_rows(pairs):
    rows = []
    for i in range(0, len(pairs), 3):
        text = ""
        for k, (label, value) in enumerate(pairs[i : i + 3]):
            text += f"{label:>{10 if k == 0 else 7}s}{value:13.4f}"
        rows.append(text)
    return rows


def multipole_section(model):
    dash = " -----------------------------------------------------------------"
    out = [dash, "                    Cartesian Multipole Moments", dash, "    Charge (ESU x 10^10)", f"{-4.8032 * model['charge'] + 0.0:23.4f}",
           "    Dipole Moment (Debye)"]
    out += _moment_rows(list(zip("XYZ", model["dipole"])))
    out += _moment_rows([("Tot", model["dipole_tot"])])
    out.append("    Quadrupole Moments (Debye-Ang)")
    out += _moment_rows([(k, model["quadrupole"][k]) for k in QUAD_FILE_ORDER])
    out.append("    Octopole Moments (Debye-Ang^2)")
    out += _moment_rows([(k, model["octopole"][k]) for k in OCTO_ORDER])
    out.append("    Hexadecapole Moments (Debye-Ang^3)")
    out += _moment_rows([(k, model["hexadecapole"][k]) for k in HEXA_ORDER])
    out.append(dash)
    return out


def _matrix_blocks(mat, per_block):
    out = []
    n = mat.shape[1]
    for start in range(0, n, per_block):
        cols = range(start, min(n, start + per_block))
        out.append(" " + "".join(f"{c + 1:12d}" for c in cols))
        for r in range(mat.shape[0]):
            out.append(f"{r + 1:5d}" + "".join(f"{mat[r, c]:12.7f}" for c in cols))
    return out


def freq_sections(model):
    natom = model["natom"]
    out = [" Calculating MO derivatives via CPSCF", "    1     0    12    0.0679519  ", "    2    12     0    0.0000008  Converged",
           " Polarizability Matrix (a.u.)"]
    out += _matrix_blocks(model["polar"], 6)
    out += [" Calculating analytic Hessian of the SCF energy", " ", " Direct stationary perturbation theory relativistic correction:", " ",
            " rels  =       0.032334871977", " relv  =      -0.111627185191", " rel2e =       0.024300014013", " E_rel =      -0.054992299201",
            " ", " Hessian of the SCF Energy"]
    out += _matrix_blocks(model["hess"], 6)
    star = " **********************************************************************"
    blank = " **                                                                  **"
    out += [star, blank, " **                       VIBRATIONAL ANALYSIS                       **",
            " **                       --------------------                       **", blank,
            " **        VIBRATIONAL FREQUENCIES (CM**-1) AND NORMAL MODES         **",
            " **     FORCE CONSTANTS (mDYN/ANGSTROM) AND REDUCED MASSES (AMU)     **",
            " **                  INFRARED INTENSITIES (KM/MOL)                   **", blank, star, " ", ""]
    nmode = len(model["freqs"])
    for start in range(0, nmode, 3):
        idx = list(range(start, min(nmode, start + 3)))

        def row(label, first, fmt):
            return label + "".join(format(v, f">{first if k == 0 else 23}{fmt}") for k, v in enumerate(row_values))

        row_values = [i + 1 for i in idx]
        out.append(row(" Mode:", 18, "d"))
        row_values = [model["freqs"][i] for i in idx]
        out.append(row(" Frequency:", 13, ".2f"))
        row_values = [abs(model["freqs"][i]) / 400.0 for i in idx]
        out.append(row(" Force Cnst:", 12, ".4f"))
        row_values = [1.0 + 0.01 * i for i in idx]
        out.append(row(" Red. Mass:", 13, ".4f"))
        row_values = ["YES" for _ in idx]
        out.append(row(" IR Active:", 13, "s"))
        row_values = [model["ir"][i] for i in idx]
        out.append(row(" IR Intens:", 13, ".3f"))
        row_values = ["YES" for _ in idx]
        out.append(row(" Raman Active:", 10, "s"))
        out.append(" " * 9 + "  ".join("      X      Y      Z" for _ in idx))
        for iatom in range(natom):
            out.append(f" {_sym(model['atnums'][iatom]):<9s}" + "  ".join("".join(f"{v:7.3f}" for v in model["modes"][i, iatom]) for i in idx))
        out.append(f" {'TransDip':<9s}" + "  ".join("".join(f"{v:7.3f}" for v in (0.221, 0.164, -0.116)) for _ in idx))
        out.append("")
    out += [" STANDARD THERMODYNAMIC QUANTITIES AT   298.15 K  AND     1.00 ATM", "",
            f"   This Molecule has {model['nimag']:2d} Imaginary Frequencies",
            "   Zero point vibrational energy:".ljust(33) + f"{model['zpe']:13.3f} kcal/mol", ""]
    for i, (z, m) in enumerate(zip(model["atnums"], model["masses"])):
        out.append(f"   Atom {i + 1:4d} Element {_sym(z):<2s} Has Mass {m:10.5f}")
    out.append(f"   Molecular Mass:{float(model['masses'].sum()):13.6f} amu")
    out += ["   Principal axes and moments of inertia in amu*Bohr^2:", "                             1           2           3",
            "    Eigenvalues --        2.18810     4.12692     6.31502", "          X              -0.21572     0.74091     0.63602",
            "          Y               0.74083     0.54851    -0.38770", "          Z               0.63611    -0.38754     0.66722"]
    out.append(f"   Rotational Symmetry Number is {model['g_rot']:3d}")
    out.append("   The Molecule is an Asymmetric Top")
    h, s = model["enthalpy"], model["entropy"]

    def thermo(label, value, unit):
        return label.ljust(26) + f"{value:13.3f}" + unit

    out.append(thermo("   Translational Enthalpy:", h["trans_enthalpy"], " kcal/mol"))
    out.append(thermo("   Rotational Enthalpy:", h["rot_enthalpy"], " kcal/mol"))
    out.append(thermo("   Vibrational Enthalpy:", h["vib_enthalpy"], " kcal/mol"))
    out.append(thermo("   gas constant (RT):", 0.592, " kcal/mol"))
    out.append(thermo("   Translational Entropy:", s["trans_entropy"], "  cal/mol.K"))
    out.append(thermo("   Rotational Entropy:", s["rot_entropy"], "  cal/mol.K"))
    out.append(thermo("   Vibrational Entropy:", s["vib_entropy"], "  cal/mol.K"))
    out.append("")
    out.append(thermo("   Total Enthalpy:", h["enthalpy_total"], " kcal/mol"))
    out.append(thermo("   Total Entropy:", s["entropy_total"], "  cal/mol.K"))
    return out


def write(model):
    out = ["You are running Q-Chem version: 5.2.0", "", "#", "# job setting", "#", "local host:  cori02", "",
           "                  Welcome to Q-Chem", "     A Quantum Leap Into The Future Of Chemistry", "", "",
           "Checking the input file for inconsistencies... \t...done.", ""]
    out += input_echo(model)
    out += orientation(model)
    out += scf_section(model)
    out += orbital_section(model)
    out += mulliken_section(model)
    out += multipole_section(model)
    if model["job"] == "freq":
        out += freq_sections(model)
    out += ["Archival summary:", "1\\1\\cori02\\FREQ\\HF\\BasisUnspecified\\12\\user\\ThuJun1109:51:042020\\0\\\\#,FREQ,HF,BasisUnspecified,\\\\0,1\\O\\H,1", "",
            " Total job time:  5.45s(wall), 69.88s(cpu) ", " Thu Jun 11 09:51:04 2020", "",
            "        *************************************************************",
            "        *                                                           *",
            "        *  Thank you very much for using Q-Chem.  Have a nice day.  *",
            "        *                                                           *",
            "        *************************************************************", "", ""]
    return "\n".join(out) + "\n"


# ---------------------------------------------------------------------------------------------
# expectation


def expected(model):
    unres = model["unrestricted"]
    nb = model["nbasis"]
    if unres:
        energies = np.concatenate([model["a_occ"], model["a_virt"], model["b_occ"], model["b_virt"]])
        occs = np.zeros(2 * nb)
        occs[: model["nalpha"]] = 1.0
        occs[nb : nb + model["nbeta"]] = 1.0
    else:
        energies = np.concatenate([model["a_occ"], model["a_virt"]])
        occs = np.zeros(nb)
        occs[: model["nalpha"]] = 2.0
    quad = np.array([model["quadrupole"][k] for k in QUAD_ALPHA_ORDER])
    exp = {
        ("atnums",): (model["atnums"], "exact", 0),
        ("atcoords",): (model["coords"] * U.angstrom, "abs", 0.5e-10 * U.angstrom),
        ("energy",): (model["energy"], "abs", 0.5e-10),
        ("lot",): (model["method"].lower(), "exact", 0),
        ("obasis_name",): (model["basis"].lower(), "exact", 0),
        ("run_type",): (model["job"].lower(), "exact", 0),
        ("mo", "kind"): ("unrestricted" if unres else "restricted", "exact", 0),
        ("mo", "norba"): (nb, "exact", 0),
        ("mo", "norbb"): (nb, "exact", 0),
        ("mo", "energies"): (energies, "abs", 1e-12),
        ("mo", "occs"): (occs, "exact", 0),
        ("nelec",): (model["nalpha"] + model["nbeta"], "abs", 1e-9),
        ("charge",): (model["charge"], "abs", 1e-9),
        ("spinpol",): (model["nalpha"] - model["nbeta"], "abs", 1e-9),
        ("atcharges", "mulliken"): (model["mulliken"], "abs", 1e-12),
        ("moments", (1, "c")): (model["dipole"] * U.debye, "abs", 0.5e-4 * U.debye),
        ("moments", (2, "c")): (quad * U.debye * U.angstrom, "abs", 0.5e-4 * U.debye * U.angstrom),
        ("extra", "nuclear_repulsion_energy"): (model["enuc"], "abs", 0.5e-8),
    }
    if model["job"] == "freq":
        exp[("athessian",)] = (model["hess"], "abs", 1e-12)
        exp[("atmasses",)] = (model["masses"] * U.amu, "abs", 0.5e-5 * U.amu)
        exp[("g_rot",)] = (model["g_rot"], "exact", 0)
        exp[("extra", "polarizability_tensor")] = (model["polar"], "abs", 1e-12)
        exp[("extra", "imaginary_freq")] = (model["nimag"], "exact", 0)
        exp[("extra", "vib_energy")] = (model["zpe"] * U.kcalmol, "abs", 0.5e-3 * U.kcalmol)
        for key, value in model["enthalpy"].items():
            exp[("extra", "enthalpy_dict", key)] = (value * U.kcalmol, "abs", 0.5e-3 * U.kcalmol)
        for key, value in model["entropy"].items():
            exp[("extra", "entropy_dict", key)] = (value * CALMOL, "abs", 0.5e-3 * CALMOL)
    else:
        for path in (("athessian",), ("atmasses",), ("g_rot",), ("extra", "polarizability_tensor"), ("extra", "vib_energy")):
            exp[path] = (None, "absent", 0)
    return exp


def labels(spec, model):
    out = [f"job:{model['job']}", "unrestricted" if model["unrestricted"] else "restricted", f"rem:{spec['rem_style']}",
           f"scf_print:{spec['scf_print']}", f"coords:{spec['coord_cls']}", f"moments:{spec['moment_cls']}"]
    if spec["rem_unrestricted"] == "omitted":
        out.append("rem_without_unrestricted")
    nc = 3 * model["natom"]
    if model["job"] == "freq":
        out.append(f"hessian_blocks:{(nc + 5) // 6}")
        if nc > 12:
            out.append("hessian_block_starts_at_column>=10")
        if model["nimag"]:
            out.append(f"imaginary:{model['nimag']}")
        if model["g_rot"] > 1:
            out.append("g_rot>1")
    for name, arr in (("alpha_occ", model["a_occ"]), ("alpha_virt", model["a_virt"])):
        if len(arr) == 0:
            out.append(f"{name}_empty")
        elif len(arr) % 8 == 0:
            out.append(f"{name}_full_last_line")
        if len(arr) > 8:
            out.append(f"{name}_wrapped")
    if model["unrestricted"] and model["nbeta"] == 0:
        out.append("beta_electrons=0")
    if model["mult"] > 1:
        out.append(f"multiplicity:{model['mult']}")
    if model["charge"]:
        out.append("charged")
    if (np.concatenate([model["a_occ"], model["b_occ"]]) <= -100).any():
        out.append("orbital_energy<=-100")
    if spec["elements"] == "two_letter":
        out.append("two_letter_symbols")
    if model["natom"] >= 10:
        out.append("natom>=10")
    return out


def core(spec, model):
    # fixtures: $rem states `unrestricted`; Hessians of at most 9 columns; every orbital list non-empty
    if spec["rem_unrestricted"] != "stated":
        return False
    if len(model["a_virt"]) == 0 or model["nbeta"] == 0:
        return False
    return not (model["job"] == "freq" and 3 * model["natom"] > 12)


# ---------------------------------------------------------------------------------------------
# independent re-parser

_NUMBER = r"-?\d+\.\d+"


def _labelled(lines, start, count):
    """Collect ``label value`` pairs (moment tables) from ``lines[start:]`` until ``count`` pairs."""
    pairs = {}
    i = start
    while len(pairs) < count:
        for label, value in re.findall(r"([XYZ]+|Tot)\s+(" + _NUMBER + ")", lines[i]):
            pairs[label] = float(value)
        i += 1
    return pairs


def _blocks(lines, start, nrow):
    """Parse a matrix printed in column blocks; returns dict (row, col) -> value and next index."""
    values = {}
    i = start
    while re.match(r"^ ( +\d+)+$", lines[i]):
        cols = [int(w) for w in lines[i].split()]
        assert len(lines[i]) == 1 + 12 * len(cols)
        for r in range(nrow):
            s = lines[i + 1 + r]
            assert int(s[0:5]) == r + 1
            for k, c in enumerate(cols):
                values[(r + 1, c)] = float(s[5 + 12 * k : 17 + 12 * k])
        i += 1 + nrow
    return values, i


def selfparse(text):
    lines = text.split("\n")
    res = {"rem": {}, "sections": []}
    i = 0
    while i < len(lines):
        line = lines[i]
        if line == "$molecule":
            res["charge"], res["mult"] = (int(w) for w in lines[i + 1].split())
        elif line == "$rem":
            i += 1
            while lines[i] != "$end":
                if not lines[i].startswith("!"):
                    key, value = re.split(r"[ \t]+", lines[i].strip(), maxsplit=1)
                    res["rem"][key.lower()] = value.strip().lower()
                i += 1
        elif "Standard Nuclear Orientation (Angstroms)" in line:
            atoms = []
            i += 3
            while not lines[i].startswith(" ------"):
                s = lines[i]
                atoms.append((int(s[0:5]), s[11:13].strip(), [float(s[13:31]), float(s[31:48]), float(s[48:65])]))
                i += 1
            res["atoms"] = atoms
            res["enuc"] = float(re.match(r"^ Nuclear Repulsion Energy =\s+(" + _NUMBER + ") hartrees$", lines[i + 1]).group(1))
            m = re.match(r"^ There are\s+(\d+) alpha and\s+(\d+) beta electrons$", lines[i + 2])
            res["nalpha"], res["nbeta"] = int(m.group(1)), int(m.group(2))
            res["nbasis"] = int(re.match(r"^ There are \d+ shells and (\d+) basis functions$", lines[i + 4]).group(1))
        elif line.startswith(" Total energy in the final basis set ="):
            res["energy"] = float(line.split("=")[1])
        elif line.rstrip().endswith("Convergence criterion met"):
            res["energy_conv"] = float(re.match(r"^\s*\d+\s+(" + _NUMBER + r")\s", line).group(1))
        elif line.strip() == "Orbital Energies (a.u.)":
            lists = {}
            spin = None
            key = None
            i += 1
            while True:
                i += 1
                s = lines[i].strip()
                if s in ("Alpha MOs", "Beta MOs"):
                    spin = s[0].lower()
                elif s in ("-- Occupied --", "-- Virtual --"):
                    key = spin + ("_occ" if "Occ" in s else "_virt")
                    lists[key] = []
                elif s and set(s) == {"-"} and lists:
                    break
                elif s and key and set(s) != {"-"}:
                    lists[key] += [float(w) for w in re.findall(_NUMBER, s)]
            res["orbitals"] = lists
        elif line.strip() == "Ground-State Mulliken Net Atomic Charges":
            res["mulliken_header"] = lines[i + 2]
            rows = []
            i += 4
            while not lines[i].startswith("  ----"):
                s = lines[i]
                rows.append((int(s[0:7]), s[8:10].strip(), float(s[10:38]), float(s[38:53]) if len(s) > 38 else None))
                i += 1
            res["mulliken"] = rows
        elif line.strip() == "Dipole Moment (Debye)":
            res["dipole"] = _labelled(lines, i + 1, 4)
        elif line.strip() == "Quadrupole Moments (Debye-Ang)":
            res["quadrupole"] = _labelled(lines, i + 1, 6)
        elif line.strip() == "Octopole Moments (Debye-Ang^2)":
            res["octopole"] = _labelled(lines, i + 1, 10)
        elif line.strip() == "Hexadecapole Moments (Debye-Ang^3)":
            res["hexadecapole"] = _labelled(lines, i + 1, 15)
        elif line == " Polarizability Matrix (a.u.)":
            res["polar"], _ = _blocks(lines, i + 1, 3)
        elif line == " Hessian of the SCF Energy":
            res["hess"], _ = _blocks(lines, i + 1, 3 * len(res["atoms"]))
        elif line.startswith(" Frequency:"):
            res.setdefault("freqs", []).extend(float(w) for w in re.findall(_NUMBER, line))
        elif line.startswith(" IR Intens:"):
            res.setdefault("ir", []).extend(float(w) for w in re.findall(_NUMBER, line))
        elif m := re.match(r"^   This Molecule has\s+(\d+) Imaginary Frequencies$", line):
            res["nimag"] = int(m.group(1))
        elif m := re.match(r"^   Zero point vibrational energy:\s+(" + _NUMBER + ") kcal/mol$", line):
            res["zpe"] = float(m.group(1))
        elif m := re.match(r"^   Atom\s+(\d+) Element ([A-Z][a-z]?) +Has Mass\s+(" + _NUMBER + ")$", line):
            res.setdefault("masses", []).append((int(m.group(1)), m.group(2), float(m.group(3))))
        elif m := re.match(r"^   Rotational Symmetry Number is\s+(\d+)$", line):
            res["g_rot"] = int(m.group(1))
        elif m := re.match(r"^   (Translational|Rotational|Vibrational|Total) (Enthalpy|Entropy):\s+(" + _NUMBER + r") +(kcal/mol|cal/mol\.K)$", line):
            res.setdefault("thermo", {})[(m.group(1), m.group(2))] = (float(m.group(3)), m.group(4))
        i += 1
    return res


_THERMO_KEYS = {
    ("Translational", "Enthalpy"): ("enthalpy", "trans_enthalpy"), ("Rotational", "Enthalpy"): ("enthalpy", "rot_enthalpy"),
    ("Vibrational", "Enthalpy"): ("enthalpy", "vib_enthalpy"), ("Total", "Enthalpy"): ("enthalpy", "enthalpy_total"),
    ("Translational", "Entropy"): ("entropy", "trans_entropy"), ("Rotational", "Entropy"): ("entropy", "rot_entropy"),
    ("Vibrational", "Entropy"): ("entropy", "vib_entropy"), ("Total", "Entropy"): ("entropy", "entropy_total"),
}


def selfcheck(model, parsed):
    out = []
    natom = model["natom"]
    if (parsed.get("charge"), parsed.get("mult")) != (model["charge"], model["mult"]):
        out.append("$molecule")
    rem = parsed["rem"]
    if rem.get("jobtype") != model["job"] or rem.get("method") != model["method"].lower() or rem.get("basis") != model["basis"].lower():
        out.append(f"$rem {rem}")
    flag = rem.get("unrestricted")
    if model["rem_unrestricted"] == "stated":
        if flag not in (("1", "true") if model["unrestricted"] else ("0", "false")):
            out.append("$rem unrestricted")
    elif flag is not None:
        out.append("$rem unrestricted present")
    atoms = parsed.get("atoms", [])
    if [a[0] for a in atoms] != list(range(1, natom + 1)) or [C.SYM2NUM.get(a[1]) for a in atoms] != [int(z) for z in model["atnums"]]:
        out.append("atoms")
    elif not np.allclose([a[2] for a in atoms], model["coords"], atol=1e-11, rtol=0):
        out.append("coords")
    if parsed.get("enuc") != model["enuc"] or (parsed.get("nalpha"), parsed.get("nbeta"), parsed.get("nbasis")) != (model["nalpha"], model["nbeta"], model["nbasis"]):
        out.append("orientation footer")
    if model["scf_print"] == "gdm52":
        if parsed.get("energy") != model["energy"]:
            out.append("total energy")
    elif "energy" in parsed:
        out.append("unexpected total energy line")
    if parsed.get("energy_conv") != model["energy"]:
        out.append("converged energy")
    want = {"a_occ": model["a_occ"], "a_virt": model["a_virt"]}
    if model["unrestricted"]:
        want.update({"b_occ": model["b_occ"], "b_virt": model["b_virt"]})
    got = parsed.get("orbitals", {})
    if sorted(got) != sorted(want) or any(len(got[k]) != len(want[k]) or not np.allclose(got[k], want[k], atol=1e-12, rtol=0) for k in want):
        out.append("orbital energies")
    mull = parsed.get("mulliken", [])
    if len(mull) != natom or not np.allclose([r[2] for r in mull], model["mulliken"], atol=1e-12, rtol=0):
        out.append("mulliken")
    elif model["unrestricted"] and not np.allclose([r[3] for r in mull], model["spins"], atol=1e-12, rtol=0):
        out.append("mulliken spins")
    elif not model["unrestricted"] and any(r[3] is not None for r in mull):
        out.append("mulliken spin column")
    dip = parsed.get("dipole", {})
    if [dip.get(k) for k in "XYZ"] != list(model["dipole"]) or dip.get("Tot") != model["dipole_tot"]:
        out.append("dipole")
    for name in ("quadrupole", "octopole", "hexadecapole"):
        if parsed.get(name) != {k: float(v) for k, v in model[name].items()}:
            out.append(name)
    if model["job"] == "freq":
        nc = 3 * natom
        for name, shape in (("polar", (3, 3)), ("hess", (nc, nc))):
            got = parsed.get(name, {})
            mat = np.full(shape, np.nan)
            for (r, c), v in got.items():
                mat[r - 1, c - 1] = v
            if len(got) != shape[0] * shape[1] or not np.allclose(mat, model[name], atol=1e-12, rtol=0):
                out.append(name)
        if not np.allclose(parsed.get("freqs", []), model["freqs"], atol=1e-9, rtol=0) or len(parsed.get("freqs", [])) != len(model["freqs"]):
            out.append("frequencies")
        if not np.allclose(parsed.get("ir", []), model["ir"], atol=1e-9, rtol=0) or len(parsed.get("ir", [])) != len(model["ir"]):
            out.append("ir intensities")
        if parsed.get("nimag") != model["nimag"] or parsed.get("zpe") != model["zpe"] or parsed.get("g_rot") != model["g_rot"]:
            out.append("nimag/zpe/g_rot")
        masses = parsed.get("masses", [])
        if [m[0] for m in masses] != list(range(1, natom + 1)) or [C.SYM2NUM[m[1]] for m in masses] != [int(z) for z in model["atnums"]]:
            out.append("mass labels")
        elif not np.allclose([m[2] for m in masses], model["masses"], atol=1e-9, rtol=0):
            out.append("masses")
        thermo = parsed.get("thermo", {})
        for key, (group, name) in _THERMO_KEYS.items():
            unit = "kcal/mol" if group == "enthalpy" else "cal/mol.K"
            if thermo.get(key) != (model[group][name], unit):
                out.append(f"thermo {key}")
    elif any(k in parsed for k in ("hess", "polar", "masses", "g_rot", "thermo")):
        out.append("unexpected frequency sections")
    return out
