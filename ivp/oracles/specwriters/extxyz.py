"""Spec writer for extended XYZ files (ASE / libAtoms "extxyz", the description iodata refers to).

  line 1   number of atoms
  line 2   white-space separated key=value pairs (a bare key means True).  Values are integers,
           reals, logicals (T / F / True / False) or strings; a value containing spaces (vectors
           such as the lattice) is enclosed in double quotes.  Special keys:
             Lattice="ax ay az bx by bz cx cy cz"   the three cell vectors a, b, c in angstrom
             Properties=name:T:n:name:T:n...         the per-atom columns: T is S (string), R (real),
                                                     I (integer) or L (logical), n the column count;
                                                     without this key the columns are species:S:1:pos:R:3
             pbc="T T T", energy=<eV>, charge=<e>, any further key=value pair is free metadata
  atoms    one line per atom with the columns of Properties, white-space separated.  ASE's names:
           species (chemical symbol), Z (atomic number), pos (angstrom), masses (amu), forces
           (eV/angstrom; older QUIP files call it "force"), anything else is user data.

ASE works in eV and angstrom; iodata promises atomic units for every attribute, so energies are
expected in hartree (eV * electronvolt) and atgradient = -forces in hartree/bohr.
"""

from __future__ import annotations

import re

import numpy as np
from hypothesis import strategies as st

from .. import units as U
from . import common as C

FORMAT = "extxyz"
FILENAME = "model.extxyz"
LOAD_MANY = True

# free metadata on the title line: key -> kind
META_KINDS = {
    "nsteps": "int", "shift": "negint", "temperature": "real", "tol": "real_exp", "converged": "bool",
    "relaxed": "bool_word", "config_type": "str", "dopant": "str_boollike", "supercell": "int_array",
    "dipole": "real_array", "periodic_image": "bare",
}
# user data columns: name -> (type letter, ncols)
COLUMN_KINDS = {"tags": ("I", 1), "q": ("R", 1), "label": ("S", 1), "fixed": ("L", 1), "disp": ("R", 3), "ids": ("I", 2), "mask": ("L", 2)}


def st_model(big):
    return st.fixed_dictionaries(
        {
            "natom": C.st_natom(12000, big),
            "seed": st.integers(0, 2**32 - 1),
            "coord_cls": st.sampled_from(C.COORD_CLASSES),
            "decimals": st.sampled_from([6, 8, 8, 10, 3]),
            "element_columns": st.sampled_from(["species", "species", "species", "Z", "species+Z"]),
            "column_order": st.sampled_from(["species_first", "species_first", "pos_first"]),
            "properties_key": st.sampled_from([True] * 9 + [False]),
            "lattice": st.booleans(),
            "pbc": st.sampled_from(["none", "TTT", "mixed"]),
            "energy": st.booleans(),
            "charge": st.sampled_from(["none", "0", "-1", "1.0"]),
            "masses": st.booleans(),
            "forces": st.sampled_from(["none", "none", "force", "forces"]),
            "meta": st.lists(st.sampled_from(sorted(META_KINDS)), unique=True, max_size=4),
            "columns": st.lists(st.sampled_from(sorted(COLUMN_KINDS)), unique=True, max_size=3),
            "sep": st.sampled_from(["spaces", "spaces", "single", "tab"]),
            "bool_words": st.booleans(),
            "elements": st.sampled_from(["all", "light", "two_letter"]),
            "trailing_blank": st.booleans(),
        }
    )


def build(spec):
    rng = C.rng_of(spec)
    natom = int(spec["natom"])
    d = int(spec["decimals"])
    has_properties = bool(spec["properties_key"])
    # without a Properties key only the default columns can be present
    element_columns = spec["element_columns"] if has_properties else "species"
    columns = []  # (name, letter, ncols, data)
    atnums = C.atnums(rng, natom, spec["elements"])
    coords = C.coords(rng, natom, spec["coord_cls"], -9999.0, 99999.0, d)
    elem = []
    if "species" in element_columns:
        elem.append(("species", "S", 1, [C.NUM2SYM[int(z)] for z in atnums]))
    if "Z" in element_columns:
        elem.append(("Z", "I", 1, [int(z) for z in atnums]))
    pos = ("pos", "R", 3, coords)
    if spec["column_order"] == "pos_first" and has_properties:
        columns = [pos] + elem
    else:
        columns = elem[:1] + [pos] + elem[1:]
    masses = forces = None
    user = {}
    if has_properties:
        if spec["masses"]:
            masses = np.round(rng.uniform(1.0, 250.0, size=natom), d)
            columns.append(("masses", "R", 1, masses))
        if spec["forces"] != "none":
            forces = np.round(rng.normal(size=(natom, 3)) * 2, d)
            columns.append((spec["forces"], "R", 3, forces))
        for name in spec["columns"]:
            letter, ncol = COLUMN_KINDS[name]
            shape = (natom,) if ncol == 1 else (natom, ncol)
            if letter == "I":
                data = rng.integers(-5, 1000, size=shape)
            elif letter == "R":
                data = np.round(rng.normal(size=shape) * 10, d)
            elif letter == "L":
                data = rng.random(shape) < 0.5
            else:
                data = np.array([C.token(rng, 6) for _ in range(natom)])
            user[name] = data
            columns.append((name, letter, ncol, data))
    lattice = None
    if spec["lattice"]:
        lattice = np.round(np.diag(rng.uniform(2.0, 30.0, size=3)) + rng.choice([0.0, 1.0]) * rng.uniform(-3, 3, size=(3, 3)), d)
    meta = {}
    for key in spec["meta"]:
        kind = META_KINDS[key]
        meta[key] = {
            "int": lambda: int(rng.integers(0, 10**6)),
            "negint": lambda: -int(rng.integers(1, 100)),
            "real": lambda: float(np.round(rng.uniform(-500, 500), d)),
            "real_exp": lambda: float(f"{10.0 ** -int(rng.integers(3, 12)) * int(rng.integers(1, 10)):.3e}"),
            "bool": lambda: bool(rng.random() < 0.5),
            "bool_word": lambda: bool(rng.random() < 0.5),
            "str": lambda: str(rng.choice(["bulk_fcc", "slab-110", "conventional", "md.300K"])),
            "str_boollike": lambda: str(rng.choice(["N", "Y", "no", "on", "off", "yes"])),
            "int_array": lambda: [int(v) for v in rng.integers(1, 9, size=3)],
            "real_array": lambda: [float(v) for v in np.round(rng.normal(size=3), d)],
            "bare": lambda: True,
        }[kind]()
    pbc = {"none": None, "TTT": [True, True, True], "mixed": [bool(v) for v in rng.random(3) < 0.5]}[spec["pbc"]]
    if pbc is not None and all(pbc) and spec["pbc"] == "mixed":
        pbc[1] = False
    order = ["Lattice", "Properties", "energy", "charge", "pbc"] + list(meta)
    order = [order[i] for i in rng.permutation(len(order))]
    return {
        "natom": natom,
        "decimals": d,
        "atnums": atnums,
        "coords": coords,
        "columns": columns,
        "has_properties": has_properties,
        "element_columns": element_columns,
        "masses": masses,
        "forces": forces,
        "forces_name": spec["forces"],
        "user": user,
        "lattice": lattice,
        "energy": float(np.round(rng.normal() * 500, d)) if spec["energy"] else None,
        "charge": None if spec["charge"] == "none" else spec["charge"],
        "pbc": pbc,
        "meta": meta,
        "key_order": order,
        "sep": spec["sep"],
        "bool_words": bool(spec["bool_words"]),
        "trailing_blank": bool(spec["trailing_blank"]),
    }


def _logical(model, value):
    if model["bool_words"]:
        return "True" if value else "False"
    return "T" if value else "F"


def title_line(model):
    d = model["decimals"]
    parts = []
    for key in model["key_order"]:
        if key == "Lattice":
            if model["lattice"] is not None:
                parts.append('Lattice="' + " ".join(f"{v:.{d}f}" for v in model["lattice"].ravel()) + '"')
        elif key == "Properties":
            if model["has_properties"]:
                parts.append("Properties=" + ":".join(f"{name}:{letter}:{ncol}" for name, letter, ncol, _ in model["columns"]))
        elif key == "energy":
            if model["energy"] is not None:
                parts.append(f"energy={model['energy']:.{d}f}")
        elif key == "charge":
            if model["charge"] is not None:
                parts.append(f"charge={model['charge']}")
        elif key == "pbc":
            if model["pbc"] is not None:
                parts.append('pbc="' + " ".join("T" if v else "F" for v in model["pbc"]) + '"')
        else:
            kind, value = META_KINDS[key], model["meta"][key]
            if kind == "bare":
                parts.append(key)
            elif kind in ("int", "negint", "str", "str_boollike"):
                parts.append(f"{key}={value}")
            elif kind == "real":
                parts.append(f"{key}={value:.{d}f}")
            elif kind == "real_exp":
                parts.append(f"{key}={value:.3e}")
            elif kind == "bool":
                parts.append(f"{key}={'T' if value else 'F'}")
            elif kind == "bool_word":
                parts.append(f"{key}={'True' if value else 'False'}")
            elif kind == "int_array":
                parts.append(f'{key}="' + " ".join(str(v) for v in value) + '"')
            elif kind == "real_array":
                parts.append(f'{key}="' + " ".join(f"{v:.{d}f}" for v in value) + '"')
    return " ".join(parts)


def atom_lines(model):
    d = model["decimals"]
    sep = {"spaces": "  ", "single": " ", "tab": "\t"}[model["sep"]]
    out = []
    for i in range(model["natom"]):
        words = []
        for _name, letter, _ncol, data in model["columns"]:
            for v in np.atleast_1d(data[i]):
                if letter == "R":
                    text = f"{v:.{d}f}"
                    words.append(f"{text:>{d + 7}s}" if model["sep"] == "spaces" else text)
                elif letter == "I":
                    words.append(str(int(v)))
                elif letter == "L":
                    words.append(_logical(model, bool(v)))
                else:
                    words.append(f"{v!s:<2s}" if model["sep"] == "spaces" else str(v))
        out.append(sep.join(words))
    return out


def frame_lines(model):
    return [str(model["natom"]), title_line(model)] + atom_lines(model)


def write(model):
    text = "\n".join(frame_lines(model)) + "\n"
    return text + "\n" if model["trailing_blank"] else text


def write_many(models):
    text = "".join("\n".join(frame_lines(m)) + "\n" for m in models)
    return text + "\n" if models and models[-1]["trailing_blank"] else text


def expected(model):
    d = model["decimals"]
    half = 0.5 * 10.0**-d
    exp = {
        ("title",): (title_line(model).strip(), "exact", 0),
        ("atnums",): (np.asarray(model["atnums"]), "exact", 0),
        ("atcoords",): (model["coords"] * U.angstrom, "abs", half * U.angstrom),
    }
    if model["masses"] is not None:
        exp[("atmasses",)] = (model["masses"] * U.amu, "abs", half * U.amu)
    if model["forces"] is not None:
        unit = U.electronvolt / U.angstrom
        exp[("atgradient",)] = (-model["forces"] * unit, "abs", half * unit)
    if model["lattice"] is not None:
        exp[("cellvecs",)] = (model["lattice"] * U.angstrom, "abs", half * U.angstrom)
    if model["energy"] is not None:
        exp[("energy",)] = (model["energy"] * U.electronvolt, "abs", half * U.electronvolt)
    if model["charge"] is not None:
        exp[("charge",)] = (float(model["charge"]), "abs", 1e-12)
    if model["pbc"] is not None:
        exp[("extra", "pbc")] = (np.array(model["pbc"]), "exact", 0)
    for key, value in model["meta"].items():
        kind = META_KINDS[key]
        if kind in ("real", "real_array"):
            exp[("extra", key)] = (np.asarray(value), "abs", half)
        elif kind == "real_exp":
            exp[("extra", key)] = (value, "rel", 1e-12)
        else:
            exp[("extra", key)] = (np.asarray(value) if isinstance(value, list) else value, "exact", 0)
    for name, data in model["user"].items():
        if COLUMN_KINDS[name][0] == "R":
            exp[("extra", name)] = (data, "abs", half)
        else:
            exp[("extra", name)] = (data, "exact", 0)
    return exp


def labels(spec, model):
    out = [
        f"coords:{spec['coord_cls']}", f"elements_by:{model['element_columns']}", f"sep:{model['sep']}",
        "Properties" if model["has_properties"] else "no_Properties_key",
    ]
    for bound in (100, 1000, 10000):
        if model["natom"] >= bound:
            out.append(f"natom>={bound}")
    names = [c[0] for c in model["columns"]]
    if names[0] == "pos":
        out.append("pos_column_first")
    for flag, name in (
        (model["lattice"] is not None, "Lattice"), (model["energy"] is not None, "energy"),
        (model["charge"] is not None, "charge"), (model["pbc"] is not None, "pbc"),
        (model["masses"] is not None, "masses"),
    ):
        out.append(name if flag else f"no_{name}")
    out.append(f"forces_name:{model['forces_name']}")
    out += [f"meta:{META_KINDS[k]}" for k in model["meta"]]
    out += [f"column:{COLUMN_KINDS[k][0]}:{COLUMN_KINDS[k][1]}" for k in model["user"]]
    if model["user"] and model["bool_words"]:
        out.append("logical_as_words")
    return out


def core(spec, model):
    # iodata's fixtures: Properties key present, forces called "force"
    return model["has_properties"]


PAIR = re.compile(r'([A-Za-z_][\w\-]*)(?:=(?:"([^"]*)"|(\S+)))?')


def selfparse(text):
    lines = text.split("\n")
    natom = int(lines[0])
    pairs = {}
    for m in PAIR.finditer(lines[1]):
        key, quoted, plain = m.group(1), m.group(2), m.group(3)
        pairs[key] = True if quoted is None and plain is None else (quoted if quoted is not None else plain)
    prop = pairs.get("Properties", "species:S:1:pos:R:3").split(":")
    layout = [(prop[k], prop[k + 1], int(prop[k + 2])) for k in range(0, len(prop), 3)]
    table = {name: [] for name, _, _ in layout}
    for line in lines[2 : 2 + natom]:
        words = line.split()
        p = 0
        for name, letter, ncol in layout:
            conv = {"S": str, "R": float, "I": int, "L": lambda w: {"T": True, "F": False, "True": True, "False": False}[w]}[letter]
            table[name].append([conv(w) for w in words[p : p + ncol]])
            p += ncol
        assert p == len(words)
    return {"natom": natom, "pairs": pairs, "table": table, "rest": [ln for ln in lines[2 + natom :] if ln]}


def selfcheck(model, parsed):
    out = []
    natom = model["natom"]
    if parsed["natom"] != natom or parsed["rest"]:
        return ["natom"]
    pairs, table = parsed["pairs"], parsed["table"]
    tol = 1e-9

    def close(a, b):
        a, b = np.asarray(a, dtype=float), np.asarray(b, dtype=float)
        return a.shape == b.shape and bool(np.all(np.abs(a - b) <= tol * (1 + np.abs(b))))

    if ("Properties" in pairs) != model["has_properties"]:
        out.append("Properties")
    if not close(table["pos"], model["coords"]):
        out.append("pos")
    if "species" in table and [row[0] for row in table["species"]] != [C.NUM2SYM[int(z)] for z in model["atnums"]]:
        out.append("species")
    if "Z" in table and [row[0] for row in table["Z"]] != [int(z) for z in model["atnums"]]:
        out.append("Z")
    if ("species" in table, "Z" in table) != ("species" in model["element_columns"], "Z" in model["element_columns"]):
        out.append("element columns")
    if (model["masses"] is not None) != ("masses" in table) or (model["masses"] is not None and not close(np.ravel(table["masses"]), model["masses"])):
        out.append("masses")
    fname = model["forces_name"]
    if (model["forces"] is not None) != (fname in table) or (model["forces"] is not None and not close(table[fname], model["forces"])):
        out.append("forces")
    for name, data in model["user"].items():
        got = np.array(table[name]).reshape(np.shape(data))
        if COLUMN_KINDS[name][0] == "R":
            if not close(got, data):
                out.append(name)
        elif not np.array_equal(got, data):
            out.append(name)
    if (model["lattice"] is not None) != ("Lattice" in pairs) or (
        model["lattice"] is not None and not close(np.array(pairs["Lattice"].split(), dtype=float).reshape(3, 3), model["lattice"])
    ):
        out.append("Lattice")
    if (model["energy"] is not None) != ("energy" in pairs) or (model["energy"] is not None and not close(float(pairs["energy"]), model["energy"])):
        out.append("energy")
    if (model["charge"] is not None) != ("charge" in pairs) or (model["charge"] is not None and pairs["charge"] != model["charge"]):
        out.append("charge")
    if (model["pbc"] is not None) != ("pbc" in pairs) or (model["pbc"] is not None and [w == "T" for w in pairs["pbc"].split()] != model["pbc"]):
        out.append("pbc")
    for key, value in model["meta"].items():
        kind = META_KINDS[key]
        got = pairs.get(key)
        if kind == "bare":
            ok = got is True
        elif kind in ("int", "negint"):
            ok = int(got) == value
        elif kind in ("real", "real_exp"):
            ok = close(float(got), value)
        elif kind in ("bool", "bool_word"):
            ok = got in ("T", "True") if value else got in ("F", "False")
        elif kind in ("str", "str_boollike"):
            ok = got == value
        elif kind == "int_array":
            ok = [int(w) for w in got.split()] == value
        else:
            ok = close([float(w) for w in got.split()], value)
        if not ok:
            out.append(key)
    known = {"Lattice", "Properties", "energy", "charge", "pbc"} | set(model["meta"])
    if set(pairs) - known:
        out.append("unexpected keys")
    return out


def numeric_fields(model):
    out = [(0, 0, len(str(model["natom"])), "natom")]
    letters = []
    for name, letter, ncol, _ in model["columns"]:
        letters += [(name, letter)] * ncol
    for i, line in enumerate(atom_lines(model)):
        for (name, letter), m in zip(letters, re.finditer(r"\S+", line)):
            if letter in "RI":
                out.append((2 + i, m.start(), m.end(), name))
    return out
