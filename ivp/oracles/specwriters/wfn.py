"""Spec writer for AIMPAC wavefunction files (WFN), incl. the Multiwfn $MOSPIN extension.

Layout (AIMPAC, subroutine RDPSI; Fortran formats):

  title                                                              (A80)
  'GAUSSIAN' nmo 'MOL ORBITALS' nprim 'PRIMITIVES' natom 'NUCLEI'    (16X,I7,13X,I7,11X,I9)
       (AIMPAC itself reads (4X,A4,10X,3(I5,15X)): the counts END in columns 23, 43, 63)
  one line per nucleus: name, '(CENTRE', n, ')', x y z [bohr], 'CHARGE =', Z
                                                                     (A8,11X,I3,2X,3F12.8,10X,F5.1)
  CENTRE ASSIGNMENTS  centre of every primitive, 20 per line          (20X,20I3)
  TYPE ASSIGNMENTS    type of every primitive, 20 per line            (20X,20I3)
  EXPONENTS           exponent of every primitive, 5 per line         (10X,5E14.7), D or E
  per orbital:  'MO' n ... 'OCC NO =' occ 'ORB. ENERGY =' e           (35X,F12.8,15X,F12.8)
                (Gaussian: 'MO',I5,5X,'MO 0.0',8X,'OCC NO =',F13.7,'  ORB. ENERGY =',F12.6;
                 both end the fields in columns 47 and 74)
                coefficients of the primitives, 5 per line            (5E16.8), D or E
  END DATA
  total energy and virial ratio                                       (17X,F20.12,18X,F13.8)
  optional (Multiwfn): ' $MOSPIN $END' followed by the spin type of every orbital (40I2):
                1 alpha, 2 beta, 3 alpha and beta

Primitive types (AIMPAC / AIMAll numbering): 1 S; 2-4 PX PY PZ; 5-10 DXX DYY DZZ DXY DXZ DYZ;
11-20 FXXX FYYY FZZZ FXXY FXXZ FYYZ FXYY FXZZ FYZZ FXYZ; 21-35 GXXXX GYYYY GZZZZ GXXXY GXXXZ
GXYYY GYYYZ GXZZZ GYZZZ GXXYY GXXZZ GYYZZ GXXYZ GXYYZ GXYZZ; 36-56 HZZZZZ HYZZZZ HYYZZZ HYYYZZ
HYYYYZ HYYYYY HXZZZZ HXYZZZ HXYYZZ HXYYYZ HXYYYY HXXZZZ HXXYZZ HXXYYZ HXXYYY HXXXZZ HXXXYZ
HXXXYY HXXXXZ HXXXXY HXXXXX.

The coefficients refer to UN-normalised Cartesian primitives x^nx y^ny z^nz exp(-a r^2): the
printed number is (orbital coefficient) x (contraction coefficient) x N(a, nx, ny, nz).
Primitives of a contracted shell are listed either function after function (all x functions,
then all y ..., as Gaussian does) or primitive after primitive.

The truth is stated for the *primitives* (the file knows nothing about contractions): one shell
per primitive, coefficient = printed number / N.
"""

from __future__ import annotations

import math

import numpy as np
from hypothesis import strategies as st

from . import common as C
from . import fchk as WF  # the shared random wavefunction model lives there

FORMAT = "wfn"
FILENAME = "model.wfn"
LOAD_MANY = False

TYPE_NAMES = (
    "S PX PY PZ DXX DYY DZZ DXY DXZ DYZ "
    "FXXX FYYY FZZZ FXXY FXXZ FYYZ FXYY FXZZ FYZZ FXYZ "
    "GXXXX GYYYY GZZZZ GXXXY GXXXZ GXYYY GYYYZ GXZZZ GYZZZ GXXYY GXXZZ GYYZZ GXXYZ GXYYZ GXYZZ "
    "HZZZZZ HYZZZZ HYYZZZ HYYYZZ HYYYYZ HYYYYY HXZZZZ HXYZZZ HXYYZZ HXYYYZ HXYYYY HXXZZZ HXXYZZ "
    "HXXYYZ HXXYYY HXXXZZ HXXXYZ HXXXYY HXXXXZ HXXXXY HXXXXX"
).split()
assert len(TYPE_NAMES) == 56


def _label(name):
    body = name[1:].lower()
    return body if body else "1"


TYPE_LABELS = [_label(name) for name in TYPE_NAMES]  # index = type code - 1
CODE_OF = {lab: i + 1 for i, lab in enumerate(TYPE_LABELS)}
CONV = {(ell, "c"): [lab for lab in TYPE_LABELS if (0 if lab == "1" else len(lab)) == ell] for ell in range(6)}
# the order in which Gaussian lists the functions of a shell (see fchk.py)
GAUSSIAN_ORDER = {ell: WF.CONV[(ell, "c")] for ell in range(6)}


def powers(label):
    return (0, 0, 0) if label == "1" else (label.count("x"), label.count("y"), label.count("z"))


def _fac2(n):
    out = 1
    while n > 1:
        out *= n
        n -= 2
    return out


def norm(alpha, label):
    """N(alpha, nx, ny, nz) of docs/basis.rst."""
    nx, ny, nz = powers(label)
    return math.sqrt(
        (2 * alpha / math.pi) ** 1.5 * (4 * alpha) ** (nx + ny + nz) / (_fac2(2 * nx - 1) * _fac2(2 * ny - 1) * _fac2(2 * nz - 1))
    )


# ----------------------------------------------------------------------------------------------
# numbers as printed
# ----------------------------------------------------------------------------------------------


def fortran_d(value, width, ndec, letter="D"):
    """Fortran Dw.d / Ew.d without scale factor: 0.ddddddd D+ee."""
    if value == 0:
        text = "0." + "0" * ndec + letter + "+00"
    else:
        mant, expo = f"{abs(value):.{ndec - 1}E}".split("E")
        digits = mant.replace(".", "")
        text = ("-" if value < 0 else "") + "0." + digits + letter + f"{int(expo) + 1:+03d}"
    return text.rjust(width)


def sig(value, ndigits):
    return float(f"{float(value):.{ndigits - 1}E}")


STYLES = {
    # name: exponent digits, coefficient digits, printers
    "gaussian": {"exp_sig": 7, "coef_sig": 8, "occ_dec": 7, "ene_dec": 6},
    "gamess": {"exp_sig": 8, "coef_sig": 9, "occ_dec": 8, "ene_dec": 8},
}


def st_model(big):
    return st.fixed_dictionaries(
        {
            "seed": st.integers(0, 2**32 - 1),
            "wf": WF.st_wf(cart_lmax=5, pure_lmax=0, sp=True, ecp=True),
            "title": C.st_title(1, 70),
            "style": st.sampled_from(["gaussian", "gaussian", "gamess"]),
            "names": st.sampled_from(["g09", "g09", "upper", "aimall"]),
            "prim_order": st.sampled_from(["function_major", "function_major", "primitive_major"]),
            "type_order": st.sampled_from(["aimpac", "gaussian", "gaussian", "lexical"]),
            "occupations": st.sampled_from(["scf", "scf", "natural"]),
            "mospin": st.sampled_from([False, False, True]),
            "mospin_blank": st.booleans(),
            "chain": st.sampled_from([0] * 11 + [97, 99, 104]),
            "deep_core": st.sampled_from([False, False, False, True]),
            "max_nbasis": st.sampled_from([45, 60] if big else [30, 40]),
        }
    )


def expand(wf, cmat, prim_order, type_order, coef_sig):
    """Primitive list in file order, printed coefficients and the truth for the primitives.

    Returns (prims, printed, tbasis, tcoeffs); prims holds tuples (centre, label, alpha,
    row of the contracted function, D*N, row in the truth); printed is (nprim, nmo).
    """
    prims = []
    tshells = []
    row = 0
    trow = 0
    for sh in wf["shells"]:
        parts = WF.shell_parts(sh["code"])
        for ipart, (ell, _kind) in enumerate(parts):
            labels_std = CONV[(ell, "c")]
            if type_order == "aimpac":
                order = labels_std
            elif type_order == "gaussian":
                order = GAUSSIAN_ORDER[ell]
            else:
                order = WF.lexical(ell) if ell else ["1"]
            nprim = len(sh["exps"])
            first = trow
            for k in range(nprim):
                tshells.append(
                    {"icenter": sh["icenter"], "angmoms": [ell], "kinds": ["c"], "exponents": np.array([sh["exps"][k]]), "coeffs": np.array([[1.0]])}
                )
            if prim_order == "function_major":
                pairs = [(lab, k) for lab in order for k in range(nprim)]
            else:
                pairs = [(lab, k) for k in range(nprim) for lab in order]
            for lab, k in pairs:
                alpha = float(sh["exps"][k])
                prims.append(
                    (sh["icenter"], lab, alpha, row + labels_std.index(lab), float(sh["coefs"][k, ipart]) * norm(alpha, lab),
                     first + k * len(labels_std) + labels_std.index(lab))
                )
            row += len(labels_std)
            trow += nprim * len(labels_std)
    nprim = len(prims)
    factors = np.array([p[4] for p in prims])
    rows = np.array([p[3] for p in prims])
    printed = cmat[rows, :] * factors[:, None]
    printed = np.array([sig(v, coef_sig) for v in printed.ravel()]).reshape(nprim, cmat.shape[1])
    tcoeffs = np.zeros((trow, cmat.shape[1]))
    for j, p in enumerate(prims):
        tcoeffs[p[5]] = printed[j] / norm(p[2], p[1])
    tbasis = {"centers": wf["coords"].copy(), "shells": tshells, "conventions": CONV}
    return prims, printed, tbasis, tcoeffs


def build(spec):
    style = STYLES[spec["style"]]
    wf = WF.build_wf(
        spec["wf"], spec["seed"], CONV, lambda v: round(min(max(float(v), -99.5), 999.5), 8), lambda a: sig(a, style["exp_sig"]),
        lambda d: float(d), spec["max_nbasis"], chain=spec["chain"],
    )
    rng = wf["rng"]
    kind = wf["kind"]
    na, nb = wf["na"], wf["nb"]
    norba, norbb = wf["norba"], wf["norbb"]
    natural = spec["occupations"] == "natural"
    if kind == "uhf":
        if spec["wf"]["virtuals"] == "none":
            norbb = nb  # occupied orbitals only: different numbers of alpha and beta orbitals
        elif spec["wf"]["diff_ab"] and norbb - 1 >= max(nb, 1):
            norbb -= 1
        cmat = np.concatenate([wf["ca"][:, :norba], wf["cb"][:, :norbb]], axis=1)
        ene = np.concatenate([wf["ea"][:norba], wf["eb"][:norbb]])
        if natural:
            occ = np.concatenate([np.sort(rng.uniform(0.001, 0.999, size=norba))[::-1], np.sort(rng.uniform(0.001, 0.999, size=norbb))[::-1]])
        else:
            occ = np.concatenate([np.arange(norba) < na, np.arange(norbb) < nb]).astype(float)
        spins = [1] * norba + [2] * norbb
    else:
        cmat = wf["ca"][:, :norba]
        ene = wf["ea"][:norba]
        if natural:
            occ = np.sort(rng.uniform(0.001, 1.999, size=norba))[::-1]
            if norba >= 1:
                occ[0] = max(occ[0], 1.2)  # a restricted set of natural orbitals shows itself by an occupation > 1
        else:
            occ = (np.arange(norba) < na).astype(float) + (np.arange(norba) < nb).astype(float)
        spins = [1 if v == 1.0 and not natural else 3 for v in occ]
    occ = np.round(occ, style["occ_dec"])
    ene = np.clip(ene, -90, 90)
    if spec["deep_core"]:
        # an orbital energy that fills its field: F12.6 / F12.8
        ene[0] = -1234.5 - rng.random() if spec["style"] == "gaussian" else -98.5 - rng.random()
    ene = np.round(ene, style["ene_dec"])
    prims, printed, tbasis, tcoeffs = expand(wf, cmat, spec["prim_order"], spec["type_order"], style["coef_sig"])
    return {
        "wf": wf, "title": spec["title"], "style": spec["style"], "names": spec["names"],
        "prim_order": spec["prim_order"], "type_order": spec["type_order"], "natural": natural,
        "mospin": spec["mospin"], "mospin_blank": spec["mospin_blank"], "spins": spins,
        "kind": kind, "norba": norba, "norbb": norbb if kind == "uhf" else norba,
        "occ": occ, "ene": ene, "prims": prims, "printed": printed, "tbasis": tbasis, "tcoeffs": tcoeffs,
        "energy": round(float(-abs(rng.normal()) * 120 - 0.4), 10),
        "virial": round(float(2 + rng.normal() * 0.01), 8),
        "energy_line": "aldet" if natural and spec["style"] == "gaussian" else spec["style"],
        "deep_core": spec["deep_core"],
    }


# ----------------------------------------------------------------------------------------------
# writing
# ----------------------------------------------------------------------------------------------


def atom_name(model, i):
    sym = C.NUM2SYM[int(model["wf"]["atnums"][i])]
    if model["names"] == "aimall":
        return f"{sym}{i + 1}".ljust(8)
    if model["names"] == "upper":
        sym = sym.upper()
    return f"  {sym:<2s}{i + 1:4d}"


def write(model):
    wf = model["wf"]
    style = model["style"]
    prims = model["prims"]
    nmo = model["printed"].shape[1]
    word = "GAUSSIAN" if style == "gaussian" else "GTO"
    lines = [" " + model["title"]]
    lines.append(f"{word:<16s}{nmo:7d} MOL ORBITALS{len(prims):7d} PRIMITIVES{wf['natom']:9d} NUCLEI")
    for i in range(wf["natom"]):
        x, y, z = wf["coords"][i]
        name = atom_name(model, i)
        assert len(name) == 8
        lines.append(f"{name}    (CENTRE{i + 1:3d}) {x:12.8f}{y:12.8f}{z:12.8f}  CHARGE ={wf['atcore'][i]:5.1f}")
    lines += ["CENTRE ASSIGNMENTS  " + row for row in C.wrap([p[0] + 1 for p in prims], 20, lambda v: f"{v:3d}")]
    lines += ["TYPE ASSIGNMENTS    " + row for row in C.wrap([CODE_OF[p[1]] for p in prims], 20, lambda v: f"{v:3d}")]
    if style == "gaussian":
        fexp = lambda v: fortran_d(v, 14, 7)  # noqa: E731
        fcoef = lambda v: fortran_d(v, 16, 8)  # noqa: E731
    else:
        fexp = lambda v: f"{v:14.7E}"  # noqa: E731
        fcoef = lambda v: f"{v:16.8E}"  # noqa: E731
    lines += ["EXPONENTS " + row for row in C.wrap([p[2] for p in prims], 5, fexp)]
    for imo in range(nmo):
        occ, ene = model["occ"][imo], model["ene"][imo]
        if style == "gaussian":
            lines.append(f"MO{imo + 1:5d}     MO 0.0        OCC NO ={occ:13.7f}  ORB. ENERGY ={ene:12.6f}")
        else:
            lines.append(f"MO{imo + 1:4d}" + " " * 20 + f"OCC NO = {occ:12.8f}  ORB. ENERGY ={ene:12.8f}")
        lines += C.wrap(model["printed"][:, imo], 5, fcoef)
    lines.append("END DATA")
    kind = model["energy_line"]
    if kind == "gaussian":
        lines.append(f" TOTAL ENERGY =  {model['energy']:20.12f} THE VIRIAL(-V/T)={model['virial']:13.8f}")
    elif kind == "gamess":
        lines.append(f" THE SCF ENERGY ={model['energy']:20.12f} THE VIRIAL(-V/T)={model['virial']:13.8f}")
    else:
        lines.append(f"ALDET    ENERGY ={model['energy']:20.10f}   VIRIAL(-V/T)  ={model['virial']:13.8f}")
    if model["mospin"]:
        lines.append(" $MOSPIN $END")
        if model["mospin_blank"]:
            lines.append("")
        lines += C.wrap(model["spins"], 40, lambda v: f"{v:2d}")
    return "\n".join(lines) + "\n"


# ----------------------------------------------------------------------------------------------
# what a reader must return
# ----------------------------------------------------------------------------------------------


def digits_of(model):
    style = STYLES[model["style"]]
    return {
        "coord": 5.1e-9, "exp_rel": 5.1 * 10.0 ** -style["exp_sig"], "coef_rel": 5.1 * 10.0 ** -style["coef_sig"],
        "occ": 0.51 * 10.0 ** -style["occ_dec"], "ene": 0.51 * 10.0 ** -style["ene_dec"], "core": None,
    }


def truth_of(model):
    wf = model["wf"]
    # with $MOSPIN a restricted-open set without any doubly occupied / virtual orbital (type 3)
    # is, in the file, nothing but a set of alpha orbitals
    restricted = model["kind"] != "uhf" and not (model["mospin"] and 3 not in model["spins"])
    norbb = model["norbb"] if (restricted or model["kind"] == "uhf") else 0
    mo = {
        "kind": "restricted" if restricted else "unrestricted",
        "norba": model["norba"], "norbb": norbb, "occs": model["occ"], "coeffs": model["tcoeffs"],
        "energies": model["ene"], "irreps": None, "occs_aminusb": None,
    }
    ambiguous = (not model["mospin"]) and float(model["occ"].max()) <= 1.0
    return {
        "atnums": wf["atnums"], "atcorenums": wf["atnums"].astype(float), "centers": wf["coords"],
        "basis": model["tbasis"], "mo": mo, "one_rdms": {}, "ambiguous_spin": ambiguous,
    }


def expected(model):
    wf = model["wf"]
    exp = {
        ("__wavefunction__",): (truth_of(model), "wavefunction", digits_of(model)),
        ("title",): (model["title"].strip(), "exact", 0),
        ("atnums",): (wf["atnums"], "exact", 0),
        ("atcoords",): (wf["coords"], "abs", 1e-12),
        ("energy",): (model["energy"], "abs", 1e-12),
        ("extra", "virial_ratio"): (model["virial"], "abs", 1e-12),
    }
    if model["mospin"]:
        exp[("extra", "mo_spin")] = (np.array(model["spins"]), "exact", 0)
    else:
        exp[("extra", "mo_spin")] = (None, "absent", 0)
    return exp


def labels(spec, model):
    out = WF.wf_labels(spec["wf"], model["wf"])
    nprim = len(model["prims"])
    out += [f"style:{model['style']}", f"names:{model['names']}", f"prims:{model['prim_order']}", f"types:{model['type_order']}"]
    if nprim > 20:
        out.append("nprim>20")
    if nprim > 99:
        out.append("nprim>99")
    if nprim % 20:
        out.append("ragged_assignment_line")
    if nprim % 5:
        out.append("ragged_5_per_line")
    if model["style"] == "gaussian":
        out.append("fortran_D_exponents")
    if model["natural"]:
        out.append("natural_occupations")
    if model["mospin"]:
        out.append("mospin")
    if model["kind"] == "uhf" and model["norba"] != model["norbb"]:
        out.append("norba!=norbb")
    if model["wf"]["norba"] == model["wf"]["na"]:
        out.append("no_virtuals")
    if model["wf"]["natom"] >= 100:
        out.append("natom>=100")
    if model["deep_core"]:
        out.append("orbital_energy_fills_field")
    if model["energy_line"] == "aldet":
        out.append("energy_line_F20.10")
    lmax = max(0 if p[1] == "1" else len(p[1]) for p in model["prims"])
    if lmax >= 3 and model["type_order"] != "aimpac":
        out.append("type_codes_not_ascending")
    return out


def core(spec, model):
    # AIMPAC order and Gaussian's order occur in the fixtures; a third order of the explicit type
    # codes is legal (every primitive names its type) but nowhere promised
    return model["type_order"] != "lexical"


# ----------------------------------------------------------------------------------------------
# independent re-parser
# ----------------------------------------------------------------------------------------------


def _num(word):
    return float(word.replace("D", "E").replace("d", "e"))


def selfparse(text):
    lines = text.split("\n")
    head = lines[1]
    nmo, nprim, natom = int(head[16:23]), int(head[36:43]), int(head[54:63])
    atoms = []
    for line in lines[2 : 2 + natom]:
        atoms.append((line[:8], int(line[19:22]), [float(line[24 + 12 * k : 36 + 12 * k]) for k in range(3)], float(line[70:75])))
    pos = 2 + natom
    sections = {}
    for key, skip, width, conv in (("CENTRE", 20, 3, int), ("TYPE", 20, 3, int), ("EXPONENTS", 10, 14, _num)):
        values = []
        while len(values) < nprim:
            line = lines[pos]
            assert line.startswith(key), (key, line)
            body = line[skip:]
            values += [conv(body[i : i + width]) for i in range(0, len(body), width)]
            pos += 1
        sections[key] = values
    mos = []
    for _ in range(nmo):
        line = lines[pos]
        pos += 1
        assert line.startswith("MO"), line
        occ, ene = float(line[35:47]), float(line[62:74])
        values = []
        while len(values) < nprim:
            body = lines[pos]
            values += [_num(body[i : i + 16]) for i in range(0, len(body), 16)]
            pos += 1
        mos.append((int(line[2:7]), occ, ene, values))
    assert lines[pos].startswith("END DATA"), lines[pos]
    eline = lines[pos + 1]
    energy, virial = float(eline[17:37]), float(eline[55:68])
    spins = None
    rest = lines[pos + 2 :]
    for i, line in enumerate(rest):
        if "$MOSPIN" in line:
            spins = [int(w) for row in rest[i + 1 :] for w in row.split()]
    return {"nmo": nmo, "nprim": nprim, "natom": natom, "atoms": atoms, "sections": sections, "mos": mos,
            "energy": energy, "virial": virial, "spins": spins, "title": lines[0]}


def selfcheck(model, parsed):
    wf = model["wf"]
    out = []
    prims = model["prims"]
    if parsed["title"].strip() != model["title"].strip():
        out.append("title")
    if (parsed["nmo"], parsed["nprim"], parsed["natom"]) != (model["printed"].shape[1], len(prims), wf["natom"]):
        out.append("counts")
    for i, (name, centre, xyz, charge) in enumerate(parsed["atoms"]):
        sym = "".join(ch for ch in name.strip() if ch.isalpha()).title()
        if C.SYM2NUM.get(sym) != wf["atnums"][i] or centre != i + 1 or np.abs(np.array(xyz) - wf["coords"][i]).max() > 1e-12 or abs(charge - wf["atcore"][i]) > 1e-12:
            out.append(f"atom {i}")
            break
    sec = parsed["sections"]
    if sec["CENTRE"] != [p[0] + 1 for p in prims]:
        out.append("centres")
    if [TYPE_LABELS[t - 1] for t in sec["TYPE"]] != [p[1] for p in prims]:
        out.append("types")
    if not np.allclose(sec["EXPONENTS"], [p[2] for p in prims], rtol=1e-14, atol=0):
        out.append("exponents")
    for imo, (number, occ, ene, values) in enumerate(parsed["mos"]):
        if number != imo + 1 or abs(occ - model["occ"][imo]) > 1e-12 or abs(ene - model["ene"][imo]) > 1e-12:
            out.append(f"mo header {imo}")
            break
        if not np.allclose(values, model["printed"][:, imo], rtol=1e-14, atol=0):
            out.append(f"mo coefficients {imo}")
            break
    if abs(parsed["energy"] - model["energy"]) > 1e-11 or abs(parsed["virial"] - model["virial"]) > 1e-12:
        out.append("energy line")
    if (parsed["spins"] is not None) != model["mospin"] or (model["mospin"] and parsed["spins"] != model["spins"]):
        out.append("mospin")
    return out
