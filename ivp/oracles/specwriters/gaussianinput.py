"""Spec writer for Gaussian input files (.com / .gjf; Gaussian 16 user's reference, "Gaussian input").

  Link 0 commands     lines starting with "%" (optional)
  route section       starts with "#" ("#", "#N", "#P", "#T"), may span several lines, ends with a blank line
  title section       one to five lines, ends with a blank line
  molecule spec       first line: charge and spin multiplicity; then one line per atom
                          element-label[-atom-type[-charge]] [freeze-code] x y z        (Cartesian)
                      in angstrom (in bohr when the route contains Units=AU); ends with a blank line
  further sections    (basis sets, ModRedundant, ...) separated by blank lines

Input is free format and case insensitive; items are separated by spaces, tabs or commas.  The
element label is the chemical symbol or the atomic number; a symbol may be followed by further
alphanumeric characters to make a label ("C1", "H12"), and by parameters in parentheses
("O(Fragment=1)").  Text after "!" is a comment.
"""

from __future__ import annotations

import re

import numpy as np
from hypothesis import strategies as st

from .. import units as U
from . import common as C

FORMAT = "gaussianinput"
FILENAME = "model.com"
LOAD_MANY = False


def st_model(big):
    return st.fixed_dictionaries(
        {
            "natom": C.st_natom(12000, big),
            "seed": st.integers(0, 2**32 - 1),
            "coord_cls": st.sampled_from(C.COORD_CLASSES),
            "decimals": st.sampled_from([6, 6, 8, 10, 3]),
            "nlink0": st.sampled_from([0, 1, 1, 3]),
            "route_lines": st.sampled_from([1, 1, 2, 3]),
            "route_prefix": st.sampled_from(["#", "#n", "#P", "#T", "# "]),
            "titles": st.lists(C.st_title(1, 50).filter(lambda t: "!" not in t), min_size=1, max_size=3),
            "charge_mult": st.sampled_from(["0 1", "0 1", "0,1", "-1 2", " 1  3"]),
            "symbol_style": st.sampled_from(["symbol"] * 15 + ["upper", "lower", "number", "labelled", "fragment"]),
            "atom_format": st.sampled_from(["xyz"] * 11 + ["freeze_code"]),
            "sep": st.sampled_from(["spaces"] * 5 + ["single"] * 2 + ["tab"] * 2 + ["comma"]),
            "number_style": st.sampled_from(["fixed", "fixed", "fixed", "exp"]),
            "units": st.sampled_from(["angstrom"] * 11 + ["au"]),
            "tail": st.sampled_from(["none", "none", "basis_section"]),
            "comments": st.sampled_from([False] * 11 + [True]),
            "elements": st.sampled_from(["all", "light", "two_letter"]),
        }
    )


def build(spec):
    rng = C.rng_of(spec)
    natom = int(spec["natom"])
    return {
        "natom": natom,
        "atnums": C.atnums(rng, natom, spec["elements"]),
        "coords": C.coords(rng, natom, spec["coord_cls"], -9999.0, 99999.0, int(spec["decimals"])),
        "decimals": int(spec["decimals"]),
        "link0": ["%chk=model.chk", "%mem=16000MB", "%NProcShared=8"][: int(spec["nlink0"])],
        "route": [spec["route_prefix"] + " hf/sto-3g", "sp scf=tight", "nosymm"][: int(spec["route_lines"])],
        "titles": list(spec["titles"]),
        "charge_mult": spec["charge_mult"],
        "symbol_style": spec["symbol_style"],
        "atom_format": spec["atom_format"],
        "freeze": [int(v) for v in rng.choice([0, -1], size=natom)],
        "fragment": [int(v) for v in rng.integers(1, 3, size=natom)],
        "sep": spec["sep"],
        "number_style": spec["number_style"],
        "units": spec["units"],
        "tail": spec["tail"],
        "comments": bool(spec["comments"]),
    }


def _label(model, i):
    z = int(model["atnums"][i])
    sym = C.NUM2SYM[z]
    style = model["symbol_style"]
    if style == "upper":
        return sym.upper()
    if style == "lower":
        return sym.lower()
    if style == "number":
        return str(z)
    if style == "labelled":
        return f"{sym}{i + 1}"
    if style == "fragment":
        return f"{sym}(Fragment={model['fragment'][i]})"
    return sym


def _real(model, x):
    d = model["decimals"]
    if model["number_style"] == "exp":
        return f"{x:.{d + 6}E}"
    return f"{x:.{d}f}"


def atom_lines(model):
    sep = {"spaces": "   ", "single": " ", "tab": "\t", "comma": ","}[model["sep"]]
    out = []
    for i in range(model["natom"]):
        fields = [_label(model, i)]
        if model["atom_format"] == "freeze_code":
            fields.append(str(model["freeze"][i]))
        fields += [_real(model, v) for v in model["coords"][i]]
        if model["sep"] == "spaces":
            out.append(f"{fields[0]:<4s}" + "".join(f" {f:>16s}" for f in fields[1:]))
        else:
            out.append(sep.join(fields))
    return out


def frame_lines(model):
    lines = []
    if model["comments"]:
        lines.append("! input written for a reader test")
    lines += model["link0"]
    route = list(model["route"])
    if model["units"] == "au":
        route[-1] += " units=au"
    lines += route
    lines.append("")
    lines += model["titles"]
    lines.append("")
    lines.append(model["charge_mult"])
    atoms = atom_lines(model)
    if model["comments"]:
        atoms[0] += " ! first atom"
    lines += atoms
    lines.append("")
    if model["tail"] == "basis_section":
        lines += ["@basis.gbs", ""]
    return lines


def write(model):
    return "\n".join(frame_lines(model)) + "\n"


def expected(model):
    unit = U.angstrom if model["units"] == "angstrom" else 1.0
    return {
        ("title",): (" ".join(t.strip() for t in model["titles"]), "exact", 0),
        ("atnums",): (np.asarray(model["atnums"]), "exact", 0),
        ("atcoords",): (model["coords"] * unit, "abs", 0.5 * 10.0 ** -model["decimals"] * unit),
    }


def labels(spec, model):
    out = [
        f"coords:{spec['coord_cls']}", f"symbols:{model['symbol_style']}", f"sep:{model['sep']}",
        f"numbers:{model['number_style']}", f"link0:{len(model['link0'])}", f"route_lines:{len(model['route'])}",
        f"title_lines:{len(model['titles'])}",
    ]
    for bound in (100, 1000, 10000):
        if model["natom"] >= bound:
            out.append(f"natom>={bound}")
    if model["atom_format"] == "freeze_code":
        out.append("freeze_code_column")
    if model["units"] == "au":
        out.append("units=au")
    if model["tail"] != "none":
        out.append("section_after_molecule")
    if model["comments"]:
        out.append("bang_comments")
    if "," in model["charge_mult"]:
        out.append("charge_mult_comma")
    return out


def core(spec, model):
    # what iodata's fixtures show: proper-case symbols, four white-space separated columns, angstrom
    return (
        model["symbol_style"] == "symbol" and model["atom_format"] == "xyz" and model["sep"] != "comma"
        and model["units"] == "angstrom" and not model["comments"]
    )


def selfparse(text):
    raw = [line.split("!")[0].rstrip() for line in text.split("\n")]
    if raw and text.split("\n")[0].startswith("!"):
        raw = raw[1:]
    k = 0
    link0 = []
    while raw[k].startswith("%"):
        link0.append(raw[k])
        k += 1
    sections = [[]]
    for line in raw[k:]:
        if line.strip():
            sections[-1].append(line)
        else:
            sections.append([])
    sections = [s for s in sections if s]
    route, titles, molecule = sections[0], sections[1], sections[2]
    atoms = []
    for line in molecule[1:]:
        words = [w for w in re.split(r"[\s,]+", line.strip()) if w]
        m = re.match(r"([A-Za-z]+|\d+)(\d*)(\(Fragment=(\d+)\))?$", words[0])
        head = m.group(1)
        z = int(head) if head.isdigit() else C.SYM2NUM[head.title()]
        atoms.append((z, words[0], [float(w) for w in words[-3:]], words[1:-3]))
    return {
        "link0": link0, "route": route, "titles": titles, "charge_mult": molecule[0], "atoms": atoms,
        "units_au": any("units=au" in r.lower() for r in route), "nsection": len(sections),
    }


def selfcheck(model, parsed):
    out = []
    if parsed["link0"] != model["link0"]:
        out.append("link0")
    if len(parsed["route"]) != len(model["route"]) or not parsed["route"][0].startswith("#"):
        out.append("route")
    if parsed["titles"] != model["titles"]:
        out.append("titles")
    if parsed["charge_mult"] != model["charge_mult"].rstrip():
        out.append("charge_mult")
    if parsed["units_au"] != (model["units"] == "au"):
        out.append("units")
    if parsed["nsection"] != 3 + (model["tail"] != "none"):
        out.append("sections")
    if len(parsed["atoms"]) != model["natom"]:
        return out + ["natom"]
    for i, (z, label, xyz, middle) in enumerate(parsed["atoms"]):
        ok = z == model["atnums"][i] and np.allclose(xyz, model["coords"][i], rtol=0, atol=1e-9 * (1 + abs(model["coords"][i]).max()))
        ok = ok and middle == ([str(model["freeze"][i])] if model["atom_format"] == "freeze_code" else [])
        if not ok:
            out.append(f"atom {i}")
            break
    return out


def numeric_fields(model):
    out = []
    lines = frame_lines(model)
    first = int(model["comments"]) + len(model["link0"]) + len(model["route"]) + 1 + len(model["titles"]) + 2
    assert lines[first - 1] == model["charge_mult"]
    skip = 1 + (model["atom_format"] == "freeze_code")
    for i in range(model["natom"]):
        line = lines[first + i].split("!")[0]
        for k, m in enumerate(re.finditer(r"[^\s,]+", line)):
            if k >= skip and k < skip + 3:
                out.append((first + i, m.start(), m.end(), "xyz"[k - skip]))
    return out
