"""Attribute-by-attribute comparison of an object with its save-then-reload image (C02, C15).

For every format a table lists the attributes the format stores (what the writer and the reader
both declare, plus a few the writer visibly prints), how to read them from an IOData object and
the tolerance that follows from the digits the writer prints (DESIGN.md appendix A).
"""

from __future__ import annotations

import numpy as np

from . import gaussians as G
from . import wfcompare as W

ANGSTROM = 1.8897261246257702
AMU = 1822.888486209


def get(obj, path):
    """Read ``a.b`` / ``a[key]`` paths; returns (found, value)."""
    cur = obj
    for part in path:
        if cur is None:
            return False, None
        if isinstance(cur, dict):
            if part not in cur:
                return False, None
            cur = cur[part]
        else:
            cur = getattr(cur, part, None)
    return (cur is not None), cur


def cmp_exact(a, b):
    if isinstance(a, (np.ndarray, list, tuple)) or isinstance(b, (np.ndarray, list, tuple)):
        a, b = np.asarray(a), np.asarray(b)
        return a.shape == b.shape and bool(np.all(a == b))
    return bool(a == b)


def cmp_tol(a, b, abs_tol=0.0, rel_tol=0.0):
    a, b = np.asarray(a, dtype=float), np.asarray(b, dtype=float)
    if a.shape != b.shape:
        return False
    return bool(np.all(np.abs(a - b) <= abs_tol + rel_tol * np.abs(a) + 1e-300))


def describe(a, b):
    try:
        a1, b1 = np.asarray(a), np.asarray(b)
        if a1.shape != b1.shape:
            return f"shape {a1.shape} -> {b1.shape}"
        if a1.dtype.kind in "fiub" and b1.dtype.kind in "fiub" and a1.size:
            diff = np.abs(a1.astype(float) - b1.astype(float))
            idx = np.unravel_index(np.argmax(diff), diff.shape) if diff.ndim else ()
            return f"max |diff| {diff.max():.3e} at {tuple(int(i) for i in idx)}: {a1[idx]!r} -> {b1[idx]!r}"
    except Exception:
        pass
    return f"{str(a)[:80]!r} -> {str(b)[:80]!r}"


# field tables: (name, path, mode, abs_tol, rel_tol)
E8 = 5.1e-9  # %16.8E
FIELDS = {
    "xyz": [
        ("atnums", ("atnums",), "exact", 0, 0),
        ("atcoords", ("atcoords",), "tol", 0.51e-10 * ANGSTROM, 1e-15),
        ("title", ("title",), "exact", 0, 0),
        ("atcharges.mulliken", ("atcharges", "mulliken"), "tol", 0.51e-5, 0),
        ("atcharges.hirshfeld", ("atcharges", "hirshfeld"), "tol", 0.51e-5, 0),
        ("extra.weights", ("extra", "weights"), "tol", 0.51e-5, 0),
        ("atgradient", ("atgradient",), "tol", 0.51e-10, 0),
        ("atmasses", ("atmasses",), "tol", 0.51e-6 * AMU, 1e-15),
    ],
    "pdb": [
        ("atnums", ("atnums",), "exact", 0, 0),
        ("atcoords", ("atcoords",), "tol", 0.51e-3 * ANGSTROM, 1e-15),
        ("title", ("title",), "exact", 0, 0),
        ("atffparams.attypes", ("atffparams", "attypes"), "exact", 0, 0),
        ("atffparams.restypes", ("atffparams", "restypes"), "exact", 0, 0),
        ("atffparams.resnums", ("atffparams", "resnums"), "exact", 0, 0),
        ("extra.occupancies", ("extra", "occupancies"), "tol", 0.0051, 0),
        ("extra.bfactors", ("extra", "bfactors"), "tol", 0.0051, 0),
        ("extra.chainids", ("extra", "chainids"), "exact", 0, 0),
        ("extra.compound", ("extra", "compound"), "exact", 0, 0),
        ("bonds", ("bonds",), "bondset", 0, 0),
    ],
    "mol2": [
        ("atnums", ("atnums",), "exact", 0, 0),
        ("atcoords", ("atcoords",), "tol", 0.51e-4 * ANGSTROM, 1e-15),
        ("title", ("title",), "exact", 0, 0),
        ("atcharges.mol2charges", ("atcharges", "mol2charges"), "tol", 0.51e-4, 0),
        ("atffparams.attypes", ("atffparams", "attypes"), "exact", 0, 0),
        ("bonds", ("bonds",), "bonds", 0, 0),
    ],
    "sdf": [
        ("atnums", ("atnums",), "exact", 0, 0),
        ("atcoords", ("atcoords",), "tol", 0.51e-4 * ANGSTROM, 1e-15),
        ("title", ("title",), "exact", 0, 0),
        ("bonds", ("bonds",), "bonds", 0, 0),
    ],
    "poscar": [
        ("atnums", ("atnums",), "exact", 0, 0),
        ("atcoords", ("atcoords",), "tol", 1e-9, 1e-12),
        ("cellvecs", ("cellvecs",), "tol", 1e-12, 1e-14),
        ("title", ("title",), "exact", 0, 0),
    ],
    "cube": [
        ("atnums", ("atnums",), "exact", 0, 0),
        ("atcoords", ("atcoords",), "tol", 0.51e-6, 0),
        ("atcorenums", ("atcorenums",), "tol", 0.51e-6, 0),
        ("title", ("title",), "exact", 0, 0),
        ("cube.origin", ("cube", "origin"), "tol", 0.51e-6, 0),
        ("cube.axes", ("cube", "axes"), "tol", 0.51e-6, 0),
        ("cube.data", ("cube", "data"), "tol", 0, 5.1e-6),
    ],
    "fcidump": [
        ("one_ints.core_mo", ("one_ints", "core_mo"), "exact", 0, 0),
        ("two_ints.two_mo", ("two_ints", "two_mo"), "exact", 0, 0),
        ("core_energy", ("core_energy",), "exact", 0, 0),
        ("nelec", ("nelec",), "exact", 0, 0),
        ("spinpol", ("spinpol",), "exact", 0, 0),
    ],
    "json_qcschema": [
        ("atnums", ("atnums",), "exact", 0, 0),
        ("atcoords", ("atcoords",), "exact", 0, 0),
        ("atcorenums", ("atcorenums",), "exact", 0, 0),
        ("charge", ("charge",), "exact", 0, 0),
        ("spinpol", ("spinpol",), "exact", 0, 0),
        ("title", ("title",), "exact", 0, 0),
        ("atmasses", ("atmasses",), "exact", 0, 0),
        ("bonds", ("bonds",), "bonds", 0, 0),
        ("g_rot", ("g_rot",), "exact", 0, 0),
        ("lot", ("lot",), "exact", 0, 0),
        ("obasis_name", ("obasis_name",), "exact", 0, 0),
        ("energy", ("energy",), "exact", 0, 0),
    ]
    + [(f"extra.molecule.{k}", ("extra", "molecule", k), "json", 0, 0)
       for k in ("comment", "atom_labels", "fix_com", "fix_orientation", "id", "extras",
                 "identifiers", "qcel_validated", "unparsed")]
    + [(f"extra.input.{k}", ("extra", "input", k), "json", 0, 0)
       for k in ("driver", "keywords", "extras", "id", "protocols")]
    + [(f"extra.output.{k}", ("extra", "output", k), "json", 0, 0)
       for k in ("return_result", "stdout", "stderr", "error")],
    "fchk": [
        ("title", ("title",), "exact", 0, 0),
        ("energy", ("energy",), "tol", 0, E8),
        ("lot", ("lot",), "exact", 0, 0),
        ("obasis_name", ("obasis_name",), "exact", 0, 0),
        ("run_type", ("run_type",), "exact", 0, 0),
        ("atgradient", ("atgradient",), "tol", 0, E8),
        ("athessian", ("athessian",), "tol", 0, E8),
        ("atmasses", ("atmasses",), "tol", 0, E8),
        ("atfrozen", ("atfrozen",), "exact", 0, 0),
        ("moments.dipole", ("moments", (1, "c")), "tol", 0, E8),
        ("moments.quadrupole", ("moments", (2, "c")), "tol", 0, E8),
        ("extra.polarizability_tensor", ("extra", "polarizability_tensor"), "tol", 0, E8),
    ]
    + [(f"atcharges.{k}", ("atcharges", k), "tol", 0, E8)
       for k in ("mulliken", "esp", "npa", "mbs", "hirshfeld", "cm5")]
    + [(f"one_rdms.{k}", ("one_rdms", k), "rdm", 0, 4 * E8)
       for k in ("scf", "scf_spin", "post_scf_ao", "post_scf_spin_ao")],
    "molden": [
        ("title", ("title",), "exact", 0, 0),
        ("mo.irreps", ("mo", "irreps"), "exact", 0, 0),
    ],
    "molekel": [
        ("atcharges.mulliken", ("atcharges", "mulliken"), "tol", 0.51e-6, 0),
        ("mo.irreps", ("mo", "irreps"), "exact", 0, 0),
    ],
    "wfn": [
        ("title", ("title",), "exact", 0, 0),
        ("energy", ("energy",), "tol", 0.51e-12, 0),
        ("extra.virial_ratio", ("extra", "virial_ratio"), "tol", 0.51e-8, 0),
        ("extra.mo_spin", ("extra", "mo_spin"), "exact", 0, 0),
    ],
    "wfx": [
        ("title", ("title",), "exact", 0, 0),
        ("energy", ("energy",), "tol", 0, 1e-13),
        ("atgradient", ("atgradient",), "tol", 0, 1e-13),
        ("extra.keywords", ("extra", "keywords"), "exact", 0, 0),
        ("extra.num_perturbations", ("extra", "num_perturbations"), "exact", 0, 0),
        ("extra.virial_ratio", ("extra", "virial_ratio"), "tol", 0, 1e-13),
        ("extra.nuc_viral", ("extra", "nuc_viral"), "tol", 0, 1e-13),
        ("extra.full_virial_ratio", ("extra", "full_virial_ratio"), "tol", 0, 1e-13),
        ("extra.num_core_electrons", ("extra", "num_core_electrons"), "exact", 0, 0),
    ],
}


def bond_set(bonds):
    return sorted({(min(int(i), int(j)), max(int(i), int(j))) for i, j in np.asarray(bonds)[:, :2]})


def signed_perm(plain, conv_new):
    """Reference signed permutation from plain['conventions'] to ``conv_new`` (see C10)."""
    perm, signs = [], []
    offset = 0
    for sh in plain["shells"]:
        for ell, kind in zip(sh["angmoms"], sh["kinds"]):
            old = plain["conventions"][(ell, kind)]
            new = conv_new[(ell, kind)]
            where = {}
            for i, lab in enumerate(old):
                s, name = G.parse_label(lab)
                where[name] = (i, s)
            for lab in new:
                s2, name = G.parse_label(lab)
                i, s1 = where[name]
                perm.append(offset + i)
                signs.append(s1 * s2)
            offset += len(old)
    return np.array(perm, dtype=int), np.array(signs, dtype=float)


def poscar_permutation(atnums):
    """Documented re-ordering: grouped by element, heaviest first, stable within an element."""
    atnums = np.asarray(atnums)
    order = []
    for z in sorted(set(atnums.tolist()), reverse=True):
        order += [int(i) for i in np.nonzero(atnums == z)[0]]
    return np.array(order, dtype=int)


def compare(fmt, orig, loaded, truth=None, seed=0):
    """Return [(bucket_suffix, message)] for every stored attribute that did not come back."""
    out = []
    perm = None
    if fmt == "poscar":
        perm = poscar_permutation(orig.atnums)
    for name, path, mode, abs_tol, rel_tol in FIELDS[fmt]:
        found, val = get(orig, path)
        if not found:
            continue
        if name in ("title",) and not val:
            continue
        found2, got = get(loaded, path)
        if name == "one_rdms.scf" and loaded.mo.kind == "restricted" and abs(loaded.mo.spinpol) > 0:
            continue  # the FCHK reader documents that it drops this matrix for ROHF
        if isinstance(val, np.ndarray) and perm is not None and name in ("atnums", "atcoords"):
            val = val[perm]
        if not found2:
            if mode in ("bonds", "bondset") and len(val) == 0:
                continue  # absent bonds == empty bond list
            out.append((name + "/missing", f"{name} was written but is absent after reload"))
            continue
        if mode == "exact":
            ok = cmp_exact(val, got)
        elif mode == "tol":
            ok = cmp_tol(val, got, abs_tol, rel_tol)
        elif mode == "bonds":
            a, b = np.asarray(val).reshape(-1, 3), np.asarray(got).reshape(-1, 3)
            ok = a.shape == b.shape and bool(np.all(a == b))
        elif mode == "bondset":
            ok = bond_set(val) == bond_set(got)
        elif mode == "json":
            ok = to_plain(val) == to_plain(got)
        elif mode == "rdm":
            if truth is None:
                continue
            bas1 = G.spec_from_iodata(loaded.obasis, loaded.atcoords)
            p, s = signed_perm(truth["basis"], bas1["conventions"])
            want = np.asarray(val)[p][:, p] * s[:, None] * s[None, :]
            ok = cmp_tol(want, got, 0, rel_tol)
            val = want
        else:
            raise ValueError(mode)
        if not ok:
            out.append((name, f"{name}: {describe(val, got)}"))
    if truth is not None:
        got_truth = W.truth_from_iodata(loaded)
        mo = truth["mo"]
        ambiguous = (
            fmt == "wfn"
            and (orig.extra or {}).get("mo_spin") is None
            and (float(np.max(mo["occs"])) <= 1.0 or mo["kind"] == "unrestricted")
        )
        for bucket, msg in W.compare(truth, got_truth, fmt, seed, "wf", ambiguous_spin=ambiguous):
            out.append((bucket, msg))
    return out


def to_plain(val):
    if isinstance(val, np.ndarray):
        return to_plain(val.tolist())
    if isinstance(val, np.generic):
        return val.item()
    if isinstance(val, dict):
        return {str(k): to_plain(v) for k, v in val.items()}
    if isinstance(val, (list, tuple)):
        return [to_plain(v) for v in val]
    return val
