"""Comparison of two wavefunctions *as functions of space* (uses oracle E only).

A "truth" is plain data:
  {"atnums", "atcorenums", "centers", "basis": plain basis spec, "mo": dict(kind, norba, norbb,
   occs, coeffs, energies, irreps, occs_aminusb), "one_rdms": {...} optional}
The other side is a loaded IOData object, read as plain data.
"""

from __future__ import annotations

import numpy as np

from ..gen import wf
from . import gaussians as G

# digits printed by iodata's writers (DESIGN.md appendix A)
#   coord: absolute rounding of a coordinate in bohr; exp_rel: relative rounding of exponents
#   coef: relative/absolute rounding of orbital coefficients; occ, ene: absolute roundings
ANGSTROM = 1.8897261246257702
FORMAT_DIGITS = {
    "fchk": {"coord_rel": 5.1e-9, "coord": 0.0, "exp_rel": 5.1e-9, "coef_rel": 5.1e-9, "occ": 0.0,
             "ene_rel": 5.1e-9, "ene": 0.0, "core_rel": 5.1e-9, "core": 0.0},
    "molden": {"coord": 1e-15, "exp_abs": 5.1e-11, "coef_rel": 1e-15, "occ": 1e-15, "ene_rel": 1e-15,
               "ene": 0.0, "core": 0.51},
    "molekel": {"coord": 0.51e-6 * ANGSTROM, "exp_abs": 5.1e-11, "con_abs": 5.1e-11,
                "coef_abs": 5.1e-13, "occ": 5.1e-13, "ene": 5.1e-13, "core": None},
    "wfn": {"coord": 5.1e-9, "exp_rel": 5.1e-8, "coef_rel": 5.1e-9, "occ": 5.1e-8, "ene": 5.1e-7,
            "core": None},
    "wfx": {"coord_rel": 1e-14, "coord": 0.0, "exp_rel": 1e-14, "coef_rel": 1e-14, "occ": 1e-13,
            "ene_rel": 1e-13, "ene": 0.0, "core_rel": 1e-13, "core": 0.0},
}


def value_tolerance(fmt, plain):
    """(k_rel, con_abs, coef_abs, dcoord): bound on the change of an orbital value by rounding.

    |psi' - psi| <= sum_mu |C_mu| (k_rel |phi_mu|_abs + |phi_mu|_abs[D := con_abs]
                                   + dcoord |grad phi_mu|_abs)
                    + coef_abs sum_mu |phi_mu|_abs + 1e-10
    (the gradient term matters near the nodal planes of tight functions, where the relative
    change of a function under a coordinate rounding is unbounded)
    """
    dig = FORMAT_DIGITS[fmt]
    exps = np.concatenate([np.asarray(sh["exponents"], dtype=float) for sh in plain["shells"]])
    amax, amin = exps.max(), exps.min()
    cmax = np.abs(np.asarray(plain["centers"])).max() if len(plain["centers"]) else 0.0
    dcoord = dig.get("coord", 0.0) + dig.get("coord_rel", 0.0) * cmax
    eps_exp = dig.get("exp_rel", 0.0) + dig.get("exp_abs", 0.0) / amin
    del eps_exp, amax
    k = 4 * dig.get("coef_rel", 0.0)
    con_abs = dig.get("con_abs", dig.get("exp_abs", 0.0))
    return 4 * k + 1e-12, 4 * con_abs, 4 * dig.get("coef_abs", 0.0), 2 * dcoord


def mo_from_iodata(mo):
    return {
        "kind": mo.kind,
        "norba": mo.norba,
        "norbb": mo.norbb,
        "occs": None if mo.occs is None else np.array(mo.occs, dtype=float),
        "coeffs": None if mo.coeffs is None else np.array(mo.coeffs, dtype=float),
        "energies": None if mo.energies is None else np.array(mo.energies, dtype=float),
        "irreps": None if mo.irreps is None else np.array(mo.irreps),
        "occs_aminusb": None if mo.occs_aminusb is None else np.array(mo.occs_aminusb, dtype=float),
    }


def truth_from_iodata(data):
    """Plain-data description of a loaded / given IOData wavefunction object."""
    atcorenums = object.__getattribute__(data, "_atcorenums")
    if atcorenums is None:
        atcorenums = np.array(data.atnums, dtype=float)
    return {
        "atnums": np.array(data.atnums),
        "atcorenums": np.array(atcorenums, dtype=float),
        "centers": np.array(data.atcoords, dtype=float),
        "basis": G.spec_from_iodata(data.obasis, data.atcoords),
        "mo": mo_from_iodata(data.mo),
        "one_rdms": {k: np.array(v) for k, v in data.one_rdms.items()},
    }


def spin_sets(mo):
    """[(label, coeffs, occs, energies)] for alpha and beta, following the documented rules."""
    occsa, occsb = (None, None) if mo["occs"] is None else wf.spin_occupations(mo)
    if mo["kind"] == "restricted":
        return [
            ("alpha", mo["coeffs"], occsa, mo["energies"]),
            ("beta", mo["coeffs"], occsb, mo["energies"]),
        ]
    na = mo["norba"]
    ene = mo["energies"]
    return [
        ("alpha", mo["coeffs"][:, :na], occsa, None if ene is None else ene[:na]),
        ("beta", mo["coeffs"][:, na:], occsb, None if ene is None else ene[na:]),
    ]


def compare(truth, loaded, fmt, seed, prefix, ambiguous_spin=False, npoint=30):
    """Return a list of (bucket_suffix, message) for differences beyond print precision."""
    out = []
    dig = FORMAT_DIGITS[fmt]
    # ---- nuclei ---------------------------------------------------------------------------
    if not np.array_equal(np.asarray(loaded["atnums"]), np.asarray(truth["atnums"])):
        out.append(("atnums", f"atomic numbers {loaded['atnums']} != {truth['atnums']}"))
        return out
    c0, c1 = np.asarray(truth["centers"]), np.asarray(loaded["centers"])
    if c0.shape != c1.shape:
        out.append(("atcoords", f"shape {c1.shape} != {c0.shape}"))
        return out
    tolc = dig.get("coord", 0.0) + dig.get("coord_rel", 0.0) * np.abs(c0) + 1e-14
    if (np.abs(c1 - c0) > tolc).any():
        out.append(("atcoords", f"coordinates differ by {np.abs(c1 - c0).max():.3e}"))
    if dig.get("core") is not None:
        z0, z1 = truth["atcorenums"], loaded["atcorenums"]
        tolz = dig["core"] + dig.get("core_rel", 0.0) * np.abs(z0) + 1e-14
        if z1 is None or (np.abs(np.asarray(z1) - z0) > tolz).any():
            out.append(("atcorenums", f"core charges {z1} != {z0}"))
    # ---- orbitals as functions of space --------------------------------------------------------
    b0, b1 = truth["basis"], loaded["basis"]
    pts = G.probe_points(b0, seed, npoint)
    try:
        phi0 = G.eval_basis(b0, pts)
        phi1 = G.eval_basis(b1, pts)
    except Exception as exc:
        out.append(("basis_unreadable", f"cannot evaluate loaded basis: {exc!r}"))
        return out
    k, con_abs, coef_abs, dcoord = value_tolerance(fmt, b0)
    abs0 = G.eval_basis_abs(b0, pts)
    grad0 = G.eval_basis_abs_grad(b0, pts) * dcoord
    grad0 = grad0 + 2 * G.eval_basis_abs_exp(b0, pts, dig.get("exp_rel", 0.0), dig.get("exp_abs", 0.0))
    abs_delta = G.eval_basis_abs(b0, pts, con_abs) if con_abs else np.zeros_like(abs0)
    m0, m1 = truth["mo"], loaded["mo"]
    if m1["coeffs"] is None or m1["coeffs"].shape[0] != phi1.shape[0]:
        out.append(("nbasis", "coefficient rows do not match the loaded basis"))
        return out
    if ambiguous_spin:
        if m0.get("occs_aminusb") is not None:
            # written after the announced conversion to unrestricted: alpha block, beta block
            parts = spin_sets(m0)
            sets0 = [(
                "all",
                np.concatenate([p[1] for p in parts], axis=1),
                np.concatenate([p[2] for p in parts]),
                None if parts[0][3] is None else np.concatenate([p[3] for p in parts]),
            )]
        else:
            sets0 = [("all", m0["coeffs"], m0["occs"], m0["energies"])]
        sets1 = [("all", m1["coeffs"], m1["occs"], m1["energies"])]
    else:
        sets0, sets1 = spin_sets(m0), spin_sets(m1)
        if m0.get("occs_aminusb") is None and m1["kind"] != m0["kind"]:
            out.append(("spin_kind", f"{m0['kind']} orbitals came back as {m1['kind']}"))
    for (lab, cf0, oc0, en0), (_, cf1, oc1, en1) in zip(sets0, sets1):
        if cf0.shape[1] != cf1.shape[1]:
            out.append(("norb", f"{lab}: {cf0.shape[1]} orbitals became {cf1.shape[1]}"))
            continue
        v0 = cf0.T @ phi0
        v1 = cf1.T @ phi1
        scale = np.abs(cf0).T @ abs0
        tolv = (
            k * scale + np.abs(cf0).T @ (abs_delta + grad0) + coef_abs * abs0.sum(axis=0) + 1e-10
        )
        bad = np.abs(v1 - v0) > tolv
        if bad.any():
            iorb = int(np.argmax(bad.any(axis=1)))
            rel = (np.abs(v1 - v0) / (scale + 1e-300)).max()
            out.append(
                ("orbital_values", f"{lab} orbital {iorb} is a different function of space "
                                   f"(max deviation / sum|C phi| = {rel:.2e}, "
                                   f"max deviation / tolerance = {(np.abs(v1 - v0) / tolv).max():.1e})")
            )
        if oc0 is not None:
            tol = dig["occ"] + 1e-12
            if oc1 is None or (np.abs(np.asarray(oc1) - oc0) > tol).any():
                out.append(("occupations", f"{lab}: {oc1} != {oc0}"))
        if en0 is not None:
            tol = dig.get("ene", 0.0) + dig.get("ene_rel", 0.0) * np.abs(en0) + 1e-13
            if en1 is None or (np.abs(np.asarray(en1) - en0) > tol).any():
                out.append(("energies", f"{lab}: {en1} != {en0}"))
    # ---- density matrices ---------------------------------------------------------------------
    for key, dm0 in (truth.get("one_rdms") or {}).items():
        dm1 = (loaded.get("one_rdms") or {}).get(key)
        if dm1 is None:
            continue  # whether the format stores it is C02's business
        if dm1.shape != (phi1.shape[0],) * 2:
            out.append(("dm_shape", f"{key}: {dm1.shape}"))
            continue
        rho0 = np.einsum("ap,ab,bp->p", phi0, dm0, phi0)
        rho1 = np.einsum("ap,ab,bp->p", phi1, dm1, phi1)
        scale = np.einsum("ap,ab,bp->p", abs0, np.abs(dm0), abs0)
        extra = 2 * np.einsum("ap,ab,bp->p", abs_delta + grad0, np.abs(dm0), abs0)
        if (np.abs(rho1 - rho0) > 3 * k * scale + extra + 1e-10).any():
            out.append(("density_matrix", f"one_rdms[{key!r}] denotes a different density"))
    return [(f"{prefix}/{name}", msg) for name, msg in out]
