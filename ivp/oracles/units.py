"""UNITS: CODATA 2018 and 2022 values typed in by hand (not taken from scipy or iodata).

All conversion factors convert *to atomic units* by multiplication, as in iodata.utils:
``length_in_bohr = length_in_angstrom * angstrom``.
"""

CODATA = {
    2018: {
        "bohr_radius_m": 5.29177210903e-11,
        "hartree_eV": 27.211386245988,
        "au_time_s": 2.4188843265857e-17,
        "electron_mass_kg": 9.1093837015e-31,
        "avogadro": 6.02214076e23,
        "hartree_J": 4.3597447222071e-18,
        "calorie_J": 4.184,
    },
    2022: {
        "bohr_radius_m": 5.29177210544e-11,
        "hartree_eV": 27.211386245981,
        "au_time_s": 2.4188843265864e-17,
        "electron_mass_kg": 9.1093837139e-31,
        "avogadro": 6.02214076e23,
        "hartree_J": 4.3597447222060e-18,
        "calorie_J": 4.184,
    },
}


def factors(year=2018):
    c = CODATA[year]
    meter = 1.0 / c["bohr_radius_m"]
    second = 1.0 / c["au_time_s"]
    return {
        "angstrom": 1e-10 * meter,
        "nanometer": 1e-9 * meter,
        "meter": meter,
        "electronvolt": 1.0 / c["hartree_eV"],
        "second": second,
        "picosecond": 1e-12 * second,
        "amu": 1e-3 / (c["electron_mass_kg"] * c["avogadro"]),
        "kcalmol": 1e3 * c["calorie_J"] / c["avogadro"] / c["hartree_J"],
        "calmol": c["calorie_J"] / c["avogadro"] / c["hartree_J"],
        "kjmol": 1e3 / c["avogadro"] / c["hartree_J"],
    }


F = factors(2018)
angstrom = F["angstrom"]
nanometer = F["nanometer"]
electronvolt = F["electronvolt"]
picosecond = F["picosecond"]
amu = F["amu"]
kcalmol = F["kcalmol"]
kjmol = F["kjmol"]
# 1 Debye = 1e-21 / c  C m; in atomic units e*bohr: 0.393430269...
debye = 1e-21 / 299792458.0 / (1.602176634e-19 * CODATA[2018]["bohr_radius_m"])
