"""Oracle O: overlap integrals of the functions of docs/basis.rst by the Obara-Saika recurrence.

Independent of iodata (which uses a binomial expansion and pre-computed transformation tables).
Two back ends share the 1-D recurrence: float64 (numpy assembly; used to build orthonormal
orbitals) and mpmath at 40 digits (reference values for C06).
"""

from __future__ import annotations

import math

import mpmath
import numpy as np

from . import gaussians as G

SCREEN = 1e-15


def os_table(la, lb, xpa, xpb, p, s00):
    """Table S[a][b], 0<=a<=la, 0<=b<=lb, of the 1-D integrals (Obara-Saika two-term recurrence).

    S(a+1,b) = X_PA S(a,b) + [a S(a-1,b) + b S(a,b-1)] / 2p
    S(a,b+1) = X_PB S(a,b) + [a S(a-1,b) + b S(a,b-1)] / 2p
    """
    half = 1 / (2 * p)
    tab = [[None] * (lb + 1) for _ in range(la + 1)]
    tab[0][0] = s00
    for a in range(la):
        tab[a + 1][0] = xpa * tab[a][0] + (a * half * tab[a - 1][0] if a > 0 else 0)
    for a in range(la + 1):
        for b in range(lb):
            val = xpb * tab[a][b]
            if a > 0:
                val = val + a * half * tab[a - 1][b]
            if b > 0:
                val = val + b * half * tab[a][b - 1]
            tab[a][b + 1] = val
    return tab


def cart_monomials(ell):
    """Monomials of degree ell in a fixed internal order."""
    return [(nx, ny, ell - nx - ny) for nx in range(ell, -1, -1) for ny in range(ell - nx, -1, -1)]


def segment_functions(spec):
    """Expand a basis spec into segments (one per contraction) with function-level data.

    Each segment: centre, exponents, contraction coefficients, ell, kind and for each function
    of the segment (in the order of the convention) its expansion in *normalised Cartesian
    functions*: {monomial: coefficient} (a single monomial for Cartesian functions) and sign.
    """
    lmax = max([max(sh["angmoms"]) for sh in spec["shells"]] + [1])
    segs = []
    for shell in spec["shells"]:
        for icon, (ell, kind) in enumerate(zip(shell["angmoms"], shell["kinds"])):
            funcs = []
            for label in spec["conventions"][(ell, kind)]:
                sign, name = G.parse_label(label)
                if kind == "c":
                    funcs.append((sign, {G.label_monomial(name): 1}))
                else:
                    funcs.append((sign, (ell, name[0], int(name[1:]))))
            segs.append(
                {
                    "center": spec["centers"][shell["icenter"]],
                    "exponents": shell["exponents"],
                    "coeffs": np.asarray(shell["coeffs"])[:, icon],
                    "ell": ell,
                    "kind": kind,
                    "funcs": funcs,
                }
            )
    return segs, lmax


def pure_in_normalised_cartesians(ell, lmax, mp=False):
    """Matrix (2l+1 harmonics in HORTON order c0,c1,s1,...) x (Cartesian monomials).

    A pure primitive N(a,l) H(r) exp(-a r^2) equals sum_mono c_mono N(a,l)/N(a,mono) g_mono with
    g_mono the normalised Cartesian primitive; the ratio sqrt(prod (2n_i-1)!! / (2l-1)!!) does
    not depend on the exponent.
    """
    harm = G.solid_harmonics_mp(lmax) if mp else G.solid_harmonics(lmax)
    monos = cart_monomials(ell)
    rows = {}
    for (l2, cs, m), poly in harm.items():
        if l2 != ell:
            continue
        row = {}
        for mono, coef in poly.items():
            num = G.fac2(2 * mono[0] - 1) * G.fac2(2 * mono[1] - 1) * G.fac2(2 * mono[2] - 1)
            den = G.fac2(2 * ell - 1)
            if mp:
                ratio = mpmath.sqrt(mpmath.mpf(num) / den)
            else:
                ratio = math.sqrt(num / den)
            row[mono] = coef * ratio
        rows[(cs, m)] = row
    return rows, monos


# ----------------------------------------------------------------------------------------------
# float64 back end
# ----------------------------------------------------------------------------------------------


def _prim_block(la, lb, ra, rb, a, b):
    """Block of *un-normalised* Cartesian primitive overlaps, (ncart_a, ncart_b)."""
    p = a + b
    mu = a * b / p
    rp = (a * ra + b * rb) / p
    tabs = []
    for d in range(3):
        s00 = math.sqrt(math.pi / p) * math.exp(-mu * (ra[d] - rb[d]) ** 2)
        tabs.append(np.array(os_table(la, lb, rp[d] - ra[d], rp[d] - rb[d], p, s00), dtype=float))
    ma = np.array(cart_monomials(la))
    mb = np.array(cart_monomials(lb))
    blk = tabs[0][ma[:, 0][:, None], mb[:, 0][None, :]]
    blk = blk * tabs[1][ma[:, 1][:, None], mb[:, 1][None, :]]
    blk = blk * tabs[2][ma[:, 2][:, None], mb[:, 2][None, :]]
    return blk


def _seg_matrix(seg, lmax):
    """Transformation (nfunc, ncart) from normalised Cartesian functions to the segment."""
    ell = seg["ell"]
    monos = cart_monomials(ell)
    index = {m: i for i, m in enumerate(monos)}
    mat = np.zeros((len(seg["funcs"]), len(monos)))
    rows = None
    for ifn, (sign, what) in enumerate(seg["funcs"]):
        if isinstance(what, dict):
            for mono, coef in what.items():
                mat[ifn, index[mono]] = sign * coef
        else:
            if rows is None:
                rows, _ = pure_in_normalised_cartesians(ell, lmax)
            for mono, coef in rows[(what[1], what[2])].items():
                mat[ifn, index[mono]] = sign * coef
    return mat


def overlap(spec0, spec1=None, screen=False, info=None):
    """Overlap matrix (float64).  ``screen`` mirrors the documented 1e-15 prefactor screening.

    ``info`` (dict) receives the number of screened primitive pairs and the smallest distance
    (in log units) of a primitive-pair prefactor to the screening threshold.
    """
    same = spec1 is None
    if same:
        spec1 = spec0
    segs0, lmax0 = segment_functions(spec0)
    segs1, lmax1 = (segs0, lmax0) if same else segment_functions(spec1)
    lmax = max(lmax0, lmax1)
    mats0 = [_seg_matrix(s, lmax) for s in segs0]
    mats1 = mats0 if same else [_seg_matrix(s, lmax) for s in segs1]
    n0 = sum(m.shape[0] for m in mats0)
    n1 = sum(m.shape[0] for m in mats1)
    out = np.zeros((n0, n1))
    nscreened = 0
    margin = np.inf
    logthr = math.log(SCREEN)
    off0 = 0
    for s0, m0 in zip(segs0, mats0):
        ra = np.asarray(s0["center"], dtype=float)
        monos0 = cart_monomials(s0["ell"])
        norms0 = np.array([[G.cart_norm(a, *m) for m in monos0] for a in s0["exponents"]])
        off1 = 0
        for s1, m1 in zip(segs1, mats1):
            rb = np.asarray(s1["center"], dtype=float)
            monos1 = cart_monomials(s1["ell"])
            norms1 = np.array([[G.cart_norm(b, *m) for m in monos1] for b in s1["exponents"]])
            r2 = float(((ra - rb) ** 2).sum())
            blk = np.zeros((len(monos0), len(monos1)))
            for ia, a in enumerate(s0["exponents"]):
                for ib, b in enumerate(s1["exponents"]):
                    logpre = -a * b / (a + b) * r2
                    margin = min(margin, abs(logpre - logthr))
                    if screen and logpre < logthr:
                        nscreened += 1
                        continue
                    prim = _prim_block(s0["ell"], s1["ell"], ra, rb, float(a), float(b))
                    prim = prim * norms0[ia][:, None] * norms1[ib][None, :]
                    blk += s0["coeffs"][ia] * s1["coeffs"][ib] * prim
            out[off0 : off0 + m0.shape[0], off1 : off1 + m1.shape[0]] = m0 @ blk @ m1.T
            off1 += m1.shape[0]
        off0 += m0.shape[0]
    if info is not None:
        info["screened_pairs"] = nscreened
        info["threshold_margin"] = margin
    return out


# ----------------------------------------------------------------------------------------------
# mpmath back end (reference values)
# ----------------------------------------------------------------------------------------------


def _mp_cart_norm(alpha, nx, ny, nz):
    ell = nx + ny + nz
    return mpmath.sqrt(
        (2 * alpha / mpmath.pi) ** mpmath.mpf("1.5")
        * (4 * alpha) ** ell
        / (G.fac2(2 * nx - 1) * G.fac2(2 * ny - 1) * G.fac2(2 * nz - 1))
    )


def overlap_mp(spec0, spec1=None, screen=False):
    """Overlap matrix with 40-digit arithmetic, returned as float64 array."""
    with mpmath.workdps(G.MP_DPS):
        same = spec1 is None
        if same:
            spec1 = spec0
        segs0, lmax0 = segment_functions(spec0)
        segs1, lmax1 = (segs0, lmax0) if same else segment_functions(spec1)
        lmax = max(lmax0, lmax1)
        mpf = mpmath.mpf

        def seg_rows(seg):
            ell = seg["ell"]
            rows = []
            prows = None
            for sign, what in seg["funcs"]:
                if isinstance(what, dict):
                    rows.append({m: mpf(sign) * c for m, c in what.items()})
                else:
                    if prows is None:
                        prows, _ = pure_in_normalised_cartesians(ell, lmax, mp=True)
                    rows.append({m: mpf(sign) * c for m, c in prows[(what[1], what[2])].items()})
            return rows

        rows0 = [seg_rows(s) for s in segs0]
        rows1 = rows0 if same else [seg_rows(s) for s in segs1]
        n0 = sum(len(r) for r in rows0)
        n1 = sum(len(r) for r in rows1)
        out = np.zeros((n0, n1))
        logthr = math.log(SCREEN)
        off0 = 0
        for s0, r0 in zip(segs0, rows0):
            ra = [mpf(float(x)) for x in s0["center"]]
            off1 = 0
            for s1, r1 in zip(segs1, rows1):
                rb = [mpf(float(x)) for x in s1["center"]]
                r2 = sum((x - y) ** 2 for x, y in zip(ra, rb))
                monos0 = cart_monomials(s0["ell"])
                monos1 = cart_monomials(s1["ell"])
                blk = {(m0, m1): mpf(0) for m0 in monos0 for m1 in monos1}
                for ia, a in enumerate(s0["exponents"]):
                    a = mpf(float(a))
                    for ib, b in enumerate(s1["exponents"]):
                        b = mpf(float(b))
                        p = a + b
                        mu = a * b / p
                        if screen and float(-mu * r2) < logthr:
                            continue
                        tabs = []
                        for d in range(3):
                            rp = (a * ra[d] + b * rb[d]) / p
                            s00 = mpmath.sqrt(mpmath.pi / p) * mpmath.exp(-mu * (ra[d] - rb[d]) ** 2)
                            tabs.append(
                                os_table(s0["ell"], s1["ell"], rp - ra[d], rp - rb[d], p, s00)
                            )
                        dd = mpf(float(s0["coeffs"][ia])) * mpf(float(s1["coeffs"][ib]))
                        na = {m: _mp_cart_norm(a, *m) for m in monos0}
                        nb = {m: _mp_cart_norm(b, *m) for m in monos1}
                        for m0 in monos0:
                            for m1 in monos1:
                                val = tabs[0][m0[0]][m1[0]] * tabs[1][m0[1]][m1[1]] * tabs[2][m0[2]][m1[2]]
                                blk[(m0, m1)] += dd * na[m0] * nb[m1] * val
                for i0, f0 in enumerate(r0):
                    for i1, f1 in enumerate(r1):
                        val = mpf(0)
                        for m0, c0 in f0.items():
                            for m1, c1 in f1.items():
                                val += c0 * c1 * blk[(m0, m1)]
                        out[off0 + i0, off1 + i1] = float(val)
                off1 += len(r1)
            off0 += len(r0)
        return out


def closed_form_1d(n1, n2, x1, x2, two_at):
    """Integral of (t + x1')^n1 ... in the parametrisation used for randomized identity tests.

    The 1-D kernel integrates (x - A)^n1 (x - B)^n2 exp(-p (x - P)^2) / sqrt(pi / p) with
    x1 = P - A, x2 = P - B and two_at = 2p, i.e. the Obara-Saika table with S00 = 1.
    """
    p = two_at / 2
    tab = os_table(n1, n2, x1, x2, p, mpmath.mpf(1) if isinstance(x1, mpmath.mpf) else 1.0)
    return tab[n1][n2]


# ----------------------------------------------------------------------------------------------
# helpers for the properties
# ----------------------------------------------------------------------------------------------


def inv_sqrt(mat):
    w, v = np.linalg.eigh(mat)
    return (v / np.sqrt(w)) @ v.T


def orthonormal_orbitals(spec, rng, norb=None):
    """Random orbitals orthonormal w.r.t. O's overlap of ``spec``: C = S^-1/2 Q."""
    olp = overlap(spec)
    n = olp.shape[0]
    q, _ = np.linalg.qr(rng.normal(size=(n, n)))
    coeffs = inv_sqrt(olp) @ q
    if norb is not None:
        coeffs = coeffs[:, :norb]
    return coeffs, olp


# ----------------------------------------------------------------------------------------------
# self-test
# ----------------------------------------------------------------------------------------------


def selftest():
    """(1) recurrence vs Gauss-Hermite quadrature; (2) E (function values) vs O (integrals)."""
    rng = np.random.Generator(np.random.PCG64(12345))
    nodes, weights = np.polynomial.hermite.hermgauss(24)
    for _ in range(40):
        la, lb = int(rng.integers(0, 8)), int(rng.integers(0, 8))
        a, b = np.exp(rng.uniform(-2, 3, size=2))
        xa, xb = rng.normal(size=2)
        p = a + b
        xp = (a * xa + b * xb) / p
        s00 = math.sqrt(math.pi / p) * math.exp(-a * b / p * (xa - xb) ** 2)
        tab = os_table(la, lb, xp - xa, xp - xb, p, s00)
        x = xp + nodes / math.sqrt(p)
        quad = (
            math.exp(-a * b / p * (xa - xb) ** 2)
            / math.sqrt(p)
            * (weights * (x - xa) ** la * (x - xb) ** lb).sum()
        )
        assert abs(tab[la][lb] - quad) <= 1e-11 * (abs(quad) + abs(s00) * 1e-3), (la, lb, tab[la][lb], quad)
    # E vs O on tiny single-primitive bases, 3-D Gauss-Hermite product quadrature
    nodes, weights = np.polynomial.hermite.hermgauss(14)
    t = np.array(np.meshgrid(nodes, nodes, nodes, indexing="ij")).reshape(3, -1).T
    w = np.einsum("i,j,k->ijk", weights, weights, weights).ravel()
    conventions = {}
    for ell in range(0, 5):
        conventions[(ell, "c")] = G.cart_labels(ell)
        if ell >= 2:
            labels = G.pure_labels(ell)
            conventions[(ell, "p")] = [("-" if i % 3 == 1 else "") + lab for i, lab in enumerate(labels)]
    centers = np.array([[0.1, -0.2, 0.3], [0.7, 0.5, -0.4]])
    for kinds in (["c", "c", "p", "p"], ["c", "p", "c", "p"]):
        shells = []
        for i, (ell, kind) in enumerate(zip([1, 2, 3, 4], kinds)):
            if kind == "p" and ell < 2:
                kind = "c"
            shells.append(
                {
                    "icenter": i % 2,
                    "angmoms": [ell],
                    "kinds": [kind],
                    "exponents": np.array([0.6 + 0.35 * i]),
                    "coeffs": np.array([[1.3 - 0.2 * i]]),
                }
            )
        spec = {"centers": centers, "shells": shells, "conventions": conventions}
        olp = overlap(spec)
        funcs = G.function_list(spec)
        nshell = len(shells)
        for si in range(nshell):
            for sj in range(nshell):
                a, b = shells[si]["exponents"][0], shells[sj]["exponents"][0]
                p = a + b
                rp = (a * centers[shells[si]["icenter"]] + b * centers[shells[sj]["icenter"]]) / p
                pts = rp + t / math.sqrt(p)
                vals = G.eval_basis(spec, pts)
                boost = w * np.exp((t**2).sum(axis=1)) / p**1.5
                for i, fi in enumerate(funcs):
                    if fi["ishell"] != si:
                        continue
                    for j, fj in enumerate(funcs):
                        if fj["ishell"] != sj:
                            continue
                        quad = (boost * vals[i] * vals[j]).sum()
                        assert abs(quad - olp[i, j]) < 1e-9, (i, j, quad, olp[i, j])
        ref = overlap_mp(spec)
        assert np.abs(ref - olp).max() < 1e-12
