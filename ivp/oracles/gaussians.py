"""Oracle E: Gaussian basis functions exactly as defined in docs/basis.rst.

Nothing in this module imports iodata.  A *basis spec* is plain data:

    {"centers": (ncenter, 3) array,
     "shells": [{"icenter": int, "angmoms": [..], "kinds": [..], "exponents": [..],
                 "coeffs": (nexp, ncon) array}, ...],
     "conventions": {(l, kind): [label, ...]}}

Function order: shell -> contraction column -> label order of the convention of (l, kind).
Label 'x'*nx + 'y'*ny + 'z'*nz ('1' for s), 'c{m}' / 's{m}' for pure functions, a leading '-'
is a sign flip.
"""

from __future__ import annotations

import math
from functools import lru_cache

import mpmath
import numpy as np

MP_DPS = 40


# ----------------------------------------------------------------------------------------------
# polynomials as {(nx, ny, nz): coefficient}
# ----------------------------------------------------------------------------------------------


def p_scale(poly, fac):
    return {k: v * fac for k, v in poly.items()}


def p_add(p1, p2):
    out = dict(p1)
    for k, v in p2.items():
        out[k] = out.get(k, 0) + v
    return {k: v for k, v in out.items() if v != 0}


def p_shift(poly, axis):
    out = {}
    for (nx, ny, nz), v in poly.items():
        n = [nx, ny, nz]
        n[axis] += 1
        out[tuple(n)] = v
    return out


def p_r2(poly):
    out = {}
    for axis in range(3):
        out = p_add(out, p_shift(p_shift(poly, axis), axis))
    return out


def p_laplacian(poly):
    out = {}
    for (nx, ny, nz), v in poly.items():
        n = [nx, ny, nz]
        for axis in range(3):
            if n[axis] >= 2:
                m = list(n)
                m[axis] -= 2
                key = tuple(m)
                out[key] = out.get(key, 0) + v * n[axis] * (n[axis] - 1)
    return out


@lru_cache(maxsize=None)
def solid_harmonics_mp(lmax: int):
    """Real regular solid harmonics by the documented recursion; mpf coefficients.

    Returns {(l, 'c'|'s', m): polynomial}.
    """
    with mpmath.workdps(MP_DPS):
        one = mpmath.mpf(1)
        harm = {(0, "c", 0): {(0, 0, 0): one}}
        if lmax >= 1:
            harm[(1, "c", 0)] = {(0, 0, 1): one}
            harm[(1, "c", 1)] = {(1, 0, 0): one}
            harm[(1, "s", 1)] = {(0, 1, 0): one}
        for ell in range(2, lmax + 1):
            fac = mpmath.sqrt(mpmath.mpf(2 * ell - 1) / (2 * ell))
            cprev = harm[(ell - 1, "c", ell - 1)]
            sprev = harm[(ell - 1, "s", ell - 1)]
            harm[(ell, "c", ell)] = p_scale(
                p_add(p_shift(cprev, 0), p_scale(p_shift(sprev, 1), -1)), fac
            )
            harm[(ell, "s", ell)] = p_scale(p_add(p_shift(sprev, 0), p_shift(cprev, 1)), fac)
            fac = mpmath.sqrt(mpmath.mpf(2 * ell - 1))
            for cs in "cs":
                harm[(ell, cs, ell - 1)] = p_scale(p_shift(harm[(ell - 1, cs, ell - 1)], 2), fac)
            for m in range(0, ell - 1):
                for cs in "cs":
                    if cs == "s" and m == 0:
                        continue
                    den = mpmath.mpf((ell + m) * (ell - m))
                    f1 = (2 * ell - 1) / mpmath.sqrt(den)
                    f2 = mpmath.sqrt(mpmath.mpf((ell - m - 1) * (ell + m - 1)) / den)
                    harm[(ell, cs, m)] = p_add(
                        p_scale(p_shift(harm[(ell - 1, cs, m)], 2), f1),
                        p_scale(p_r2(harm[(ell - 2, cs, m)]), -f2),
                    )
        return harm


@lru_cache(maxsize=None)
def solid_harmonics(lmax: int):
    """Float version of :func:`solid_harmonics_mp`."""
    return {
        key: {mono: float(val) for mono, val in poly.items()}
        for key, poly in solid_harmonics_mp(lmax).items()
    }


def fac2(n: int) -> int:
    """Double factorial with (-1)!! = 1."""
    out = 1
    while n > 1:
        out *= n
        n -= 2
    return out


def cart_norm(alpha, nx, ny, nz):
    """N(alpha, nx, ny, nz) of docs/basis.rst."""
    ell = nx + ny + nz
    return math.sqrt(
        (2 * alpha / math.pi) ** 1.5
        * (4 * alpha) ** ell
        / (fac2(2 * nx - 1) * fac2(2 * ny - 1) * fac2(2 * nz - 1))
    )


def pure_norm(alpha, ell):
    """N(alpha, l) of docs/basis.rst."""
    return math.sqrt((2 * alpha / math.pi) ** 1.5 * (4 * alpha) ** ell / fac2(2 * ell - 1))


def cart_labels(ell):
    """Alphabetical monomial labels (only used to define the canonical label *set*)."""
    if ell == 0:
        return ["1"]
    out = []
    for nx in range(ell, -1, -1):
        for ny in range(ell - nx, -1, -1):
            out.append("x" * nx + "y" * ny + "z" * (ell - nx - ny))
    return out


def pure_labels(ell):
    out = ["c0"]
    for m in range(1, ell + 1):
        out += [f"c{m}", f"s{m}"]
    return out


def label_monomial(label):
    if label == "1":
        return (0, 0, 0)
    return (label.count("x"), label.count("y"), label.count("z"))


def parse_label(label):
    sign = 1.0
    if label.startswith("-"):
        sign = -1.0
        label = label[1:]
    return sign, label


# ----------------------------------------------------------------------------------------------
# basis specs
# ----------------------------------------------------------------------------------------------


def spec_from_iodata(obasis, atcoords):
    """Read a MolecularBasis + coordinates as plain data (no iodata code is executed)."""
    shells = []
    for shell in obasis.shells:
        shells.append(
            {
                "icenter": int(shell.icenter),
                "angmoms": [int(a) for a in shell.angmoms],
                "kinds": [str(k) for k in shell.kinds],
                "exponents": np.array(shell.exponents, dtype=float),
                "coeffs": np.array(shell.coeffs, dtype=float),
            }
        )
    conventions = {(int(k[0]), str(k[1])): list(v) for k, v in obasis.conventions.items()}
    return {
        "centers": np.array(atcoords, dtype=float),
        "shells": shells,
        "conventions": conventions,
    }


def nbasis_of(spec):
    total = 0
    for shell in spec["shells"]:
        for ell, kind in zip(shell["angmoms"], shell["kinds"]):
            total += (ell + 1) * (ell + 2) // 2 if kind == "c" else 2 * ell + 1
    return total


def function_list(spec):
    """One descriptor per basis function, in the order of the spec."""
    lmax = max([max(sh["angmoms"]) for sh in spec["shells"]] + [1])
    harm = solid_harmonics(lmax)
    out = []
    for ishell, shell in enumerate(spec["shells"]):
        center = np.asarray(spec["centers"][shell["icenter"]], dtype=float)
        exps = np.asarray(shell["exponents"], dtype=float)
        coeffs = np.asarray(shell["coeffs"], dtype=float)
        for icon, (ell, kind) in enumerate(zip(shell["angmoms"], shell["kinds"])):
            labels = spec["conventions"][(ell, kind)]
            for label in labels:
                sign, name = parse_label(label)
                if kind == "c":
                    mono = label_monomial(name)
                    if sum(mono) != ell:
                        raise ValueError(f"label {label} is not of angular momentum {ell}")
                    poly = {mono: 1.0}
                    norms = np.array([cart_norm(a, *mono) for a in exps])
                else:
                    poly = harm[(ell, name[0], int(name[1:]))]
                    norms = np.array([pure_norm(a, ell) for a in exps])
                out.append(
                    {
                        "ishell": ishell,
                        "icon": icon,
                        "center": center,
                        "exponents": exps,
                        "weights": sign * coeffs[:, icon] * norms,
                        "poly": poly,
                        "label": label,
                        "ell": ell,
                        "kind": kind,
                    }
                )
    return out


def eval_basis(spec, points):
    """Values of all basis functions on points: array (nbasis, npoint)."""
    points = np.asarray(points, dtype=float)
    funcs = function_list(spec)
    out = np.zeros((len(funcs), len(points)))
    cache = {}
    for ifn, fn in enumerate(funcs):
        key = fn["ishell"]
        if key not in cache:
            delta = points - fn["center"]
            r2 = (delta**2).sum(axis=1)
            cache[key] = (delta, np.exp(-np.outer(fn["exponents"], r2)))
        delta, radial = cache[key]
        polyval = np.zeros(len(points))
        for (nx, ny, nz), coef in fn["poly"].items():
            polyval += coef * delta[:, 0] ** nx * delta[:, 1] ** ny * delta[:, 2] ** nz
        out[ifn] = (fn["weights"] @ radial) * polyval
    return out


def eval_basis_abs(spec, points, coeff_override=None):
    """Upper bound of |phi_mu| without cancellations: sum_k |D_k| N_k exp(..) * sum |c| |x^n|.

    With ``coeff_override`` every contraction coefficient is replaced by that value: the result
    bounds the change of a function when each printed coefficient is off by that much.
    """
    points = np.asarray(points, dtype=float)
    funcs = function_list(spec)
    out = np.zeros((len(funcs), len(points)))
    for ifn, fn in enumerate(funcs):
        delta = np.abs(points - fn["center"])
        radial = np.exp(-np.outer(fn["exponents"], (delta**2).sum(axis=1)))
        weights = np.abs(fn["weights"])
        if coeff_override is not None:
            shell = spec["shells"][fn["ishell"]]
            dk = np.abs(np.asarray(shell["coeffs"], dtype=float)[:, fn["icon"]])
            norms = np.divide(weights, dk, out=np.zeros_like(weights), where=dk > 0)
            if (dk == 0).any():
                if fn["kind"] == "c":
                    mono = next(iter(fn["poly"]))
                    norms = np.array([cart_norm(a, *mono) for a in fn["exponents"]])
                else:
                    norms = np.array([pure_norm(a, fn["ell"]) for a in fn["exponents"]])
            weights = norms * coeff_override
        polyval = np.zeros(len(points))
        for (nx, ny, nz), coef in fn["poly"].items():
            polyval += abs(coef) * delta[:, 0] ** nx * delta[:, 1] ** ny * delta[:, 2] ** nz
        out[ifn] = (weights @ radial) * polyval
    return out


def eval_basis_abs_grad(spec, points):
    """Upper bound of sum_axis |d phi_mu / d axis| (no cancellations).

    |d/dx [P exp(-a r^2)]| <= (|dP/dx|_abs + 2 a |x| |P|_abs) exp(-a r^2)
    """
    points = np.asarray(points, dtype=float)
    funcs = function_list(spec)
    out = np.zeros((len(funcs), len(points)))
    for ifn, fn in enumerate(funcs):
        delta = np.abs(points - fn["center"])
        radial = np.exp(-np.outer(fn["exponents"], (delta**2).sum(axis=1)))
        weights = np.abs(fn["weights"])
        pabs = np.zeros(len(points))
        dpabs = np.zeros(len(points))
        for mono, coef in fn["poly"].items():
            term = abs(coef) * delta[:, 0] ** mono[0] * delta[:, 1] ** mono[1] * delta[:, 2] ** mono[2]
            pabs += term
            for axis in range(3):
                if mono[axis] > 0:
                    low = list(mono)
                    low[axis] -= 1
                    dpabs += (
                        abs(coef) * mono[axis]
                        * delta[:, 0] ** low[0] * delta[:, 1] ** low[1] * delta[:, 2] ** low[2]
                    )
        lin = delta.sum(axis=1)
        out[ifn] = (weights @ radial) * dpabs + ((weights * 2 * fn["exponents"]) @ radial) * lin * pabs
    return out


def eval_basis_abs_exp(spec, points, exp_rel, exp_abs):
    """Upper bound of the change of phi_mu when every exponent is off by exp_rel*a + exp_abs.

    d/da [N(a) P exp(-a r^2)] = ((2l+3)/(4a) - r^2) N(a) P exp(-a r^2)
    """
    points = np.asarray(points, dtype=float)
    funcs = function_list(spec)
    out = np.zeros((len(funcs), len(points)))
    for ifn, fn in enumerate(funcs):
        delta = np.abs(points - fn["center"])
        r2 = (delta**2).sum(axis=1)
        exps = fn["exponents"]
        radial = np.exp(-np.outer(exps, r2))
        dalpha = exp_rel * exps + exp_abs
        factor = dalpha[:, None] * ((2 * fn["ell"] + 3) / (4 * exps)[:, None] + r2[None, :])
        pabs = np.zeros(len(points))
        for mono, coef in fn["poly"].items():
            pabs += abs(coef) * delta[:, 0] ** mono[0] * delta[:, 1] ** mono[1] * delta[:, 2] ** mono[2]
        out[ifn] = (np.abs(fn["weights"])[:, None] * radial * factor).sum(axis=0) * pabs
    return out


def eval_orbitals(spec, coeffs, points):
    """Orbital values: (norb, npoint) for coefficient matrix (nbasis, norb)."""
    return np.asarray(coeffs).T @ eval_basis(spec, points)


def abs_orbitals(spec, coeffs, points):
    """sum_mu |C_mu,i phi_mu(r)|: the natural scale for comparing orbital values."""
    return np.abs(np.asarray(coeffs)).T @ np.abs(eval_basis(spec, points))


def probe_points(spec, seed, npoint=40):
    """Probe points: normal deviates around each centre on the length scales of the basis."""
    rng = np.random.Generator(np.random.PCG64(seed))
    centers = np.asarray(spec["centers"], dtype=float)
    used = sorted({sh["icenter"] for sh in spec["shells"]}) or [0]
    exps = np.concatenate([np.asarray(sh["exponents"], dtype=float) for sh in spec["shells"]])
    smin, smax = 1 / np.sqrt(exps.max()), 1 / np.sqrt(exps.min())
    pts = []
    for i in range(npoint):
        c = centers[used[i % len(used)]]
        scale = np.exp(rng.uniform(np.log(smin), np.log(smax * 1.5)))
        pts.append(c + rng.normal(size=3) * scale)
    return np.array(pts)


# ----------------------------------------------------------------------------------------------
# self-test
# ----------------------------------------------------------------------------------------------


def _sphere_integral(a, b, c):
    """Integral of x^a y^b z^c over the unit sphere."""
    if a % 2 or b % 2 or c % 2:
        return mpmath.mpf(0)
    g = mpmath.gamma
    return (
        2
        * g(mpmath.mpf(a + 1) / 2)
        * g(mpmath.mpf(b + 1) / 2)
        * g(mpmath.mpf(c + 1) / 2)
        / g(mpmath.mpf(a + b + c + 3) / 2)
    )


def selftest(lmax=7):
    """Harmonicity, orthogonality and Racah normalisation of the generated harmonics."""
    with mpmath.workdps(MP_DPS):
        harm = solid_harmonics_mp(lmax)
        assert harm[(1, "c", 0)] == {(0, 0, 1): 1}
        assert harm[(1, "c", 1)] == {(1, 0, 0): 1}
        assert harm[(1, "s", 1)] == {(0, 1, 0): 1}
        for ell in range(lmax + 1):
            keys = [k for k in harm if k[0] == ell]
            assert len(keys) == 2 * ell + 1, (ell, keys)
            for key in keys:
                poly = harm[key]
                assert all(sum(m) == ell for m in poly), key
                lap = p_laplacian(poly)
                assert all(abs(v) < mpmath.mpf(10) ** (-30) for v in lap.values()), key
            for k1 in keys:
                for k2 in keys:
                    val = mpmath.mpf(0)
                    for m1, c1 in harm[k1].items():
                        for m2, c2 in harm[k2].items():
                            val += c1 * c2 * _sphere_integral(*(i + j for i, j in zip(m1, m2)))
                    want = 4 * mpmath.pi / (2 * ell + 1) if k1 == k2 else 0
                    assert abs(val - want) < mpmath.mpf(10) ** (-30), (k1, k2, val)
    # sign convention: C_lm ~ +cos(m phi), S_lm ~ +sin(m phi) near the positive x axis
    harmf = solid_harmonics(lmax)
    phi = 0.1
    pt = (math.cos(phi), math.sin(phi), 0.3)
    for (ell, cs, m), poly in harmf.items():
        if m == 0:
            continue
        val = sum(c * pt[0] ** a * pt[1] ** b * pt[2] ** d for (a, b, d), c in poly.items())
        trig = math.cos(m * phi) if cs == "c" else math.sin(m * phi)
        # the z-dependent factor is positive for z small iff (l - m) even contributes P_l^m(0);
        # only check cases where the polynomial has no node issue: l == m or l == m + 1
        if ell - m in (0, 1):
            assert val * trig > 0, (ell, cs, m, val)
