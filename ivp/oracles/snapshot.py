"""SNAP: canonical deep snapshots of object graphs and of module-level tables.

The snapshot reads attrs fields (including private ones) with ``object.__getattribute__`` so
that taking it never triggers a lazy default.  Arrays are recorded as (dtype, shape, bytes).
"""

from __future__ import annotations

import sys
import types

import numpy as np

try:
    import attrs
except ImportError:  # pragma: no cover
    attrs = None

_SCALARS = (bool, int, str, bytes, type(None))


def snap(obj, depth=0):
    if depth > 40:
        return ("too_deep",)
    if isinstance(obj, float):
        return ("f", repr(obj))
    if isinstance(obj, complex):
        return ("c", repr(obj))
    if isinstance(obj, _SCALARS):
        return ("v", type(obj).__name__, obj)
    if isinstance(obj, np.ndarray):
        if obj.dtype == object:
            return ("ao", obj.shape, tuple(snap(x, depth + 1) for x in obj.ravel().tolist()))
        return ("a", str(obj.dtype), obj.shape, np.ascontiguousarray(obj).tobytes())
    if isinstance(obj, np.generic):
        return ("g", str(obj.dtype), repr(obj.item()))
    if isinstance(obj, dict):
        return ("d", tuple((snap(k, depth + 1), snap(v, depth + 1)) for k, v in obj.items()))
    if isinstance(obj, list):
        return ("l", tuple(snap(v, depth + 1) for v in obj))
    if isinstance(obj, tuple):
        return ("t", tuple(snap(v, depth + 1) for v in obj))
    if isinstance(obj, (set, frozenset)):
        return ("s", tuple(sorted((snap(v, depth + 1) for v in obj), key=repr)))
    if attrs is not None and attrs.has(type(obj)):
        items = []
        for field in attrs.fields(type(obj)):
            try:
                val = object.__getattribute__(obj, field.name)
            except AttributeError:
                val = "<unset>"
            items.append((field.name, snap(val, depth + 1)))
        return ("o", type(obj).__name__, tuple(items))
    if isinstance(obj, (types.ModuleType, types.FunctionType, types.BuiltinFunctionType, type)):
        return ("ref", getattr(obj, "__module__", ""), getattr(obj, "__qualname__", repr(obj)))
    return ("r", type(obj).__name__, repr(obj))


def first_diff(a, b, path="$"):
    """Human-readable location of the first difference between two snapshots (or None)."""
    if a == b:
        return None
    if (
        isinstance(a, tuple)
        and isinstance(b, tuple)
        and a
        and b
        and a[0] == b[0]
        and isinstance(a[0], str)
    ):
        tag = a[0]
        if tag == "o" and a[1] == b[1]:
            for (n1, v1), (n2, v2) in zip(a[2], b[2]):
                if n1 != n2 or v1 != v2:
                    return first_diff(v1, v2, f"{path}.{n1}")
        if tag == "d":
            k1 = [k for k, _ in a[1]]
            k2 = [k for k, _ in b[1]]
            if k1 != k2:
                return f"{path}: dict keys {[_short(k) for k in k1]} -> {[_short(k) for k in k2]}"
            for (k, v1), (_, v2) in zip(a[1], b[1]):
                if v1 != v2:
                    return first_diff(v1, v2, f"{path}[{_short(k)}]")
        if tag in ("l", "t") and len(a[1]) == len(b[1]):
            for i, (v1, v2) in enumerate(zip(a[1], b[1])):
                if v1 != v2:
                    return first_diff(v1, v2, f"{path}[{i}]")
        if tag in ("l", "t"):
            return f"{path}: length {len(a[1])} -> {len(b[1])}"
        if tag == "a":
            if a[1:3] != b[1:3]:
                return f"{path}: array {a[1]}{a[2]} -> {b[1]}{b[2]}"
            try:
                x = np.frombuffer(a[3], dtype=a[1]).reshape(a[2])
                y = np.frombuffer(b[3], dtype=b[1]).reshape(b[2])
                idx = np.argwhere(x != y)
                i = tuple(int(t) for t in idx[0]) if len(idx) else ()
                return f"{path}: array element {i}: {x[i]!r} -> {y[i]!r} ({len(idx)} differ)"
            except Exception:
                return f"{path}: array contents differ"
    return f"{path}: {_short(a)} -> {_short(b)}"


def _short(s):
    if isinstance(s, tuple) and s and s[0] in ("v",):
        return repr(s[2])
    if isinstance(s, tuple) and s and s[0] in ("f", "c"):
        return s[1]
    text = repr(s)
    return text if len(text) < 120 else text[:117] + "..."


def identities(obj):
    """id() of the direct mutable members of an attrs object (to detect replaced members)."""
    out = {}
    if attrs is not None and attrs.has(type(obj)):
        for field in attrs.fields(type(obj)):
            val = object.__getattribute__(obj, field.name)
            if isinstance(val, (np.ndarray, dict, list)) or (attrs.has(type(val))):
                out[field.name] = id(val)
    return out


def module_tables(prefix="iodata"):
    """Snapshot of every module-level mutable global of every loaded ``iodata.*`` module."""
    out = {}
    for name, mod in sorted(sys.modules.items()):
        if mod is None or not (name == prefix or name.startswith(prefix + ".")):
            continue
        if ".test" in name:
            continue
        for attr, val in sorted(vars(mod).items()):
            if attr.startswith("__"):
                continue
            if isinstance(val, (dict, list, set, np.ndarray)):
                out[f"{name}.{attr}"] = snap(val)
            elif isinstance(val, (float, int, str, tuple)) and not isinstance(val, bool):
                out[f"{name}.{attr}"] = snap(val)
    return out


def tables_diff(before, after):
    for key in sorted(set(before) | set(after)):
        if before.get(key) != after.get(key):
            if key not in before:
                return f"{key}: new module-level object"
            if key not in after:
                return f"{key}: removed"
            return first_diff(before[key], after[key], key)
    return None
